"""Runs the MPO algebra of tenpy.networks.mpo on the cases of harness/c11.py (fresh interpreter).

Every case builds one or two MPOs (from a term list or from explicit W grids), a random state, and
records what the implementation returns for each operation, together with plain contractions of the
resulting tensors (dense matrices / vectors, written to an .npz).  No comparison is done here.
"""
import json
import os
import sys
import traceback
import warnings

import numpy as np

warnings.simplefilter('ignore')

BASIS = {'SpinHalf': ['Id', 'Sp', 'Sm', 'Sz'], 'Fermion': ['Id', 'JW', 'C', 'Cd']}


def make_site(s):
    from tenpy.networks import site as S
    if s['type'] == 'SpinHalf':
        return S.SpinHalfSite(conserve=s.get('conserve'))
    if s['type'] == 'Fermion':
        return S.FermionSite(conserve=s.get('conserve'))
    raise ValueError(s['type'])


def cnum(z):
    z = complex(z)
    return [z.real, z.imag]


def cplx(x):
    return complex(x[0], x[1])


def contract_mpo(H, nsites, first=0):
    """plain contraction of the W tensors from IdL (left of `first`) to IdR"""
    import tenpy.linalg.np_conserved as npc
    W = H.get_W(first)
    cur = W.take_slice(H.get_IdL(first), 'wL').replace_labels(['p', 'p*'], ['p0', 'p0*'])
    for n in range(1, nsites):
        W = H.get_W(first + n).replace_labels(['p', 'p*'], ['p%d' % n, 'p%d*' % n])
        cur = npc.tensordot(cur, W, axes=['wR', 'wL'])
    cur = cur.take_slice(H.get_IdR(first + nsites - 1), 'wR')
    cur = cur.itranspose(['p%d%s' % (n, star) for star in ['', '*'] for n in range(nsites)])
    a = cur.to_ndarray()
    dim = int(np.prod(a.shape[:nsites]))
    a = a.reshape(dim, dim)
    if H.explicit_plus_hc:
        a = a + a.conj().T
    return a


def dense_state(psi):
    """full vector of a finite MPS including psi.norm (plain contraction of the B tensors)"""
    th = psi.get_theta(0, psi.L)
    th = th.itranspose(['vL'] + ['p%d' % n for n in range(psi.L)] + ['vR']).to_ndarray()
    return th.reshape(-1) * psi.norm


def mpo_grid(H, kind):
    """decompose every entry W[a, b] of every site in the operator basis of the site; exact Gaussian integers expected.
    returns {'edges': per site [[a, b, opname, [re, im]]], 'IdL', 'IdR', 'resid': max decomposition residual}"""
    basis = BASIS[kind]
    out = []
    resid = 0.0
    for i in range(H.L):
        site = H.sites[i]
        W = H.get_W(i).itranspose(['wL', 'wR', 'p', 'p*']).to_ndarray()
        mats = [site.get_op(b).to_ndarray() for b in basis]
        es = []
        for a in range(W.shape[0]):
            for b in range(W.shape[1]):
                M = W[a, b]
                if not np.any(M):
                    continue
                rest = M.astype(complex).copy()
                for name, B in zip(basis, mats):
                    c = np.trace(B.conj().T @ M) / np.trace(B.conj().T @ B)
                    if abs(c) > 1e-13:
                        es.append([a, b, name, cnum(c)])
                        rest = rest - c * B
                resid = max(resid, float(np.max(np.abs(rest))))
        out.append(es)
    return {'edges': out, 'IdL': [None if x is None else int(x) for x in H.IdL],
            'IdR': [None if x is None else int(x) % int(c) for x, c in zip(H.IdR, H.chi)], 'resid': resid}


def build_from_terms(sites, terms, bc, insert_all_id=True):
    from tenpy.networks.mpo import MPOGraph
    from tenpy.networks.terms import TermList
    tl = TermList([[(op, int(i)) for op, i in t] for t, _ in terms], [cplx(s) for _, s in terms])
    g = MPOGraph.from_term_list(tl, sites, bc, insert_all_id=insert_all_id)
    H = g.build_MPO()
    return H


def build_from_grid(sites, spec):
    from tenpy.networks.mpo import MPO
    grids = []
    for grid in spec['grids']:
        G = []
        for row in grid:
            R = []
            for ent in row:
                if ent is None:
                    R.append(None)
                else:
                    R.append([(op, cplx(st)) for op, st in ent])
            G.append(R)
        grids.append(G)
    return MPO.from_grids(sites, grids, 'finite', spec['IdL'], spec['IdR'], max_range=spec.get('max_range'))


def build_from_grid_graph(sites, spec):
    """explicit grids (index 0 = IdL, last index = IdR on every bond) through the MPOGraph API: all IdL / IdR markers stay known,
    the graph need not be in standard sum form (edges may return to IdL or leave IdR)"""
    from tenpy.networks.mpo import MPOGraph
    g = MPOGraph(sites, 'finite')
    chis = spec['chis']

    def key(bond, x):
        if x == 0:
            return 'IdL'
        if x == chis[bond] - 1:
            return 'IdR'
        return 'k%d' % int(x)
    for i, grid in enumerate(spec['grids']):
        for a, row in enumerate(grid):
            for b, ent in enumerate(row):
                if ent is None:
                    continue
                for op, st in ent:
                    g.add(i, key(i, a), key(i + 1, b), op, cplx(st) if st[1] != 0 else st[0])
    g.add_missing_IdL_IdR()
    return g.build_MPO()


def random_state(sites, spec, rng):
    """a finite MPS: product state with random local vectors (no charges), or a random-unitary-evolved basis state"""
    from tenpy.networks.mps import MPS
    import tenpy.linalg.np_conserved as npc
    L = len(sites)
    if spec['kind'] == 'full':
        d = [s.dim for s in sites]
        v = rng.normal(size=d) + 1j * rng.normal(size=d)
        v = v / np.linalg.norm(v)
        a = npc.Array.from_ndarray_trivial(v, labels=['p%d' % i for i in range(L)])
        return MPS.from_full(sites, a, form='B', normalize=True)
    if spec['kind'] == 'product':
        vecs = []
        for s in sites:
            v = rng.normal(size=s.dim) + 1j * rng.normal(size=s.dim)
            vecs.append(v / np.linalg.norm(v))
        return MPS.from_product_state(sites, vecs, 'finite', dtype=complex, permute=False)
    # charge conserving: random vector in the charge sector of the basis state p_state (given as labels)
    import itertools
    chinfo = sites[0].leg.chinfo
    qflat = [s_.leg.to_qflat() for s_ in sites]
    idx = [s_.state_index(lbl) for s_, lbl in zip(sites, spec['p_state'])]
    qtot = chinfo.make_valid(sum(qflat[k][idx[k]] for k in range(L)))
    d = [s_.dim for s_ in sites]
    v = np.zeros(d, dtype=complex)
    for comb in itertools.product(*[range(x) for x in d]):
        q = chinfo.make_valid(sum(qflat[k][comb[k]] for k in range(L)))
        if np.all(q == qtot):
            v[comb] = rng.normal() + 1j * rng.normal()
    v = v / np.linalg.norm(v)
    a = npc.Array.from_ndarray(v, [s_.leg for s_ in sites], qtotal=qtot, labels=['p%d' % i for i in range(L)])
    return MPS.from_full(sites, a, form='B', normalize=True)


class Rec:
    def __init__(self):
        self.out = {}
        self.mats = {}
        self.errors = {}

    def run(self, name, f):
        try:
            f()
        except Exception as e:
            self.errors[name] = type(e).__name__ + ': ' + str(e)[:200] + ' @ ' + traceback.format_exc().strip().split('\n')[-3][:160]


def run_algebra(case, npz):
    """finite chain: MPOs A, B from term lists or grids; all operations"""
    import tenpy.linalg.np_conserved as npc
    from tenpy.networks.mpo import MPO, MPOGraph, MPOEnvironment
    from tenpy.algorithms.exact_diag import ExactDiag
    rec = Rec()
    out = rec.out
    kind = case['site']['type']
    L = case['L']
    sites = [make_site(case['site'])] * L
    seed = case['seed']
    rng = np.random.default_rng(seed)
    np.random.seed(seed % (2 ** 31))

    def build(spec):
        if 'grids' in spec:
            return build_from_grid(sites, spec)
        return build_from_terms(sites, spec['terms'], 'finite', spec.get('insert_all_id', True))
    A = build(case['A'])
    B = build(case['B']) if case.get('B') else None
    out['L'] = L
    out['dims'] = [s.dim for s in sites]
    out['hc'] = {op: sites[0].get_hc_op_name(op) for op in BASIS[kind]}
    out['needs_JW'] = {op: bool(sites[0].op_needs_JW(op)) for op in sites[0].opnames}
    for op in sites[0].opnames:
        rec.mats['op/' + op] = sites[0].get_op(op).to_ndarray()
    out['A_IdL'] = [None if x is None else int(x) for x in A.IdL]
    out['A_IdR'] = [None if x is None else int(x) for x in A.IdR]
    out['A_max_range'] = None if A.max_range is None else float(A.max_range)
    rec.mats['A'] = contract_mpo(A, L)
    rec.run('A_ed', lambda: rec.mats.__setitem__('A_ed', _ed(A, L)))
    exact = case.get('exact', False)
    if exact:
        rec.run('gridA', lambda: out.__setitem__('gridA', mpo_grid(A, kind)))
    if B is not None:
        rec.mats['B'] = contract_mpo(B, L)
        if exact:
            rec.run('gridB', lambda: out.__setitem__('gridB', mpo_grid(B, kind)))

        def add():
            S = A + B
            S.test_sanity()
            rec.mats['sum'] = contract_mpo(S, L)
            out['sum_chi'] = [int(x) for x in S.chi]
            if exact:
                out['gridS'] = mpo_grid(S, kind)
        rec.run('add', add)

        def eq():
            out['is_equal_AB'] = bool(A.is_equal(B))
            out['is_equal_BA'] = bool(B.is_equal(A))
            out['is_equal_AA'] = bool(A.is_equal(A))
        rec.run('is_equal', eq)

        def ov():
            out['overlap_AB'] = cnum(A.overlap(B))
            out['overlap_AA'] = cnum(A.overlap(A))
            out['distance_AB'] = float(np.real(A.distance(B)))
        rec.run('overlap', ov)

    def dag():
        D = A.dagger()
        D.test_sanity()
        rec.mats['dagger'] = contract_mpo(D, L)
        if exact:
            out['gridD'] = mpo_grid(D, kind)
    rec.run('dagger', dag)
    rec.run('is_hermitian', lambda: out.__setitem__('is_hermitian', bool(A.is_hermitian())))
    if case.get('plus_identity') and all(x is not None for x in A.IdL) and all(x is not None for x in A.IdR):
        pi = case['plus_identity']

        def plus():
            P = A.plus_identity(cplx(pi['alpha']), cplx(pi['beta']), sites=pi['sites'])
            rec.mats['plus_identity'] = contract_mpo(P, L)
            if exact and len(pi['sites']) == 1 and pi['sites'][0] == 0:
                out['gridP'] = mpo_grid(P, kind)
        rec.run('plus_identity', plus)
    if case.get('prefactors'):
        def pref():
            res = []
            for i, ops in case['prefactors']:
                res.append(cnum(A.prefactor(i, ops)))
            out['prefactors'] = res
        rec.run('prefactor', pref)
    if case.get('to_TermList') and all(x is not None for x in A.IdL) and all(x is not None for x in A.IdR):
        def ttl():
            tl = A.to_TermList(BASIS[kind], ignore=['Id'])
            out['to_TermList'] = [[[[op, int(i)] for op, i in t], cnum(s)] for t, s in zip(tl.terms, tl.strength)]
            # round trip through a plain tensor-product term list is only meaningful without Jordan-Wigner strings
            if kind == 'SpinHalf':
                g = MPOGraph.from_term_list(tl, sites, 'finite')
                rec.mats['roundtrip'] = contract_mpo(g.build_MPO(), L)
        rec.run('to_TermList', ttl)
    # ---- states
    st = case.get('state')
    if st:
        psi = random_state(sites, st, rng)
        v = dense_state(psi)
        rec.mats['psi'] = v
        out['psi_chi'] = [int(x) for x in psi.chi]

        def ev():
            out['expectation_value'] = cnum(A.expectation_value(psi))
        rec.run('expectation_value', ev)

        def env():
            e = MPOEnvironment(psi, A, psi)
            out['env_full_contraction'] = [cnum(e.full_contraction(i)) for i in range(L - 1)]
        rec.run('MPOEnvironment', env)

        def var():
            out['variance'] = cnum(A.variance(psi))
        rec.run('variance', var)
        for meth in case.get('apply', []):
            def ap(meth=meth):
                p2 = psi.copy()
                if meth['method'] == 'naive':
                    A.apply_naively(p2)
                    err = None
                    p2.canonical_form(renormalize=False)
                else:
                    opts = {'compression_method': meth['method'], 'trunc_params': dict(meth['trunc_params'])}
                    if meth['method'] == 'zip_up':
                        opts['m_temp'] = meth.get('m_temp', 2)
                        opts['trunc_weight'] = meth.get('trunc_weight', 1.)
                    if meth['method'] in ('variational', 'variationalQR'):
                        opts['max_sweeps'] = meth.get('max_sweeps', 12)
                        opts['min_sweeps'] = 2
                        opts['max_trunc_err'] = None
                    err = A.apply(p2, opts)
                name = meth['name']
                rec.mats['apply_' + name] = dense_state(p2)
                out['apply_' + name] = {'eps': None if err is None else float(err.eps), 'chi': [int(x) for x in p2.chi],
                                        'norm': float(p2.norm)}
            rec.run('apply_' + meth['name'], ap)
    np.savez(npz, **rec.mats)
    out['errors'] = rec.errors
    out['npz'] = npz
    return out


def _ed(H, L):
    from tenpy.algorithms.exact_diag import ExactDiag
    ed = ExactDiag.from_H_mpo(H)
    ed.build_full_H_from_mpo()
    res = ed.full_H.split_legs()
    res = res.itranspose(['p%d%s' % (n, star) for star in ['', '*'] for n in range(L)]).to_ndarray()
    dim = int(np.prod(res.shape[:L]))
    return res.reshape(dim, dim)


def run_infinite(case, npz):
    """infinite MPO from a term list; product iMPS; window contractions"""
    from tenpy.networks.mps import MPS
    from tenpy.networks.mpo import MPOGraph
    rec = Rec()
    out = rec.out
    kind = case['site']['type']
    L = case['L']
    nwin = case['nwin']
    sites = [make_site(case['site'])] * L
    rng = np.random.default_rng(case['seed'])
    A = build_from_terms(sites, case['A']['terms'], 'infinite')
    if case['A'].get('max_range_none'):
        A.max_range = None
    B = build_from_terms(sites, case['B']['terms'], 'infinite') if case.get('B') else None
    N = L * nwin
    out['L'] = L
    out['N'] = N
    out['dims'] = [sites[0].dim] * N
    for op in sites[0].opnames:
        rec.mats['op/' + op] = sites[0].get_op(op).to_ndarray()
    out['needs_JW'] = {op: bool(sites[0].op_needs_JW(op)) for op in sites[0].opnames}
    rec.mats['A'] = contract_mpo(A, N)
    out['A_max_range'] = None if A.max_range is None else float(A.max_range)
    if B is not None:
        rec.mats['B'] = contract_mpo(B, N)
        rec.run('add', lambda: rec.mats.__setitem__('sum', contract_mpo(A + B, N)))

        def eq():
            out['is_equal_AB'] = bool(A.is_equal(B))
            out['is_equal_AA'] = bool(A.is_equal(A))
        rec.run('is_equal', eq)
    rec.run('dagger', lambda: rec.mats.__setitem__('dagger', contract_mpo(A.dagger(), N)))
    rec.run('is_hermitian', lambda: out.__setitem__('is_hermitian', bool(A.is_hermitian())))

    def ttl():
        tl = A.to_TermList(BASIS[kind], ignore=['Id'])
        out['to_TermList'] = [[[[op, int(i)] for op, i in t], cnum(s)] for t, s in zip(tl.terms, tl.strength)]
    rec.run('to_TermList', ttl)
    # product state with period L
    vecs = []
    psi_sites = [sites[0]] * case.get('psi_L', L)
    for s in psi_sites:
        if case['site'].get('conserve') is None:
            v = rng.normal(size=s.dim) + 1j * rng.normal(size=s.dim)
        else:       # definite charge on every site
            v = np.zeros(s.dim, dtype=complex)
            v[rng.integers(s.dim)] = 1.
        vecs.append(v / np.linalg.norm(v))
    out['state'] = [[cnum(x) for x in v] for v in vecs]
    if case['site'].get('conserve') is None:
        psi = MPS.from_product_state(psi_sites, vecs, 'infinite', dtype=complex, permute=False)
    else:       # indices of the sites' own (charge sorted) basis, in which the exported operator matrices are given
        psi = MPS.from_product_state(psi_sites, [int(np.argmax(np.abs(v))) for v in vecs], 'infinite', dtype=complex, permute=False)
    rec.run('expectation_value', lambda: out.__setitem__('expectation_value', cnum(A.expectation_value(psi))))
    rec.run('expectation_value_power', lambda: out.__setitem__('expectation_value_power', cnum(A.expectation_value_power(psi))))
    rec.run('expectation_value_TM', lambda: out.__setitem__('expectation_value_TM', cnum(A.expectation_value_TM(psi))))
    np.savez(npz, **rec.mats)
    out['errors'] = rec.errors
    out['npz'] = npz
    return out


def with_range(H, tag, how='ctor', plus_hc=False):
    """the same W tensors with the documented meta-data `max_range` known (as computed from the terms), unknown (None,
    an MPO given by its W tensors) or np.inf (a valid upper bound); with plus_hc the documented flag `explicit_plus_hc` is set:
    the W tensors store one half, the MPO denotes (W product) + h.c."""
    from tenpy.networks.mpo import MPO
    if tag == 'known' and not plus_hc:
        return H
    mr = H.max_range if tag == 'known' else (None if tag == 'none' else np.inf)
    if how == 'wflat' and H.sites[0].leg.chinfo.qnumber == 0:
        Wflat = [H.get_W(i, copy=True).itranspose(['p', 'p*', 'wL', 'wR']).to_ndarray() for i in range(H.L)]
        H2 = MPO.from_Wflat(H.sites, Wflat, H.bc, IdL=list(H.IdL), IdR=list(H.IdR), max_range=mr, unit_cell_width=H.unit_cell_width)
        H2.explicit_plus_hc = bool(plus_hc)           # (documented attribute; from_Wflat has no such argument)
        return H2
    return MPO(H.sites, [H.get_W(i, copy=True) for i in range(H.L)], H.bc, list(H.IdL), list(H.IdR), mr,
               explicit_plus_hc=bool(plus_hc), mps_unit_cell_width=H.unit_cell_width)


def run_results(case, npz):
    """RESULTS of the MPO algebra (sums in both orders, daggers, plus_identity, sums of sums) of operands whose `max_range` is
    known / None / inf in every combination, finite and infinite: the meta-data of every result and every routine that reads
    it (is_equal, is_hermitian, to_TermList, expectation values, variance), raw answers only"""
    from tenpy.networks.mps import MPS
    rec = Rec()
    out = rec.out
    kind = case['site']['type']
    L = case['L']
    bc = case['bc']
    finite = bc == 'finite'
    N = L if finite else L * case['nwin']
    sites = [make_site(case['site'])] * L
    rng = np.random.default_rng(case['seed'])
    np.random.seed(case['seed'] % (2 ** 31))
    out['L'], out['N'] = L, N
    out['dims'] = [sites[0].dim] * N
    out['needs_JW'] = {op: bool(sites[0].op_needs_JW(op)) for op in sites[0].opnames}
    for op in sites[0].opnames:
        rec.mats['op/' + op] = sites[0].get_op(op).to_ndarray()
    opd = {}
    out['operand_max_range'] = {}
    for name, spec in case['operands'].items():
        H = build_from_terms(sites, spec['terms'], bc)
        out['operand_max_range'][name] = [None if H.max_range is None else float(H.max_range), spec['range']]
        opd[name] = with_range(H, spec['range'], spec.get('how', 'ctor'))
    # state
    if finite:
        st = case['state']
        psi = random_state(sites, st, rng)
        rec.mats['psi'] = dense_state(psi)
    else:
        vecs = []
        psi_sites = [sites[0]] * case.get('psi_L', L)
        for s_ in psi_sites:
            if case['site'].get('conserve') is None:
                v = rng.normal(size=s_.dim) + 1j * rng.normal(size=s_.dim)
            else:
                v = np.zeros(s_.dim, dtype=complex)
                v[rng.integers(s_.dim)] = 1.
            vecs.append(v / np.linalg.norm(v))
        out['state'] = [[cnum(x) for x in v] for v in vecs]
        if case['site'].get('conserve') is None:
            psi = MPS.from_product_state(psi_sites, vecs, 'infinite', dtype=complex, permute=False)
        else:
            psi = MPS.from_product_state(psi_sites, [int(np.argmax(np.abs(v))) for v in vecs], 'infinite', dtype=complex, permute=False)
    res = {}
    out['results'] = {}

    def evaluate(expr):
        if isinstance(expr, str):
            return opd[expr]
        op = expr[0]
        if op == 'add':
            return evaluate(expr[1]) + evaluate(expr[2])
        if op == 'dagger':
            return evaluate(expr[1]).dagger()
        if op == 'plus_identity':
            return evaluate(expr[1]).plus_identity(cplx(expr[2]), cplx(expr[3]))
        raise ValueError(op)
    for name, expr in case['results'].items():
        o = out['results'][name] = {}

        def make(name=name, expr=expr, o=o):
            R = evaluate(expr)
            R.test_sanity()
            res[name] = R
            o['max_range'] = None if R.max_range is None else ('inf' if R.max_range == np.inf else float(R.max_range))
            o['IdR_negative'] = bool(any(x is not None and x < 0 for x in R.IdR))
            rec.mats['R/' + name] = contract_mpo(R, N)
        rec.run('make:' + name, make)
        if name not in res:
            continue
        R = res[name]
        rec.run('is_hermitian:' + name, lambda R=R, o=o: o.__setitem__('is_hermitian', bool(R.is_hermitian())))

        def ttl(R=R, o=o):
            conv = lambda tl: [[[[op, int(i)] for op, i in t], cnum(s_)] for t, s_ in zip(tl.terms, tl.strength)]
            o['to_TermList_raw'] = conv(R.to_TermList(BASIS[kind], ignore=['Id']))
            # an independent MPO with the same tensors and meta-data (MPO.copy() is shallow: shares the marker lists)
            from tenpy.networks.mpo import MPO
            R2 = MPO(R.sites, [R.get_W(i, copy=True) for i in range(R.L)], R.bc, list(R.IdL), list(R.IdR), R.max_range,
                     R.explicit_plus_hc, R.unit_cell_width)
            R2.sort_legcharges()            # (brings the IdL / IdR markers to non-negative indices)
            o['to_TermList'] = conv(R2.to_TermList(BASIS[kind], ignore=['Id']))
            o['max_range_sorted'] = None if R2.max_range is None else ('inf' if R2.max_range == np.inf else float(R2.max_range))
        rec.run('to_TermList:' + name, ttl)
        rec.run('expectation_value:' + name, lambda R=R, o=o: o.__setitem__('expectation_value', cnum(R.expectation_value(psi))))
        if finite:
            rec.run('variance:' + name, lambda R=R, o=o: o.__setitem__('variance', cnum(R.variance(psi))))
        else:
            rec.run('expectation_value_mr:' + name,
                    lambda R=R, o=o: o.__setitem__('expectation_value_mr', cnum(R.expectation_value(psi, max_range=case['ev_max_range']))))
            rec.run('expectation_value_TM:' + name, lambda R=R, o=o: o.__setitem__('expectation_value_TM', cnum(R.expectation_value_TM(psi))))
            rec.run('expectation_value_power:' + name,
                    lambda R=R, o=o: o.__setitem__('expectation_value_power', cnum(R.expectation_value_power(psi))))
    out['is_equal'] = {}
    for a, b in case['compare']:
        if a in res and b in res:
            rec.run('is_equal:%s:%s' % (a, b), lambda a=a, b=b: out['is_equal'].__setitem__(a + ':' + b, bool(res[a].is_equal(res[b]))))
    if case.get('hc'):
        run_hc(case, rec, sites, bc, N, psi, kind)
    np.savez(npz, **rec.mats)
    out['errors'] = rec.errors
    out['npz'] = npz
    return out


def run_hc(case, rec, sites, bc, N, psi, kind):
    """operands P, Q with the flag explicit_plus_hc drawn independently (stored half + flag vs. operator written in full), Hermitian
    and non-Hermitian: every routine that reads the flag, for both operand orders; raw answers only"""
    hc = case['hc']
    finite = bc == 'finite'
    oh = rec.out['hc'] = {'operands': {}, 'pairs': {}, 'add': {}}
    Hs = {}
    for name in ('P', 'Q'):
        spec = hc[name]
        o = oh['operands'][name] = {}

        def mk(name=name, spec=spec, o=o):
            H0 = build_from_terms(sites, spec['terms'], bc)
            H = with_range(H0, spec['range'], spec.get('how', 'ctor'), plus_hc=spec['plus_hc'])
            H.test_sanity()
            Hs[name] = H
            o['flag'] = bool(H.explicit_plus_hc)
            o['max_range'] = None if H.max_range is None else ('inf' if H.max_range == np.inf else float(H.max_range))
            rec.mats['HC/' + name] = contract_mpo(H, N)
        rec.run('hc_make:' + name, mk)
        if name not in Hs:
            continue
        H = Hs[name]
        rec.run('hc_is_hermitian:' + name, lambda H=H, o=o: o.__setitem__('is_hermitian', bool(H.is_hermitian())))

        def dag(H=H, o=o, name=name):
            D = H.dagger()
            D.test_sanity()
            o['dagger_flag'] = bool(D.explicit_plus_hc)
            rec.mats['HC/dagger/' + name] = contract_mpo(D, N)
        rec.run('hc_dagger:' + name, dag)
        rec.run('hc_expectation_value:' + name, lambda H=H, o=o: o.__setitem__('expectation_value', cnum(H.expectation_value(psi))))
        if finite:
            def var(H=H, o=o):
                try:
                    o['variance'] = cnum(H.variance(psi))
                except NotImplementedError:
                    o['variance_raises'] = 'NotImplementedError'
            rec.run('hc_variance:' + name, var)
            rec.run('hc_ExactDiag:' + name, lambda H=H, name=name: rec.mats.__setitem__('HC/ed/' + name, _ed(H, N)))
        else:
            rec.run('hc_expectation_value_TM:' + name,
                    lambda H=H, o=o: o.__setitem__('expectation_value_TM', cnum(H.expectation_value_TM(psi))))
            rec.run('hc_expectation_value_power:' + name,
                    lambda H=H, o=o: o.__setitem__('expectation_value_power', cnum(H.expectation_value_power(psi))))
        if spec.get('prefactors'):
            rec.run('hc_prefactor:' + name,
                    lambda H=H, o=o, spec=spec: o.__setitem__('prefactors', [cnum(H.prefactor(i, ops)) for i, ops in spec['prefactors']]))
    for a, b in (('P', 'Q'), ('Q', 'P'), ('P', 'P'), ('Q', 'Q')):
        if a not in Hs or b not in Hs:
            continue
        o = oh['pairs'][a + ':' + b] = {}
        A, B = Hs[a], Hs[b]
        rec.run('hc_overlap:%s:%s' % (a, b),
                lambda A=A, B=B, o=o: o.__setitem__('overlap', cnum(A.overlap(B, understood_infinite=True, num_sites=N))))
        rec.run('hc_distance:%s:%s' % (a, b),
                lambda A=A, B=B, o=o: o.__setitem__('distance', cnum(A.distance(B, understood_infinite=True, num_sites=N))))
        rec.run('hc_is_equal:%s:%s' % (a, b), lambda A=A, B=B, o=o: o.__setitem__('is_equal', bool(A.is_equal(B))))
    for a, b in (('P', 'Q'), ('Q', 'P')):
        if a not in Hs or b not in Hs:
            continue
        o = oh['add'][a + ':' + b] = {}

        def add(a=a, b=b, o=o):
            try:
                S = Hs[a] + Hs[b]
            except ValueError as e:
                o['raises'] = 'ValueError: ' + str(e)[:120]
                return
            S.test_sanity()
            o['flag'] = bool(S.explicit_plus_hc)
            rec.mats['HC/add/%s:%s' % (a, b)] = contract_mpo(S, N)
            o['is_hermitian'] = bool(S.is_hermitian())
            o['is_equal_rev'] = bool(S.is_equal(Hs[b] + Hs[a]))
        rec.run('hc_add:%s:%s' % (a, b), add)


def run_propagator(case, npz):
    """make_U_I / make_U_II at dt, dt/2, dt/4 of a finite chain (contracted over the whole chain and, for case['window'] = [a, n], from
    the IdL marker left of site a to the IdR marker right of site a + n - 1) or of an infinite MPO on a window of N sites.
    case['form']: 'single' (one MPOGraph), 'sum' (A + B by MPO.__add__: the IdR markers of the result are -1), 'negmarkers'
    (the same W tensors, IdR markers given as negative indices)"""
    from tenpy.networks.mpo import MPO
    rec = Rec()
    out = rec.out
    L = case['L']
    bc = case.get('bc', 'finite')
    N = L if bc == 'finite' else case['N']
    sites = [make_site(case['site'])] * L
    form = case.get('form', 'single')
    terms = case['A']['terms']
    if form == 'sum':
        nB = case['split']
        H = build_from_terms(sites, terms[:nB], bc) + build_from_terms(sites, terms[nB:], bc)
    else:
        H = build_from_terms(sites, terms, bc)
        if form == 'negmarkers':
            dims = [H.get_W(i).get_leg('wL').ind_len for i in range(L)] + [H.get_W(L - 1).get_leg('wR').ind_len]
            H = MPO(sites, [H.get_W(i, copy=True) for i in range(L)], bc, list(H.IdL), [int(x) - int(c) for x, c in zip(H.IdR, dims)],
                    H.max_range, mps_unit_cell_width=H.unit_cell_width)
    H.test_sanity()
    rec.mats['H'] = contract_mpo(H, N)
    for op in sites[0].opnames:
        rec.mats['op/' + op] = sites[0].get_op(op).to_ndarray()
    out['L'] = L
    out['N'] = N
    out['dims'] = [sites[0].dim] * N
    out['needs_JW'] = {op: bool(sites[0].op_needs_JW(op)) for op in sites[0].opnames}
    out['H_IdL'] = [None if x is None else int(x) for x in H.IdL]
    out['H_IdR'] = [None if x is None else int(x) for x in H.IdR]
    out['U_markers'] = {}
    win = case.get('window')
    for which in ('I', 'II'):
        for n, dt in enumerate(case['dts']):
            def mk(which=which, n=n, dt=dt):
                U = H.make_U(cplx(dt), which)
                U.test_sanity()
                out['U_markers']['%s_%d' % (which, n)] = [[None if x is None else int(x) for x in U.IdL], [None if x is None else int(x) for x in U.IdR]]
                rec.mats['U%s_%d' % (which, n)] = contract_mpo(U, N)
                if win:
                    rec.mats['Uw%s_%d' % (which, n)] = contract_mpo(U, win[1], first=win[0])
            rec.run('make_U_%s_%d' % (which, n), mk)

            def mk2(which=which, n=n, dt=dt):
                # documented second-order scheme of ExpMPOEvolution: two complex sub-steps (1 +- i)/2 dt
                U1 = H.make_U(cplx(dt) * (1. + 1j) / 2., which)
                U2 = H.make_U(cplx(dt) * (1. - 1j) / 2., which)
                rec.mats['U%so2_%d' % (which, n)] = contract_mpo(U2, N) @ contract_mpo(U1, N)
                if win:
                    rec.mats['Uw%so2_%d' % (which, n)] = contract_mpo(U2, win[1], first=win[0]) @ contract_mpo(U1, win[1], first=win[0])
            rec.run('make_U_%s_order2_%d' % (which, n), mk2)
    np.savez(npz, **rec.mats)
    out['errors'] = rec.errors
    out['npz'] = npz
    return out


def raw_grid(H, kind):
    """raw W grid of an MPO for the make_U_I correspondence: entries decomposed into named operators (mpo_grid),
    plus IdL / IdR normalised into range(chi) and the bond dimensions"""
    g = mpo_grid(H, kind)
    chi = [int(c) for c in H.chi]
    if H.finite and len(chi) == H.L - 1:
        chi = [int(H.get_W(0).get_leg('wL').ind_len)] + chi + [int(H.get_W(H.L - 1).get_leg('wR').ind_len)]
    g['chi'] = chi
    g['IdL'] = [None if x is None else int(x) % int(c) for x, c in zip(H.IdL, chi)]
    g['IdR'] = [None if x is None else int(x) % int(c) for x, c in zip(H.IdR, chi)]
    return g


def permute_bonds(H, seed):
    """the same MPO with the indices of every virtual bond permuted at random (no charges): IdL / IdR sit anywhere"""
    from tenpy.networks.mpo import MPO
    rng = np.random.default_rng(seed)
    chi = [int(c) for c in H.chi]
    perms = [rng.permutation(c) for c in chi]
    Ws = []
    for i in range(H.L):
        W = H.get_W(i, copy=True)
        W = W.permute(perms[i], W.get_leg_index('wL'))
        W = W.permute(perms[i + 1], W.get_leg_index('wR'))
        Ws.append(W)
    IdL = [int(list(pm).index(int(x) % c)) for pm, x, c in zip(perms, H.IdL, chi)]
    IdR = [int(list(pm).index(int(x) % c)) for pm, x, c in zip(perms, H.IdR, chi)]
    return MPO(H.sites, Ws, H.bc, IdL, IdR, H.max_range, mps_unit_cell_width=H.unit_cell_width)


def run_ui(case, npz):
    """finite chain, exact strengths: the W grid of H and of H.make_U_I(dt) for Gaussian-integer steps dt (raw data only)"""
    rec = Rec()
    out = rec.out
    kind = case['site']['type']
    L = case['L']
    sites = [make_site(case['site'])] * L
    if 'grids' in case['A']:
        H = build_from_grid_graph(sites, case['A'])
    else:
        H = build_from_terms(sites, case['A']['terms'], 'finite', case['A'].get('insert_all_id', True))
    if case.get('perm_seed') is not None and all(x is not None for x in list(H.IdL) + list(H.IdR)):
        H = permute_bonds(H, case['perm_seed'])
        H.test_sanity()
    out['L'] = L
    out['gridH'] = raw_grid(H, kind)
    out['U'] = []
    for n, dt in enumerate(case['dts']):
        def mk(n=n, dt=dt):
            if dt[1] != 0:
                t = complex(dt[0], dt[1])
            elif case.get('int_dt'):
                t = int(dt[0])
            else:
                t = float(dt[0])
            U = H.make_U_I(t)
            U.test_sanity()
            g = raw_grid(U, kind)
            g['dt'] = dt
            out['U'].append(g)
        rec.run('make_U_I_%d' % n, mk)
    # H itself must not have been modified by make_U_I
    out['gridH_after'] = raw_grid(H, kind)
    out['errors'] = rec.errors
    return out


def main():
    fin, fout = sys.argv[1], sys.argv[2]
    payload = json.load(open(fin))
    out = []
    base = os.path.splitext(fout)[0]
    import c11x_impl
    c11x_impl.instrument()          # call counter of the functions of tenpy.networks.mpo / mpo_evolution (coverage table of the evidence)
    for n, case in enumerate(payload['cases']):
        npz = '%s_%d.npz' % (base, n)
        try:
            if case['kind'] == 'algebra':
                out.append(run_algebra(case, npz))
            elif case['kind'] == 'infinite':
                out.append(run_infinite(case, npz))
            elif case['kind'] == 'ui':
                out.append(run_ui(case, npz))
            elif case['kind'] == 'results':
                out.append(run_results(case, npz))
            elif case['kind'] == 'ext':
                out.append(c11x_impl.run_ext(case, npz))
            else:
                out.append(run_propagator(case, npz))
        except Exception:
            out.append({'runner_error': traceback.format_exc()[-1500:]})
    if out:
        out[-1]['api_calls'] = dict(c11x_impl.API_CALLS)
    json.dump(out, open(fout, 'w'))


if __name__ == '__main__':
    main()
