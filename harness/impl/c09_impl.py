"""Runner of check C09 (fresh interpreter): the executor shared with C07 (harness/impl/c07_exec.py) plus the C09-only
extensions of c09_ext_run.py (further transformation methods / option values / segment states, line recording of the
anchored methods, log of the option values every call received)."""
import sys
import c07_exec
import c09_ext_run

if __name__ == '__main__':
    c09_ext_run.install(c07_exec)
    c09_ext_run.main(c07_exec, sys.argv)
