"""Runner of check C09 (fresh interpreter): same executor as C07 (harness/impl/c07_exec.py)."""
import sys
import c07_exec

if __name__ == '__main__':
    c07_exec.main(sys.argv)
