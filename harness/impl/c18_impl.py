"""C18 implementation runner (fresh interpreter): drives tenpy simulations under a fault-injecting
file-system layer (c18_helpers.FaultFS) and returns traces of primitive path operations, the state
of the disk after every injected crash, and results of interrupted+resumed versus plain runs."""
import copy
import json
import logging
import os
import shutil
import sys
import tempfile
import traceback
import warnings

import numpy as np

warnings.simplefilter('ignore')
logging.disable(logging.CRITICAL)

sys.path.insert(0, os.path.dirname(os.path.abspath(__file__)))
import tenpy  # noqa: E402
import tenpy.tools.misc  # noqa: E402

tenpy.tools.misc.skip_logging_setup = True
import c18_helpers as H  # noqa: E402
from c18_helpers import FaultFS, SimulatedCrash, SimulatedInterrupt, classify  # noqa: E402
from tenpy.simulations.simulation import Simulation, Skip, resume_from_checkpoint  # noqa: E402
from tenpy.simulations.ground_state_search import GroundStateSearch  # noqa: E402,F401
from tenpy.simulations.time_evolution import RealTimeEvolution  # noqa: E402,F401

BASE = os.environ.get('VERIF_SCRATCH_BASE', '/var/tmp')
ORIG_CWD = os.getcwd()


def jsonable(x):
    if isinstance(x, dict):
        return {str(k): jsonable(v) for k, v in x.items()}
    if isinstance(x, (list, tuple)):
        return [jsonable(v) for v in x]
    if isinstance(x, np.ndarray):
        if np.iscomplexobj(x):
            return {'re': x.real.tolist(), 'im': x.imag.tolist()}
        return x.tolist()
    if isinstance(x, (bool, np.bool_)):
        return bool(x)
    if isinstance(x, (np.floating, float)):
        return float(x)
    if isinstance(x, (np.integer, int)):
        return int(x)
    if isinstance(x, (np.complexfloating, complex)):
        return {'re': float(np.real(x)), 'im': float(np.imag(x))}
    if isinstance(x, (str, bool)) or x is None:
        return x
    return repr(x)


# ============================================================================================
# 1. histories (run, crash, resume)* of a cheap step simulation
# ============================================================================================

def dummy_options(fmt, safe, nsteps, overwrite=False):
    return {
        'output_filename': 'data.' + fmt, 'safe_write': safe, 'overwrite_output': overwrite,
        'model_class': 'XXZChain', 'model_params': {'L': 2, 'bc_MPS': 'finite', 'sort_charge': True},
        'algorithm_class': 'C18StepAlgorithm', 'algorithm_params': {'N_steps': nsteps},
        'initial_state_params': {'method': 'lat_product_state', 'product_state': [['up'], ['down']]},
        'save_every_x_seconds': 0., 'measure_at_algorithm_checkpoints': True,
        'connect_measurements': [('c18_helpers', 'm_step')],
    }


def names_for(fmt):
    return {'data.' + fmt: 'out', 'data.backup.' + fmt: 'bak'}


def dummy_ckpt(res):
    k = int(res['resume_data']['step']) if 'resume_data' in res else int(res['measurements']['step'][-1])
    return k + (1 if res.get('finished_run') else 0)


def disk_state(d, fmt, ckpt_of, partials):
    st, data = {}, {}
    for fn, nm in names_for(fmt).items():
        st[nm], data[nm] = classify(os.path.join(d, fn), ckpt_of, partials)
    extra = sorted(f for f in os.listdir(d) if f not in names_for(fmt) and not f.startswith('.c18tmp'))
    return st, data, extra


def choose_load(st):
    """What a user does: take the output file if it loads, else the backup if it loads."""
    for nm in ('out', 'bak'):
        if st[nm][0] == 'C':
            return nm, st[nm][1]
    return None


def summary(res):
    m = res.get('measurements', {})
    return {'finished': bool(res.get('finished_run')), 'step': jsonable(m.get('step')),
            'measurement_index': jsonable(m.get('measurement_index')),
            'keys': sorted(m.keys()), 'lens': sorted(set(len(v) for v in m.values()))}


PARTIALS = {}
LAST = {}


def run_segment(d, fmt, opts, load, crash_at, partial):
    """One process life time: a fresh run (load None) or a resume from file `load` ('out'|'bak')."""
    os.chdir(d)
    fs = FaultFS(d, names_for(fmt), dummy_ckpt, crash_at, partial)
    fs.partials = PARTIALS
    res = None
    try:
        with fs:
            try:
                if load is None:
                    sim = Simulation(copy.deepcopy(opts))
                    res = sim.run()
                else:
                    fn = [f for f, nm in names_for(fmt).items() if nm == load[0]][0]
                    res = resume_from_checkpoint(filename=fn)
                outcome = 'finished'
            except SimulatedCrash as e:
                outcome = 'crash'
                if not fs.crashed:
                    outcome = 'error: stray SimulatedCrash %r' % (e,)
            except Skip:
                outcome = 'skip'
            except Exception as e:
                outcome = 'error: %s: %s | %s' % (type(e).__name__, e, traceback.format_exc()[-600:])
    finally:
        os.chdir(ORIG_CWD)
    LAST['wsizes'] = dict(fs.wsizes)
    return fs.ops, outcome, res


def snapshot(d):
    return {f: open(os.path.join(d, f), 'rb').read() for f in os.listdir(d)}


def restore(d, snap):
    for f in os.listdir(d):
        os.unlink(os.path.join(d, f))
    for f, c in snap.items():
        with open(os.path.join(d, f), 'wb') as fh:
            fh.write(c)


def fs_enum(p):
    """Enumerate histories.  Level 1: crash at every primitive step (and inside every write at the byte
    prefixes p['partials']) of a fresh run; level >= 2: resume from what is loadable, crash again at
    every step of the first `window` steps of the resumed run; every crash state is also resumed
    without a further crash and finished."""
    fmt, safe, nsteps = p['fmt'], p['safe'], p['nsteps']
    depth, window = p['depth'], p.get('window')
    partial_specs = p['partials']
    opts = dummy_options(fmt, safe, nsteps)
    d = tempfile.mkdtemp(prefix='c18-', dir=BASE)
    out = []
    try:
        def variants(op, s, wsizes, ops_now):
            if op[0] != 'W':
                return [None]
            if partial_specs == 'all':     # every byte prefix of the first file written, every 7th of later ones
                first = not any(o[0] == 'W' for o in ops_now[:s])
                return [None] + list(range(0, wsizes[s], 1 if first else 7))
            return [None] + list(partial_specs)

        def explore(snap, load, hist, segs, level):
            # the segment without a crash: trace length and final results
            restore(d, snap)
            ops, outcome, res = run_segment(d, fmt, opts, load, None, None)
            wsizes = LAST['wsizes']
            st, _, extra = disk_state(d, fmt, dummy_ckpt, PARTIALS)
            seg = {'loaded': load, 'ops': ops, 'disk': st, 'outcome': outcome, 'extra': extra}
            rec = {'hist': hist + [None], 'segs': segs + [seg]}
            if res is not None and outcome == 'finished':
                rec['final'] = summary(res)
            out.append(rec)
            if level >= depth or not outcome == 'finished':
                return
            idxs = range(len(ops))
            if level == 0 and p.get('s_mod') is not None:
                idxs = [s for s in idxs if s % p['s_mod'][1] == p['s_mod'][0]]
            if level >= 1 and window is not None:
                idxs = [s for s in idxs if s < window]
            for s in idxs:
                for pv in variants(ops[s], s, wsizes, ops):
                    restore(d, snap)
                    ops_c, outcome_c, _ = run_segment(d, fmt, opts, load, s, pv)
                    st_c, _, extra_c = disk_state(d, fmt, dummy_ckpt, PARTIALS)
                    seg_c = {'loaded': load, 'ops': ops_c, 'disk': st_c, 'outcome': outcome_c, 'extra': extra_c}
                    h = hist + [[s, pv is not None, pv]]
                    ld = choose_load(st_c)
                    if ld is None or outcome_c != 'crash':
                        out.append({'hist': h, 'segs': segs + [seg_c], 'unloadable': ld is None})
                        continue
                    explore(snapshot(d), list(ld), h, segs + [seg_c], level + 1)

        explore({}, None, [], [], 0)
    finally:
        shutil.rmtree(d, ignore_errors=True)
    return out


def fs_single(p):
    """Run one explicit history  [[s, inside, partial] | None, ...]  (replays, Coq witness)."""
    fmt, safe, nsteps = p['fmt'], p['safe'], p['nsteps']
    opts = dummy_options(fmt, safe, nsteps)
    d = tempfile.mkdtemp(prefix='c18-', dir=BASE)
    segs, rec, load = [], {}, None
    try:
        for h in p['hist']:
            crash_at = None if h is None else h[0]
            pv = None if (h is None or not h[1]) else h[2]
            ops, outcome, res = run_segment(d, fmt, opts, load, crash_at, pv)
            st, _, extra = disk_state(d, fmt, dummy_ckpt, PARTIALS)
            segs.append({'loaded': load, 'ops': ops, 'disk': st, 'outcome': outcome, 'extra': extra})
            if res is not None and outcome == 'finished':
                rec['final'] = summary(res)
            if h is None or outcome != 'crash':
                break
            ld = choose_load(st)
            if ld is None:
                rec['unloadable'] = True
                break
            load = list(ld)
    finally:
        shutil.rmtree(d, ignore_errors=True)
    rec['hist'] = p['hist'][:len(segs)]
    rec['segs'] = segs
    return [rec]


# ============================================================================================
# 2. save_results / fix_output_filenames from arbitrary disk states
# ============================================================================================

def put(path, kind, fmt, good):
    """Create the file state `kind` = ['A'] | ['M'] | ['C', k] | ['P', k]."""
    if os.path.exists(path):
        os.unlink(path)
    if kind[0] == 'A':
        return
    if kind[0] == 'M':
        with open(path, 'w') as f:
            f.write("simulation initialized on 'host' at some time\n")
        return
    content = good(kind[1])
    if kind[0] == 'P':
        content = content[:max(1, len(content) // 2)]
        import hashlib
        PARTIALS[hashlib.sha1(content).hexdigest()] = kind[1]
    with open(path, 'wb') as f:
        f.write(content)


_good_cache = {}


def good_bytes(fmt, k, d):
    if (fmt, k) not in _good_cache:
        tmp = os.path.join(d, '.c18tmp_good.' + fmt)
        H._o_save({'ckpt': k, 'data': np.arange(5.) * k, 'finished_run': False}, tmp)
        _good_cache[(fmt, k)] = open(tmp, 'rb').read()
        os.unlink(tmp)
    return _good_cache[(fmt, k)]


def save_direct(p):
    """For each case: disk state -> Simulation.__init__ (fix_output_filenames) [-> save_results(k)]
    with a crash before step `crash` (None: no crash); returns ops and disk state."""
    out = []
    d = tempfile.mkdtemp(prefix='c18-', dir=BASE)
    ck = lambda data: int(data['ckpt'])  # noqa: E731
    try:
        for c in p['cases']:
            fmt = c['fmt']
            for f in os.listdir(d):
                os.unlink(os.path.join(d, f))
            good = lambda k: good_bytes(fmt, k, d)  # noqa: E731
            os.chdir(d)
            try:
                if c['what'] == 'save':
                    # initialise on an empty directory, then arrange the disk, then save
                    opts = dummy_options(fmt, c['safe'], 1)
                    sim = Simulation(opts)
                    put('data.' + fmt, c['out'], fmt, good)
                    put('data.backup.' + fmt, c['bak'], fmt, good)
                    fs = FaultFS(d, names_for(fmt), ck, c.get('crash'), c.get('partial'))
                    fs.partials = PARTIALS
                    outcome = 'finished'
                    with fs:
                        try:
                            sim.save_results({'ckpt': c['k'], 'data': np.arange(5.) * c['k'], 'finished_run': False})
                        except SimulatedCrash:
                            outcome = 'crash'
                        except Exception as e:
                            outcome = 'error: %s: %s' % (type(e).__name__, e)
                else:   # 'init'
                    put('data.' + fmt, c['out'], fmt, good)
                    put('data.backup.' + fmt, c['bak'], fmt, good)
                    for i in range(1, c.get('n_taken', 0) + 1):
                        put('data_%d.%s' % (i, fmt), ['C', 0], fmt, good)
                    opts = dummy_options(fmt, c['safe'], 1, overwrite=c['overwrite'])
                    fs = FaultFS(d, names_for(fmt), ck, c.get('crash'), None)
                    fs.partials = PARTIALS
                    outcome = 'finished'
                    names = None
                    with fs:
                        try:
                            if c['loaded']:
                                sim = Simulation.__new__(Simulation)
                                sim.loaded_from_checkpoint = True
                                sim.__init__(opts)
                            else:
                                sim = Simulation(opts)
                            names = [str(sim.output_filename), str(sim._backup_filename)]
                        except SimulatedCrash:
                            outcome = 'crash'
                        except Exception as e:
                            outcome = 'error: %s: %s' % (type(e).__name__, e)
            finally:
                os.chdir(ORIG_CWD)
            st, _, extra = disk_state(d, fmt, ck, PARTIALS)
            r = {'ops': fs.ops, 'disk': st, 'outcome': outcome, 'extra': extra}
            if c['what'] == 'init':
                r['names'] = names
                r['extra_states'] = {f: classify(os.path.join(d, f), ck, PARTIALS)[0] for f in extra}
            out.append(r)
    finally:
        shutil.rmtree(d, ignore_errors=True)
    return out


# ============================================================================================
# 2b. fix_output_filenames: the choice of the output name (Model/FixNames.v `fix_name`)
# ============================================================================================

def fix_names(p):
    """For each case: a fresh directory pre-populated with the candidate names `existing` (index 0 = root+ext,
    i = root_i+ext) and the `noise` names; call Simulation.fix_output_filenames (via 'init': through
    Simulation.__init__ with relative names in the working directory; via 'method': directly on a bare
    instance with an absolute output_filename); record Skip / ValueError / chosen names and the directory."""
    out = []
    top = tempfile.mkdtemp(prefix='c18-fix-', dir=BASE)
    try:
        for n, c in enumerate(p['cases']):
            d = os.path.join(top, 'case%d' % n)
            os.mkdir(d)
            root, ext = c['root'], c['ext']
            cand = lambda i: root + ext if i == 0 else root + '_' + str(i) + ext  # noqa: E731
            before = {}
            for fn in [cand(i) for i in c['existing']] + list(c['noise']):
                before[fn] = 'content of ' + fn
                with open(os.path.join(d, fn), 'w') as f:
                    f.write(before[fn])
            opts = {'output_filename': (root + ext) if c['via'] == 'init' else os.path.join(d, root + ext),
                    'safe_write': c['safe'], 'overwrite_output': c['overwrite'], 'skip_if_output_exists': c['skip']}
            if c.get('defaults'):       # rely on the defaults of the two options (both False)
                del opts['overwrite_output'], opts['skip_if_output_exists']
            r = {'outcome': None, 'name': None, 'backup': None}
            os.chdir(d)
            try:
                sim = Simulation.__new__(Simulation)
                if c['loaded']:
                    sim.loaded_from_checkpoint = True
                try:
                    if c['via'] == 'init':
                        sim.__init__(dict(dummy_options('pkl', c['safe'], 1), **opts))
                    else:
                        if not c['loaded']:
                            sim.loaded_from_checkpoint = False
                        sim.options = opts
                        sim.fix_output_filenames()
                    r['outcome'] = 'name'
                    r['name'] = os.path.basename(str(sim.output_filename))
                    r['dir_ok'] = os.path.dirname(str(sim.output_filename)) == ('' if c['via'] == 'init' else d)
                    r['backup'] = None if sim._backup_filename is None else os.path.basename(str(sim._backup_filename))
                except Skip:
                    r['outcome'] = 'skip'
                except ValueError as e:
                    r['outcome'] = 'raise'
                    r['msg'] = str(e)[:200]
                except Exception as e:
                    r['outcome'] = 'error: %s: %s | %s' % (type(e).__name__, e, traceback.format_exc()[-600:])
            finally:
                os.chdir(ORIG_CWD)
            after = {}
            for fn in os.listdir(d):
                with open(os.path.join(d, fn)) as f:
                    after[fn] = f.read(300)
            r['changed'] = sorted(fn for fn in before if after.get(fn) != before[fn])
            r['created'] = sorted(fn for fn in after if fn not in before)
            out.append(r)
            shutil.rmtree(d, ignore_errors=True)
    finally:
        shutil.rmtree(top, ignore_errors=True)
    return out


# ============================================================================================
# 3. real simulations: plain run versus interrupted at every checkpoint + resumed
# ============================================================================================

def real_options(spec):
    L = spec.get('L', 4)
    o = {
        'output_filename': 'data.' + spec['fmt'],
        'model_class': spec.get('model', 'XXZChain'),
        'model_params': dict({'L': L, 'bc_MPS': 'finite', 'sort_charge': True}, **spec.get('model_params', {})),
        'initial_state_params': {'method': 'lat_product_state', 'product_state': [['up'], ['down']]},
        'algorithm_class': spec['alg'],
        'save_every_x_seconds': 0.,
        'connect_measurements': [('tenpy.simulations.measurement', 'm_onsite_expectation_value', {'opname': 'Sz'})],
        'connect_algorithm_checkpoint': [],
    }
    ap = {'trunc_params': {'chi_max': spec.get('chi', 4), 'svd_min': 1.e-12}}
    if spec['sim'] == 'GroundStateSearch':
        ap.update({'max_sweeps': spec.get('max_sweeps', 3), 'min_sweeps': spec.get('max_sweeps', 3) + 10,
                   'N_sweeps_check': spec.get('N_sweeps_check', 1), 'mixer': spec.get('mixer', False),
                   'max_trunc_err': None})
        o['measure_at_algorithm_checkpoints'] = True
        o['connect_measurements'].append(('c18_helpers', 'm_sweeps'))
        if spec.get('mixer', False):
            # while a mixer is active psi has non-diagonal Schmidt values at the algorithm checkpoints (documented for
            # measure_at_algorithm_checkpoints: psi might not be in canonical form): the default measurement m_entropy is
            # not defined there; measure what is: index, bond dimensions, energy, <Sz>
            M = 'tenpy.simulations.measurement'
            o['use_default_measurements'] = False
            o['connect_measurements'] = [(M, 'm_measurement_index', {}, 1), (M, 'm_bond_dimension'), (M, 'm_energy_MPO')] \
                + o['connect_measurements']
    else:
        dt = spec.get('dt', 0.05)
        if isinstance(dt, list):                # complex time step [re, im] (documented: evolved_time float | complex)
            dt = complex(dt[0], dt[1])
        ap.update({'dt': dt, 'N_steps': spec.get('N_steps', 2)})
        if 'start_time' in spec:                # option start_time of TimeEvolutionAlgorithm (absent: its default)
            ap['start_time'] = spec['start_time']
        if 'start_trunc_err' in spec:           # option start_trunc_err, given as [eps, ov]
            from tenpy.algorithms.truncation import TruncationError
            ap['start_trunc_err'] = TruncationError(spec['start_trunc_err'][0], spec['start_trunc_err'][1])
        if spec['alg'] == 'TEBDEngine':
            ap['order'] = spec.get('order', 2)
        o['final_time'] = spec.get('final_time', 0.4)
    if 'chi_list' in spec:                      # option chi_list of Sweep engines, given as [[at_sweep, chi], ...]
        ap['chi_list'] = {int(k): int(v) for k, v in spec['chi_list']}
    ap.update(spec.get('alg_params', {}))
    o['algorithm_params'] = ap
    o.update(spec.get('sim_params', {}))
    return o


def real_summary(res):
    m = res.get('measurements', {})
    s = {'finished': bool(res.get('finished_run')), 'measurements': jsonable({k: m[k] for k in m})}
    if 'energy' in res:
        s['energy'] = float(res['energy'])
    if 'sweep_stats' in res:
        s['n_sweep_stats'] = len(res['sweep_stats']['E'])
    return s


def real_ckpt(res):
    # checkpoint number of a results dictionary = number of measurement records (+1 when finished)
    m = res.get('measurements', {})
    n = len(m['measurement_index']) if 'measurement_index' in m else 0
    return n + (1 if res.get('finished_run') else 0)


def overlap(psi1, psi2):
    """|<1|2>| / sqrt(<1|1><2|2>) by contraction of the tensors (after a truncating group_split the tensors of a
    state are not exactly canonical, so that <psi|psi> computed this way differs from psi.norm**2)."""
    if not hasattr(psi1, 'overlap'):
        return None
    n1, n2 = abs(psi1.overlap(psi1)), abs(psi2.overlap(psi2))
    return float(abs(psi1.overlap(psi2)) / np.sqrt(n1 * n2))


def group_obs():
    return jsonable(H.OBS['group'])


def psi_grouped_in(ck):
    """psi.grouped of the states stored in a checkpoint dictionary: [results['psi'], resume_data['psi']]."""
    out = []
    for holder in (ck, ck.get('resume_data') or {}):
        psi = holder.get('psi') if isinstance(holder, dict) else None
        out.append(None if psi is None else int(getattr(psi, 'grouped', -1)))
    return out


def real_run(p):
    spec = p['spec']
    fmt = spec['fmt']
    SimClass = {'GroundStateSearch': GroundStateSearch, 'RealTimeEvolution': RealTimeEvolution}[spec['sim']]
    opts = real_options(spec)
    d = tempfile.mkdtemp(prefix='c18-', dir=BASE)
    out = {'spec': spec, 'interrupted': []}
    H.instrument()
    clock = H.install_clock(spec['clock']) if spec.get('clock') else None

    def fresh_process():
        H.reset_counter()
        H.reset_obs()
        if clock is not None:
            clock.reset()

    try:
        os.chdir(d)
        if spec.get('min_sweeps_auto'):
            # the stopping criterion decides: find the sweep k at which the uninterrupted run converges (min_sweeps=1), then
            # require min_sweeps = k-1, i.e. the convergence test is consulted for the first time after sweep k, and a
            # checkpoint exists with exactly min_sweeps sweeps done
            o = copy.deepcopy(opts)
            o['algorithm_params']['min_sweeps'] = 1
            fresh_process()
            probe = SimClass(o)
            with probe:
                probe.run()
            k = int(probe.engine.sweeps)
            del probe
            for f in os.listdir(d):
                os.unlink(os.path.join(d, f))
            opts['algorithm_params']['min_sweeps'] = out['min_sweeps'] = max(1, k - 1)
        # ---- plain run, counting checkpoints
        o = copy.deepcopy(opts)
        o['connect_algorithm_checkpoint'] = [('c18_helpers', 'count_checkpoints', {}, -200)]
        fresh_process()
        sim = SimClass(o)
        with sim:
            plain = sim.run()
        n_ckpt = H._counter['n']
        plain_psi = sim.psi
        out['plain'] = real_summary(plain)
        out['plain']['has_psi'] = 'psi' in plain
        out['plain']['psi_grouped'] = int(plain_psi.grouped)
        out['plain']['psi_L'] = int(plain_psi.L)
        out['plain']['group'] = group_obs()
        out['plain']['saves'] = list(H.OBS['saves'])
        out['plain']['sweep_trace'] = jsonable(H.OBS['sweeps'])
        out['plain']['engine_init'] = jsonable(H.OBS['engine_init'])
        out['n_checkpoints'] = n_ckpt
        on_disk = tenpy.tools.hdf5_io.load('data.' + fmt)
        out['plain_file_equal'] = real_summary(on_disk) == real_summary(plain)
        if 'psi' in on_disk:
            out['plain_file_overlap'] = overlap(plain_psi, on_disk['psi'])
        del sim
        modes = p.get('modes', ['listener'])
        which = p.get('checkpoints') or list(range(1, n_ckpt + 1))
        for c in which:
            for mode in modes:
                for f in os.listdir(d):
                    os.unlink(os.path.join(d, f))
                rec = {'at': c, 'mode': mode}
                o = copy.deepcopy(opts)
                fs = None
                if mode == 'listener':
                    # the process is interrupted right after the save_at_checkpoint call of checkpoint c
                    o['connect_algorithm_checkpoint'] = [('c18_helpers', 'interrupt_at_checkpoint', {'at': c}, -200)]
                else:
                    # 'write': the process dies inside the write of the first save at or after checkpoint c
                    # (after half of the bytes); 'rename': it dies right after the rename of that save
                    o['connect_algorithm_checkpoint'] = [('c18_helpers', 'count_checkpoints', {}, 200)]
                fresh_process()
                sim = SimClass(o)
                try:
                    if mode == 'listener':
                        with sim:
                            sim.run()
                        rec['error'] = 'run finished although interrupted at checkpoint %d' % c
                    else:
                        fs = CheckpointCrash(d, names_for(fmt), real_ckpt, c, mode)
                        with fs:
                            with sim:
                                sim.run()
                        rec['error'] = 'run finished although crashed at checkpoint %d' % c
                except (SimulatedInterrupt, SimulatedCrash):
                    pass
                except Exception as e:
                    rec['error'] = 'interrupted run failed: %s: %s | %s' % (type(e).__name__, e, traceback.format_exc()[-800:])
                rec['saves'] = list(H.OBS['saves'])          # record counts at the completed saves of this process
                rec['group_first'] = group_obs()
                del sim
                st, _, extra = disk_state(d, fmt, real_ckpt, fs.partials if fs else {})
                rec['disk'] = st
                ld = choose_load(st)
                rec['loaded'] = ld
                if ld is None or 'error' in rec:
                    out['interrupted'].append(rec)
                    continue
                fn = [f for f, nm in names_for(fmt).items() if nm == ld[0]][0]
                ck = tenpy.tools.hdf5_io.load(fn)
                rec['ckpt_measurements'] = max([len(v) for v in ck.get('measurements', {}).values()] + [0])
                rec['ckpt_psi_grouped'] = psi_grouped_in(ck)
                rec['ckpt_has'] = ['psi' in ck, 'resume_data' in ck]
                rec['ckpt_sweeps'] = jsonable((ck.get('resume_data') or {}).get('sweeps'))
                # the counters stored in the checkpoint (evolved_time, sweeps, trunc_err, entries of sweep_stats)
                rec['ckpt_counters'] = jsonable(H.counters_of(ck['resume_data'])) if isinstance(ck.get('resume_data'), dict) else None
                del ck
                fresh_process()
                try:
                    res = resume_from_checkpoint(filename=fn, update_sim_params={'connect_algorithm_checkpoint': []})
                    rpsi = H.OBS['sim'].psi
                    rec['resumed'] = real_summary(res)
                    rec['resumed']['has_psi'] = 'psi' in res
                    rec['resumed']['psi_grouped'] = int(rpsi.grouped)
                    rec['resumed']['psi_L'] = int(rpsi.L)
                    rec['overlap'] = overlap(plain_psi, rpsi) if rpsi.L == plain_psi.L else None
                    rec['norm_ratio'] = float(rpsi.norm / plain_psi.norm)
                    st2, data2, _ = disk_state(d, fmt, real_ckpt, {})
                    rec['disk_after'] = st2
                    rec['file_equal'] = (data2['out'] is not None and real_summary(data2['out']) == real_summary(res))
                    if data2['out'] is not None and 'psi' in data2['out']:
                        rec['file_overlap'] = overlap(plain_psi, data2['out']['psi'])
                except Exception as e:
                    rec['error'] = 'resume failed: %s: %s | %s' % (type(e).__name__, e, traceback.format_exc()[-800:])
                rec['group_resume'] = group_obs()
                rec['engine_init'] = jsonable(H.OBS['engine_init'])    # counters of the engine re-created from the checkpoint
                rec['sweep_trace'] = jsonable(H.OBS['sweeps'])
                out['interrupted'].append(rec)
    finally:
        os.chdir(ORIG_CWD)
        shutil.rmtree(d, ignore_errors=True)
    return out


# ============================================================================================
# 3b. the grouping guard of Simulation.group_sites_for_algorithm, called directly
# ============================================================================================

def group_guard(p):
    """For each case (L, stack, gs, loaded, to_NN): a simulation object whose psi is a product state already
    grouped by the factors in `stack`, one after the other (the psi of a checkpoint is grouped once), then group_sites_for_algorithm() with the option
    group_sites=gs and loaded_from_checkpoint=loaded, then group_split(); the instrumentation records psi.grouped
    and the lengths of psi and model before / after."""
    from tenpy.networks.mps import MPS
    H.instrument()
    out = []
    for c in p['cases']:
        H.reset_obs()
        r = {'outcome': 'ok'}
        try:
            sim = Simulation.__new__(Simulation)
            sim.loaded_from_checkpoint = bool(c['loaded'])
            o = dummy_options('pkl', True, 1)
            del o['output_filename']
            o['model_params']['L'] = c['L']
            o['group_sites'] = c['gs']
            if c.get('to_NN'):
                o['group_to_NearestNeighborModel'] = True
            o['algorithm_params'] = {'trunc_params': {'chi_max': 4}}
            sim.__init__(o, setup_logging=False)
            sim.init_model()
            psi = MPS.from_lat_product_state(sim.model.lat, [['up'], ['down']], allow_incommensurate=True)
            for n in c['stack']:
                psi.group_sites(n)
            sim.psi = psi
            try:
                sim.group_sites_for_algorithm()
                r['model_class'] = type(sim.model).__name__
                r['has_ungrouped'] = hasattr(sim, 'model_ungrouped')
                sim.group_split()
            except Exception as e:
                r['outcome'] = 'raise: %s: %s' % (type(e).__name__, str(e)[:200])
        except Exception as e:
            r['outcome'] = 'error: %s: %s | %s' % (type(e).__name__, e, traceback.format_exc()[-600:])
        r['group'] = group_obs()
        out.append(r)
    return out


# ============================================================================================
# 3c. the documented resume protocol of an engine, called directly (no Simulation):
#     rd = eng.get_resume_data();  eng2 = AlgorithmClass(psi, model, options, resume_data=rd);  eng2.resume_run()
# ============================================================================================

def engine_restore(p):
    """For each case: an engine with the drawn options is run `runs` times (0: not at all - resume data of a fresh engine:
    sweeps 0, empty sweep_stats, evolved_time == start_time, trunc_err == start_trunc_err), its get_resume_data() is written to
    a file (pickle / HDF5) and loaded, a second engine is created from it with the same options; the counters of the second
    engine, and the results of one more run() of the first / resume_run() of the second engine are returned."""
    from tenpy.algorithms.algorithm import Algorithm
    from tenpy.models.xxz_chain import XXZChain
    from tenpy.networks.mps import MPS
    from tenpy.tools.misc import find_subclass
    import tenpy.algorithms  # noqa: F401
    out = []
    d = tempfile.mkdtemp(prefix='c18-', dir=BASE)
    try:
        for c in p['cases']:
            r = {'outcome': 'ok'}
            try:
                is_te = c['sim'] == 'RealTimeEvolution'
                ap = real_options(c)['algorithm_params']
                M = XXZChain({'L': c['L'], 'bc_MPS': 'finite', 'sort_charge': True})
                psi = MPS.from_lat_product_state(M.lat, [['up'], ['down']])
                Alg = find_subclass(Algorithm, c['alg'])
                eng = Alg(psi, M, copy.deepcopy(ap))
                r['fresh'] = jsonable(H.counters_of(eng))
                for _ in range(c['runs']):
                    eng.run()
                rd = eng.get_resume_data()
                fn = os.path.join(d, 'rd.' + c['fmt'])
                tenpy.tools.hdf5_io.save({'resume_data': rd}, fn)
                rd2 = tenpy.tools.hdf5_io.load(fn)['resume_data']
                os.unlink(fn)
                r['saved'] = jsonable(H.counters_of(rd2))
                r['engine_at_save'] = jsonable(H.counters_of(eng))
                eng2 = Alg(rd2['psi'], M, copy.deepcopy(ap), resume_data=rd2)
                r['restored'] = jsonable(H.counters_of(eng2))
                eng.run()
                eng2.resume_run()
                r['after'] = [jsonable(H.counters_of(eng)), jsonable(H.counters_of(eng2))]
                r['overlap'] = overlap(eng.psi, eng2.psi)
                r['norm_ratio'] = float(eng2.psi.norm / eng.psi.norm)
                if not is_te:
                    r['energies'] = [float(eng.sweep_stats['E'][-1]), float(eng2.sweep_stats['E'][-1])]
            except Exception as e:
                r['outcome'] = 'error: %s: %s | %s' % (type(e).__name__, e, traceback.format_exc()[-600:])
            out.append(r)
    finally:
        shutil.rmtree(d, ignore_errors=True)
    return out


class CheckpointCrash(FaultFS):
    """Crash inside the write ('write': half of the bytes) or right after the rename ('rename') of the
    first save performed at or after the c-th checkpoint (with save_every_x_seconds=0 that is the save at
    checkpoint c; otherwise a later checkpoint or the final save)."""

    def __init__(self, directory, names, ckpt_of, c, mode):
        super().__init__(directory, names, ckpt_of, None, 0.5)
        self.c, self.mode = c, mode

    def _step(self, op):
        if not self.crashed and H._counter['n'] >= self.c:
            if (self.mode == 'write' and op[0] == 'W') or (self.mode == 'rename' and op[0] == 'W'):
                self.crashed = True
                if self.mode == 'rename':
                    self.partial = None
                return True
        self.ops.append(op)
        return False


def main():
    payload = json.load(open(sys.argv[1]))
    kind = payload['kind']
    try:
        if kind == 'fs_enum':
            res = fs_enum(payload)
        elif kind == 'fs_single':
            res = fs_single(payload)
        elif kind == 'save_direct':
            res = save_direct(payload)
        elif kind == 'fix_names':
            res = fix_names(payload)
        elif kind == 'real':
            res = real_run(payload)
        elif kind == 'group_guard':
            res = group_guard(payload)
        elif kind == 'engine_restore':
            res = engine_restore(payload)
        else:
            raise ValueError(kind)
    except Exception:
        res = {'runner_error': traceback.format_exc()[-3000:]}
    with open(sys.argv[2], 'w') as f:
        json.dump(jsonable(res), f)


if __name__ == '__main__':
    main()
