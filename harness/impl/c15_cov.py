"""C15 helper (implementation side): branch / call coverage of tenpy/linalg/truncation.py inside the runner process.

Uses sys.monitoring (Python >= 3.12) restricted to the code objects of the anchored module (local events), so the rest of
tenpy runs at full speed.  Reported, for the process:

  names     every function defined in the module and every public attribute of the classes defined there (including
            inherited methods and the dunder methods defined in the class body), found by reflection, with the number of
            calls (PY_START events of its code object)
  branches  every conditional jump instruction (POP_JUMP_IF_*, FOR_ITER) of those code objects, identified by
            (qualified function name, source text of the tested expression, opcode, running number), with the number of
            times it jumped and fell through

Nothing here changes the behaviour of the monitored code."""
import dis
import inspect
import sys
import types

TOOL = 3          # a free tool id (0 debugger, 1 coverage, 2 profiler are reserved by convention)
_state = {}


def _code_objects(code):
    yield code
    for c in code.co_consts:
        if isinstance(c, types.CodeType):
            yield from _code_objects(c)


def _segment(lines, pos):
    l0, l1, c0, c1 = pos
    if l0 is None or l1 is None or c0 is None or c1 is None:
        return '?'
    if l0 == l1:
        return lines[l0 - 1][c0:c1]
    seg = [lines[l0 - 1][c0:]] + [x.strip() for x in lines[l0:l1 - 1]] + [lines[l1 - 1][:c1].strip()]
    return ' '.join(seg)


def install():
    """start monitoring tenpy.linalg.truncation; returns False when sys.monitoring is not available"""
    if not hasattr(sys, 'monitoring'):
        return False
    from tenpy.linalg import truncation as mod
    mon = sys.monitoring
    try:
        mon.use_tool_id(TOOL, 'c15cov')
    except ValueError:
        return False
    src = inspect.getsource(mod).splitlines()
    names = {}            # public name -> code object
    for n, f in vars(mod).items():
        if inspect.isfunction(f) and f.__module__ == mod.__name__:
            names[n] = f.__code__
        elif inspect.isclass(f) and f.__module__ == mod.__name__:
            for a in dir(f):
                if a.startswith('_') and a not in vars(f):
                    continue
                if a in ('__module__', '__doc__', '__dict__', '__weakref__', '__qualname__', '__firstlineno__',
                         '__static_attributes__'):
                    continue
                obj = inspect.getattr_static(f, a)
                fn = obj.fget if isinstance(obj, property) else getattr(obj, '__func__', obj)
                if inspect.isfunction(fn):
                    names[n + '.' + a] = fn.__code__
                else:
                    names[n + '.' + a] = None          # plain attribute
    calls = {}
    code_name = {}
    branches = {}         # (code, offset) -> [key, jumps, falls, offset of the next instruction]
    for n, code in names.items():
        if code is None:
            continue
        own = code.co_filename == mod.__file__
        for c in (_code_objects(code) if own else [code]):
            qn = n if c is code else n + '.<' + c.co_name + '>'
            code_name[c] = qn
            calls.setdefault(qn, 0)
            ev = mon.events.PY_START
            if own:
                ev |= mon.events.BRANCH
                seen = {}
                instrs = list(dis.get_instructions(c))
                for ii, ins in enumerate(instrs):
                    if ins.opname.startswith('POP_JUMP') or ins.opname == 'FOR_ITER':
                        p = ins.positions
                        seg = _segment(src, (p.lineno, p.end_lineno, p.col_offset, p.end_col_offset))
                        if ins.opname == 'FOR_ITER' and p.lineno != p.end_lineno:
                            seg = src[p.lineno - 1][p.col_offset:].strip()          # the header line of the loop
                        k = (qn, seg, ins.opname)
                        seen[k] = seen.get(k, 0) + 1
                        branches[(c, ins.offset)] = [[qn, seg, ins.opname, seen[k], p.lineno], 0, 0, instrs[ii + 1].offset]
            mon.set_local_events(TOOL, c, ev)

    def on_start(code, offset):
        qn = code_name.get(code)
        if qn is not None:
            calls[qn] += 1

    def on_branch(code, offset, dest):
        b = branches.get((code, offset))
        if b is not None:
            if dest == b[3]:          # the next instruction: fell through (FOR_ITER: entered the loop body)
                b[2] += 1
            else:
                b[1] += 1

    mon.register_callback(TOOL, mon.events.PY_START, on_start)
    mon.register_callback(TOOL, mon.events.BRANCH, on_branch)
    # documented parameters: signatures by reflection, options by the `options.get('name', default, ...)` calls in the source
    import ast
    sigs = {}
    for n, code in names.items():
        if code is None or code.co_filename != mod.__file__:
            continue
        obj = mod
        for part in n.split('.'):
            obj = inspect.getattr_static(obj, part)
        fn = obj.fget if isinstance(obj, property) else getattr(obj, '__func__', obj)
        sigs[n] = [[p.name, None if p.default is inspect.Parameter.empty else repr(p.default)]
                   for p in inspect.signature(fn).parameters.values()]
    options = {}
    for node in ast.walk(ast.parse(inspect.getsource(mod))):
        if isinstance(node, (ast.FunctionDef,)):
            for sub in ast.walk(node):
                if (isinstance(sub, ast.Call) and isinstance(sub.func, ast.Attribute) and sub.func.attr == 'get'
                        and isinstance(sub.func.value, ast.Name) and sub.func.value.id == 'options' and sub.args
                        and isinstance(sub.args[0], ast.Constant) and isinstance(sub.args[0].value, str)):
                    options.setdefault(node.name, []).append(
                        [sub.args[0].value, ast.unparse(sub.args[1]) if len(sub.args) > 1 else None])
    _state.update(calls=calls, branches=branches, names=names, sigs=sigs, options=options)
    return True


def report():
    if not _state:
        return None
    return {'names': {n: (_state['calls'].get(n, 0) if c is not None else None) for n, c in _state['names'].items()},
            'nested': {n: k for n, k in _state['calls'].items() if n not in _state['names']},
            'branches': [[b[0], b[1], b[2]] for b in _state['branches'].values()],
            'signatures': _state['sigs'], 'options': _state['options']}
