"""Runs tenpy.tools.cache / thread / events on the cases of harness/c20.py (fresh interpreter).

kinds:  'events'  connect/disconnect/emit sequences on an EventHandler
        'cache'   operation sequences on CacheFile.open(...) incl. sub-caches, closing, real scheduler
        'fstore'  load/save/delete/preload/subcontainer/close on a tree of PickleStorage containers (no thread)
        'sched'   ThreadedStorage + Worker with the worker schedule enforced from here: the disk
                  storage's load/save/delete are wrapped in gates, the queue is an instrumented
                  queue.Queue subclass that only *reports* (never changes) blocking of put/join.
Every case runs under a deadline (deadlock detector); a case that does not finish is reported as
{'hang': ...}.  The process ends with os._exit so that a stuck non-daemon worker cannot hang us.
"""
import json
import logging
import os
import queue
import shutil
import sys
import tempfile
import threading
import time
import traceback
import warnings

warnings.simplefilter('ignore')
logging.disable(logging.CRITICAL)

DEADLINE = 5.0


# ---------------------------------------------------------------------------------------
# events
# ---------------------------------------------------------------------------------------

def run_events(case):
    from tenpy.tools.events import EventHandler
    eh = EventHandler('x')
    calls = []
    out = []
    originals = []   # (handler, ids at the time of the copy)

    def mk(tag, ret):
        def cb(x, extra=0):
            calls.append([tag, x, extra])
            return ret
        return cb
    ntag = 0
    for op in case['ops']:
        kind = op[0]
        del calls[:]
        with warnings.catch_warnings(record=True) as w:
            warnings.simplefilter('always')
            try:
                if kind == 'connect':
                    _, prio, ret, how = op
                    cb = mk(ntag, ret)
                    if how == 'direct':
                        r = eh.connect(cb, prio)
                        assert r is cb
                    elif how == 'kwargs':
                        r = eh.connect(cb, priority=prio, extra_kwargs={'extra': 7})
                        assert r is cb
                    else:   # decorator form
                        r = eh.connect(priority=prio)(cb)
                        assert r is cb
                    ntag += 1
                    o = ['connected', eh.id_of_last_connected]
                elif kind == 'disconnect':
                    eh.disconnect(op[1])
                    o = ['disconnected']
                elif kind == 'emit':
                    res = eh.emit(op[1])
                    o = ['emit', [c[0] for c in calls], res, [c[1] for c in calls], [c[2] for c in calls]]
                elif kind == 'emit_until':
                    res = eh.emit_until_result(op[1])
                    o = ['emit_until', [c[0] for c in calls], res]
                elif kind == 'copy':
                    originals.append((eh, [l.listener_id for l in eh.listeners], eh._id_counter))
                    eh = eh.copy()
                    o = ['copied']
                else:
                    raise ValueError(kind)
            except Exception as e:
                o = ['exc', type(e).__name__, str(e)[:100]]
        o.append({'warned': len(w) > 0, 'ids': [l.listener_id for l in eh.listeners],
                  'prios': [l.priority for l in eh.listeners]})
        out.append(o)
    orig_ok = all([l.listener_id for l in h.listeners] == ids and h._id_counter == cnt for (h, ids, cnt) in originals)
    return {'out': out, 'originals_untouched': orig_ok}


# ---------------------------------------------------------------------------------------
# cache, real scheduler
# ---------------------------------------------------------------------------------------

def key(k):
    return 'k%d' % k


def enc(v):
    """The value stored for the integer code v.  Codes below 1000 are stored as the plain integer; a code
    1000*t + n (t = 1..5) is stored as a value of another Python type (list, dict, numpy array, str, tuple with
    None), so that overwriting a key also changes the type of what is stored under it (an HDF5 dataset becomes a
    group and vice versa, ...).  canon() maps the value read back to the code again, or to its repr when it is not
    exactly what enc() produced."""
    t = v // 1000 if isinstance(v, int) else 0
    if t == 1:
        return [v, 'x']
    if t == 2:
        return {'v': v, 'w': [v]}
    if t == 3:
        import numpy as np
        return np.arange(3) + v
    if t == 4:
        return 's%d' % v
    if t == 5:
        return (v, None)
    if v in FALSY:           # values that are false in a boolean context (exact codes 6000, 7000, 8000, 9000)
        return FALSY[v]()
    return v


FALSY = {6000: int, 7000: list, 8000: str, 9000: dict}


def _same_value(a, b):
    import numpy as np
    if type(a) is not type(b):
        return False
    if isinstance(a, np.ndarray):
        return a.dtype == b.dtype and a.shape == b.shape and bool((a == b).all())
    if isinstance(a, (list, tuple)):
        return len(a) == len(b) and all(_same_value(x, y) for x, y in zip(a, b))
    if isinstance(a, dict):
        return sorted(a) == sorted(b) and all(_same_value(a[k], b[k]) for k in a)
    return a == b


def canon(v):
    code = None
    for c, t in FALSY.items():
        if type(v) is t and v == t():
            return c
    try:
        if isinstance(v, list):
            code = v[0]
        elif isinstance(v, dict):
            code = v['v']
        elif isinstance(v, tuple):
            code = v[0]
        elif isinstance(v, str):
            code = int(v[1:])
        elif hasattr(v, 'shape') and getattr(v, 'ndim', 0) == 1:
            code = int(v[0])
        if code is not None:
            code = int(code)
            return code if code >= 1000 and _same_value(enc(code), v) else repr(v)
        return int(v)
    except Exception:
        return repr(v)


_MISSING = object()


def cache_op(caches, op):
    """Apply one operation; returns the canonical output (a JSON list)."""
    kind, ci = op[0], op[1]
    c = caches[ci]
    try:
        if kind == 'set':
            c[key(op[2])] = enc(op[3])
            return ['none']
        if kind == 'getitem':
            return ['val', canon(c[key(op[2])])]
        if kind == 'get':
            if len(op) > 3 and op[3] == 'nodefault':      # default=None (no stored value is None)
                r = c.get(key(op[2]))
                return ['absent'] if r is None else ['val', canon(r)]
            if len(op) > 3 and op[3] == 'kw':
                r = c.get(key(op[2]), default=_MISSING)
                return ['absent'] if r is _MISSING else ['val', canon(r)]
            r = c.get(key(op[2]), _MISSING)
            return ['absent'] if r is _MISSING else ['val', canon(r)]
        if kind == 'del':
            del c[key(op[2])]
            return ['none']
        if kind == 'pop':
            if len(op) > 3 and op[3] == 'nodefault':
                return ['val', canon(c.pop(key(op[2])))]
            r = c.pop(key(op[2]), _MISSING)
            return ['absent'] if r is _MISSING else ['val', canon(r)]
        if kind == 'setdefault':
            return ['val', canon(c.setdefault(key(op[2]), enc(op[3])))]
        if kind == 'update':
            how = op[3] if len(op) > 3 else 'dict'
            if how == 'pairs':
                c.update([(key(k), enc(v)) for k, v in op[2]])
            elif how == 'kw':
                c.update(**{key(k): enc(v) for k, v in op[2]})
            elif how == 'both':
                c.update({key(k): enc(v) for k, v in op[2][:1]}, **{key(k): enc(v) for k, v in op[2][1:]})
            else:
                c.update({key(k): enc(v) for k, v in op[2]})
            return ['none']
        if kind == 'clear':
            c.clear()
            return ['none']
        if kind == 'contains':
            return ['bool', key(op[2]) in c]
        if kind == 'preload':
            c.preload(*[key(k) for k in op[2]], raise_missing=op[3])
            return ['none']
        if kind == 'short':
            c.set_short_term_keys(*[key(k) for k in op[2]])
            return ['none']
        if kind == 'keys':
            ks = sorted(int(k[1:]) for k in c.keys())
            assert len(c) == len(ks) and sorted(int(k[1:]) for k in iter(c)) == ks
            return ['keys', ks]
        if kind == 'items':             # every (key, value) through the Mapping mixins items() / values()
            its = sorted(([int(k[1:]), canon(v)] for k, v in c.items()), key=lambda kv: kv[0])
            vals = sorted((canon(v) for v in c.values()), key=str)
            if vals != sorted((v for _, v in its), key=str):
                return ['items-values-differ', its, vals]
            return ['items', its]
        if kind == 'popitem':
            k, v = c.popitem()
            return ['item', int(k[1:]), canon(v)]
        if kind == 'len':
            return ['len', len(c), len(list(iter(c))), len(c.keys())]
        if kind == 'bool':
            return ['bool', bool(c)]
        if kind == 'sub':
            caches.append(c.create_subcache(op[2]))
            return ['none']
        if kind == 's_load':            # directly on the (Threaded)Storage underneath
            return ['val', canon(c.long_term_storage.load(key(op[2])))]
        if kind == 's_preload':
            c.long_term_storage.preload(key(op[2]))
            return ['none']
        if kind == 's_save':
            c.long_term_storage.save(key(op[2]), enc(op[3]))
            return ['none']
        if kind == 's_delete':
            c.long_term_storage.delete(key(op[2]))
            return ['none']
        if kind == 'close':
            c.close()
            return ['none']
        if kind == 's_close':           # ThreadedStorage.close() directly
            c.long_term_storage.close()
            return ['none']
        if kind == 'exit':              # end of a `with` block
            c.__exit__(None, None, None)
            return ['none']
        raise ValueError('unknown op %r' % (op,))
    except Exception as e:
        return ['exc', type(e).__name__, str(e)[:80]]


def open_cache(case, tmp):
    from tenpy.tools.cache import CacheFile
    kw = {}
    if case['storage'] != 'Storage':
        kw['tmpdir'] = tmp
    return CacheFile.open(storage_class=case['storage'], use_threading=case.get('threading', False),
                          max_queue_size=case.get('max_queue_size', 2), **kw)


def inject(case, cache):
    """Optional: disturb the disk storage (slow it down / make its n-th load fail)."""
    st = cache.long_term_storage
    disk = getattr(st, 'disk_storage', None)
    if disk is None:
        return
    jit = case.get('jitter')
    if jit:
        import random
        rng = random.Random(jit)
        for name in ('load', 'save', 'delete'):
            def wrap(f):
                def g(*a, **k):
                    if rng.random() < 0.5:
                        time.sleep(rng.choice([0, 0.0002, 0.001, 0.003]))
                    return f(*a, **k)
                return g
            setattr(disk, name, wrap(getattr(disk, name)))
    fail = case.get('fail')
    if fail:
        orig = getattr(disk, fail['op'])
        cnt = [0]

        def failing(*a, **k):
            if a and a[0] == key(fail['key']):
                cnt[0] += 1
                if cnt[0] > fail['after']:
                    raise RuntimeError('injected failure of the disk storage')
            return orig(*a, **k)
        setattr(disk, fail['op'], failing)


def run_cache_body(case, res):
    tmp = tempfile.mkdtemp(prefix='c20_', dir=os.environ.get('C20_TMP'))
    res['tmp'] = tmp
    cache = open_cache(case, tmp)
    caches = [cache]
    closed = False
    try:
        inject(case, cache)
        for op in case['ops']:
            o = cache_op(caches, op)
            res['out'].append(o)
            if op[0] == 'close' and o == ['none']:
                closed = True
    finally:
        t0 = time.time()
        if not closed:
            try:
                cache.close()
                res['final_close'] = 'ok'
            except Exception as e:
                res['final_close'] = type(e).__name__
        res['close_s'] = time.time() - t0
        w = getattr(cache.long_term_storage, 'worker', None)
        if w is not None:
            res['worker_alive_after_close'] = w.worker_thread.is_alive()
        res['leftover'] = sorted(os.listdir(tmp))
        import c20cov_impl
        res['open_fds'] = c20cov_impl._open_fds(tmp)
        shutil.rmtree(tmp, ignore_errors=True)
    res['done'] = True


def run_with_deadline(body, case, deadline):
    res = {'out': []}

    def target():
        try:
            body(case, res)
        except Exception:
            res['runner_error'] = traceback.format_exc()[-1200:]
    th = threading.Thread(target=target, daemon=True)
    th.start()
    th.join(deadline)
    if th.is_alive():
        res['hang'] = 'case did not finish within %.1fs after %d outputs' % (deadline, len(res['out']))
        res = dict(res)     # snapshot
        res['out'] = list(res['out'])
    return res


# ---------------------------------------------------------------------------------------
# cache with threads, schedule enforced by gates
# ---------------------------------------------------------------------------------------

class ReportingQueue(queue.Queue):
    """queue.Queue that counts what the two threads do with it.  The counters change together with the
    queue content under the queue's own mutex (_put/_get hooks), so that the controller can tell
    "blocked" from "about to continue" without a race.  Behaviour is unchanged except for a shorter
    polling time-out of Worker.run (faster shutdown)."""

    def __init__(self, maxsize, ctl):
        super().__init__(maxsize)
        self.ctl = ctl
        self.n_put = 0          # items inserted
        self.n_got = 0          # items removed
        self.n_done = 0         # task_done() calls
        self.attempts = 0       # put() calls started (and not timed out)
        self.in_join = False

    def _put(self, item):       # called by Queue.put with self.mutex held
        super()._put(item)
        self.n_put += 1

    def _get(self):             # called by Queue.get with self.mutex held
        item = super()._get()
        self.n_got += 1
        return item

    def put(self, item, block=True, timeout=None):
        with self.mutex:
            self.attempts += 1
        try:
            return super().put(item, block, timeout)
        except queue.Full:
            with self.mutex:
                self.attempts -= 1
            raise

    def join(self):
        self.in_join = True
        try:
            return super().join()
        finally:
            self.in_join = False

    def get(self, block=True, timeout=None):
        return super().get(block, 0.02 if timeout else timeout)

    def task_done(self):
        super().task_done()
        with self.mutex:
            self.n_done += 1

    def snapshot(self):
        with self.mutex:
            n = len(self.queue)
            return {'len': n, 'full': 0 < self.maxsize <= n, 'put': self.n_put, 'got': self.n_got, 'done': self.n_done,
                    'putting': self.attempts > self.n_put, 'joining': self.in_join, 'unfinished': self.unfinished_tasks}


class Control:
    def __init__(self):
        self.cv = threading.Condition()
        self.n_arrived = 0      # worker tasks that reached their gate
        self.n_released = 0     # gates opened by the controller
        self.caller = 'idle'    # idle | running | done
        self.permits = 0
        self.tasks_seen = []    # [kind, key] in the order the worker starts them
        self.worker_dead = False
        self.in_close_join = False   # the caller sits in worker_thread.join() (Worker.__exit__, i.e. close())


def gate_disk(disk, ctl, fail, patience=DEADLINE):
    for name in ('load', 'save', 'delete'):
        def wrap(f, name=name):
            def g(*a, **k):
                with ctl.cv:
                    idx = ctl.n_arrived
                    ctl.n_arrived += 1
                    ctl.tasks_seen.append([name, a[0] if a else None])
                    ctl.cv.notify_all()
                    t_end = time.time() + 8 * patience
                    while ctl.n_released <= idx:
                        ctl.cv.wait(0.05)
                        if time.time() > t_end:
                            raise RuntimeError('gate never opened')
                if fail is not None and fail == idx:
                    raise RuntimeError('injected failure of the disk storage')
                return f(*a, **k)
            return g
        setattr(disk, name, wrap(getattr(disk, name)))


def run_sched_body(case, res):
    from tenpy.tools.cache import CacheFile, ThreadedStorage, Storage
    from tenpy.tools.misc import find_subclass
    from tenpy.tools.thread import Worker
    tmp = tempfile.mkdtemp(prefix='c20s_', dir=os.environ.get('C20_TMP'))
    ctl = Control()
    disk = find_subclass(Storage, case['storage']).open(tmpdir=tmp)
    gate_disk(disk, ctl, case.get('fail_task'), case.get('settle_deadline', DEADLINE))
    worker = Worker(max_queue_size=case['max_queue_size'])
    worker.tasks = ReportingQueue(case['max_queue_size'], ctl)
    worker.__enter__()
    thread_join = worker.worker_thread.join

    def reporting_join(timeout=None):      # only reports that the caller waits for the thread to end
        ctl.in_close_join = True
        try:
            return thread_join(timeout)
        finally:
            ctl.in_close_join = False
    worker.worker_thread.join = reporting_join
    storage = ThreadedStorage(worker, disk)
    storage._owns_resources = True
    cache = CacheFile(storage)
    caches = [cache]
    trace = res['trace'] = []
    outs = res['out']
    ops = case['ops']
    state = {'next': 0, 'stuck': None}

    def caller():
        for i, op in enumerate(ops):
            with ctl.cv:
                while ctl.permits == 0:
                    ctl.cv.wait(0.05)
                    if state['stuck']:
                        return
                ctl.permits -= 1
                ctl.caller = 'running'
                ctl.cv.notify_all()
            o = cache_op(caches, op)
            if op[0] == 'sub' and o == ['none']:
                gate_sub = caches[-1].long_term_storage.disk_storage
                gate_disk(gate_sub, ctl, case.get('fail_task'), case.get('settle_deadline', DEADLINE))
            with ctl.cv:
                outs.append(o)
                ctl.caller = 'idle' if i + 1 < len(ops) else 'done'
                ctl.cv.notify_all()
    if not ops:
        ctl.caller = 'done'
    cth = threading.Thread(target=caller, daemon=True)
    cth.start()
    q = worker.tasks
    fail_task = case.get('fail_task')

    def worker_settled(sn):
        if not worker.worker_thread.is_alive():
            return True
        if fail_task is not None and ctl.n_released > fail_task:
            return False        # the failing task was started: settled only once the thread is gone
        if ctl.n_arrived > ctl.n_released:
            return True         # waits at a gate
        if worker.exit.is_set():
            return False        # close() was called or a task raised: settled only once the thread is gone
        # idle: everything that was put has been taken and finished, nothing is on its way to a gate
        return sn['len'] == 0 and sn['got'] == sn['put'] and sn['done'] == sn['got'] and ctl.n_arrived == ctl.n_released

    def caller_settled(sn):
        if ctl.permits > 0:
            return False
        if ctl.caller in ('idle', 'done'):
            return True
        if ctl.in_close_join:   # close(): blocked as long as the worker waits at a gate
            return worker.worker_thread.is_alive() and ctl.n_arrived > ctl.n_released
        if not worker.worker_thread.is_alive() or worker.exit.is_set():
            return False        # every blocking call must raise now
        if sn['putting'] and sn['full']:
            return True
        if sn['joining'] and sn['unfinished'] > 0:
            return True
        return False

    def settle():
        t_end = time.time() + case.get('settle_deadline', DEADLINE)
        with ctl.cv:
            stable = 0
            while True:
                sn = q.snapshot()
                if worker_settled(sn) and caller_settled(sn):
                    stable += 1
                    if stable >= 2:
                        return True
                else:
                    stable = 0
                if time.time() > t_end:
                    return False
                ctl.cv.wait(0.0005)

    def blocked_kind():
        if ctl.in_close_join:
            return 'close'
        sn = q.snapshot()
        return 'put' if sn['putting'] else ('join' if sn['joining'] else '?')

    def step(tok):
        """returns the trace entry of one schedule token"""
        if tok == 'C':
            if ctl.caller == 'done':
                return ['C', 'finished']
            n0 = len(outs)
            if ctl.caller == 'running':
                return ['C', 'still-blocked', blocked_kind()]
            with ctl.cv:
                ctl.permits += 1
                ctl.cv.notify_all()
            if not settle():
                state['stuck'] = 'caller op %r neither finished nor blocked in put/join' % (ops[n0],)
                return ['C', 'stuck']
            if len(outs) > n0:
                return ['C', 'done', outs[n0]]
            return ['C', 'blocked', blocked_kind()]
        else:
            if ctl.n_arrived <= ctl.n_released:
                return ['W', 'idle']
            n0 = len(outs)
            was_running = ctl.caller == 'running'
            with ctl.cv:
                t = ctl.tasks_seen[ctl.n_released]
                ctl.n_released += 1
                ctl.cv.notify_all()
            if not settle():
                state['stuck'] = 'system did not settle after worker task %r' % (t,)
                return ['W', 'stuck']
            e = ['W', 'ran', t[0], int(t[1][1:])]
            if was_running and len(outs) > n0:
                e += ['unblocked', outs[n0]]
            elif was_running:
                e += ['blocked', blocked_kind()]
            return e

    try:
        if not settle():
            state['stuck'] = 'initial settle'
        for tok in case['schedule']:
            if state['stuck']:
                break
            trace.append(step(tok))
        # drain: let everything finish (caller first, worker when the caller cannot move)
        guard = 0
        while not state['stuck'] and guard < 10 * (len(ops) + 5):
            guard += 1
            if ctl.caller == 'done' and ctl.n_arrived <= ctl.n_released:
                break
            if ctl.caller == 'idle':
                trace.append(step('C'))
            elif ctl.n_arrived > ctl.n_released:
                trace.append(step('W'))
            elif ctl.caller == 'running':
                state['stuck'] = 'caller blocked in %s with an idle worker' % blocked_kind()
            else:
                break
        if state['stuck']:
            res['hang'] = state['stuck']
        res['loaded_end'] = sorted(int(k[1:]) for k in storage._loaded)
        res['waiting_end'] = sorted(int(k[1:]) for k in storage._waiting_for_load)
        res['worker_alive_end'] = worker.worker_thread.is_alive()
        res['opened_end'] = bool(storage._opened)
        res['disk_opened_end'] = bool(disk._opened)
        res['exit_set_end'] = worker.exit.is_set()
        res['dir_exists_end'] = os.path.isdir(str(disk.directory)) if hasattr(disk, 'directory') else None
        if res['dir_exists_end']:       # content of the disk, read from outside (not through the gated load)
            import pickle
            content = []
            for fn in sorted(os.listdir(str(disk.directory))):
                if fn.startswith('k') and fn.endswith('.pkl'):
                    with open(os.path.join(str(disk.directory), fn), 'rb') as f:
                        content.append([int(fn[1:-4]), canon(pickle.load(f))])
                else:
                    content.append([-1, fn])
            res['disk_end'] = sorted(content, key=lambda x: x[0])
        else:
            res['disk_end'] = []
    finally:
        with ctl.cv:      # open every gate so that nothing stays blocked
            ctl.n_released += 10 ** 6
            ctl.cv.notify_all()
        t0 = time.time()
        try:
            cache.close()
            res['final_close'] = 'ok'
        except Exception as e:
            res['final_close'] = type(e).__name__
        res['close_s'] = time.time() - t0
        res['worker_alive_after_close'] = worker.worker_thread.is_alive()
        res['leftover'] = sorted(os.listdir(tmp))
        shutil.rmtree(tmp, ignore_errors=True)
    res['done'] = True


# ---------------------------------------------------------------------------------------
# file-backed storage with sub-containers, no thread
# ---------------------------------------------------------------------------------------

def run_fstore(case):
    """ops: [kind, path, ...] on a PickleStorage tree; path = list of sub-container numbers from the top"""
    import pickle
    from tenpy.tools.cache import Storage
    from tenpy.tools.misc import find_subclass
    tmp = tempfile.mkdtemp(prefix='c20f_', dir=os.environ.get('C20_TMP'))
    res = {'out': []}
    try:
        cls = find_subclass(Storage, case['storage'])
        root = cls.open() if case['storage'] == 'Storage' else cls.open(tmpdir=tmp)
        conts = [((), root)]
        byp = {(): root}
        for op in case['ops']:
            kind, path = op[0], tuple(op[1])
            c = byp[path]
            try:
                if kind == 'load':
                    o = ['val', canon(c.load(key(op[2])))]
                elif kind == 'save':
                    c.save(key(op[2]), enc(op[3]))
                    o = ['none']
                elif kind == 'delete':
                    c.delete(key(op[2]))
                    o = ['none']
                elif kind == 'preload':
                    c.preload(key(op[2]))
                    o = ['none']
                elif kind == 'sub':
                    sub = c.subcontainer('s%d' % op[2])
                    byp[path + (op[2],)] = sub
                    conts.append((path + (op[2],), sub))
                    o = ['none']
                elif kind == 'close':
                    c.close()
                    o = ['none']
                elif kind == 'exit':
                    o = ['none'] if not c.__exit__(None, None, None) else ['truthy']
                elif kind == 'with':
                    with c as c2:
                        same = c2 is c
                    o = ['none'] if same else ['enter-returned-other']
                elif kind == 'bool':
                    o = ['bool', bool(c)]
                elif kind == 'repr':
                    o = ['repr', 'closed' in repr(c), type(c).__name__ in repr(c)]
                else:
                    raise RuntimeError('unknown op %r' % (op,))
            except Exception as e:
                o = ['exc', type(e).__name__, str(e)[:80]]
            res['out'].append(o)
        final = []
        for path, c in conts:
            files = []
            if case['storage'] == 'Storage':            # in memory: the dict itself
                files = [[int(k[1:]), canon(v)] for k, v in c.data.items()]
            elif case['storage'] == 'Hdf5Storage':      # read through the group while the file is open
                if c.h5gr:
                    from tenpy.tools.hdf5_io import load_from_hdf5
                    files = [[int(k[1:]), canon(load_from_hdf5(c.h5gr, k))] for k in c.h5gr.keys() if k[0] == 'k']
            else:
                d = str(c.directory)
                if os.path.isdir(d):
                    for fn in sorted(os.listdir(d)):
                        if fn.endswith('.pkl'):
                            with open(os.path.join(d, fn), 'rb') as f:
                                files.append([int(fn[1:-4]), canon(pickle.load(f))])
            final.append([list(path), bool(c._opened), sorted(files, key=lambda x: x[0])])
        res['final'] = final
        try:
            root.close()
            res['final_close'] = 'ok'
        except Exception as e:
            res['final_close'] = type(e).__name__
        res['leftover'] = sorted(os.listdir(tmp))
        import c20cov_impl
        res['open_fds'] = c20cov_impl._open_fds(tmp)
        res['done'] = True
    finally:
        shutil.rmtree(tmp, ignore_errors=True)
    return res


# ---------------------------------------------------------------------------------------

def main():
    payload = json.load(open(sys.argv[1]))
    kind = payload['kind']
    cases = payload['cases']
    # import everything before any deadline starts to run (imports are slow on a busy machine)
    import tenpy.tools.cache, tenpy.tools.thread, tenpy.tools.events, tenpy.tools.misc  # noqa: F401,E401
    try:
        import h5py  # noqa: F401
    except Exception:
        pass
    res = [None] * len(cases)
    import c20cov_impl
    if payload.get('cov', True):
        try:
            c20cov_impl.cov_start()
        except Exception:
            pass
    if kind == 'evapi':
        for i, c in enumerate(cases):
            try:
                res[i] = c20cov_impl.run_evapi(c)
            except Exception:
                res[i] = {'runner_error': traceback.format_exc()[-1200:]}
    elif kind in ('openopts', 'worker'):
        body = c20cov_impl.run_openopts_body if kind == 'openopts' else c20cov_impl.run_worker_body
        from concurrent.futures import ThreadPoolExecutor
        with ThreadPoolExecutor(max_workers=payload.get('threads', 1)) as ex:
            futs = [ex.submit(run_with_deadline, body, c, payload.get('deadline', 4 * DEADLINE)) for c in cases]
            res = [f.result() for f in futs]
    elif kind == 'events':
        for i, c in enumerate(cases):
            try:
                res[i] = run_events(c)
            except Exception:
                res[i] = {'runner_error': traceback.format_exc()[-1200:]}
    elif kind == 'fstore':
        for i, c in enumerate(cases):
            try:
                res[i] = run_fstore(c)
            except Exception:
                res[i] = {'runner_error': traceback.format_exc()[-1200:]}
    else:
        body = run_cache_body if kind == 'cache' else run_sched_body
        par = payload.get('threads', 1)
        from concurrent.futures import ThreadPoolExecutor
        with ThreadPoolExecutor(max_workers=par) as ex:
            futs = [ex.submit(run_with_deadline, body, c, payload.get('deadline', 4 * DEADLINE)) for c in cases]
            res = [f.result() for f in futs]
    if payload.get('cov', True):
        try:
            res.append(c20cov_impl.cov_report())
        except Exception:
            res.append({'__cov__': {}, 'cov_error': traceback.format_exc()[-600:]})
    with open(sys.argv[2], 'w') as f:
        json.dump(res, f)
        f.flush()
        os.fsync(f.fileno())
    sys.stdout.flush()
    os._exit(0)


if __name__ == '__main__':
    main()
