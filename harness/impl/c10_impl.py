"""Runs tenpy model building / representation converters on the cases of harness/c10.py.

For every case (a coupling-model specification or a predefined model class + parameters) it builds
the model with the *current* tree and exports every representation of the Hamiltonian:
containers (with their operator strings), MPOGraph edges, grids, dense matrices from
ExactDiag (MPO and bonds), the numpy / scipy exporters, conversion round trips, and the
representation-changing options.  Dense matrices go into an .npz next to the JSON result.
No comparison is done here (harness/c10.py holds the oracle).
"""
import importlib
import inspect
import json
import os
import sys
import traceback
import warnings

import numpy as np

warnings.simplefilter('ignore')


# ------------------------------------------------------------------------------------------
# decoding of the specification
# ------------------------------------------------------------------------------------------

def dec(x):
    """strength encoding {'re':..,'im':..,'dtype':'int'|'float'|'complex'} -> python/numpy value"""
    if not isinstance(x, dict):
        return x
    re = np.array(x['re'])
    dt = x.get('dtype', 'complex')
    if dt == 'int':
        v = re.astype(np.int64)
    elif dt == 'float':
        v = re.astype(np.float64)
    else:
        v = re.astype(np.float64) + 1j * np.array(x['im'], dtype=np.float64)
    if v.ndim == 0:
        return v.item()
    return v


def make_site(s):
    from tenpy.networks import site as S
    t = s['type']
    kw = {}
    if 'sort_charge' in s:
        kw['sort_charge'] = s['sort_charge']
    c = s.get('conserve')
    if t == 'SpinHalf':
        return S.SpinHalfSite(conserve=c, **kw)
    if t == 'Spin1':
        return S.SpinSite(S=1., conserve=c, **kw)
    if t == 'Boson':
        return S.BosonSite(Nmax=s.get('Nmax', 2), conserve=c, **kw)
    if t == 'Fermion':
        return S.FermionSite(conserve=c, **kw)
    if t == 'SpinHalfFermion':
        return S.SpinHalfFermionSite(cons_N=c, cons_Sz=s.get('cons_Sz'), **kw)
    raise ValueError(t)


def make_lattice(ls, sites):
    from tenpy.models import lattice as Lt
    kind = ls['kind']
    kw = dict(bc=ls['bc'], bc_MPS=ls['bc_MPS'])
    if ls.get('order'):
        kw['order'] = ls['order']
    if kind == 'Chain':
        return Lt.Chain(ls['Ls'][0], sites[0], **kw)
    if kind == 'Ladder':
        return Lt.Ladder(ls['Ls'][0], sites if len(sites) > 1 else sites[0], **kw)
    if kind == 'Square':
        return Lt.Square(ls['Ls'][0], ls['Ls'][1], sites[0], **kw)
    if kind == 'Triangular':
        return Lt.Triangular(ls['Ls'][0], ls['Ls'][1], sites[0], **kw)
    if kind == 'Honeycomb':
        return Lt.Honeycomb(ls['Ls'][0], ls['Ls'][1], sites if len(sites) > 1 else sites[0], **kw)
    if kind == 'Kagome':
        return Lt.Kagome(ls['Ls'][0], ls['Ls'][1], sites if len(sites) > 1 else sites[0], **kw)
    raise ValueError(kind)


def apply_call(m, c):
    """one add_* call; optional arguments are passed only when the specification names them (so that the defaults of the
    implementation are exercised as well)"""
    fn = c['fn']
    s = dec(c['strength'])
    if c.get('strength_as_list') and isinstance(s, np.ndarray):
        s = s.tolist()
    kw = {}
    if 'category' in c:
        kw['category'] = c['category']
    if 'op_string' in c and fn not in ('add_coupling_term', 'add_multi_coupling_term'):
        kw['op_string'] = c['op_string']
    if c.get('plus_hc') is not None:
        kw['plus_hc'] = c['plus_hc']
    if fn == 'add_onsite':
        m.add_onsite(s, c['u'], c['op'], **kw)
    elif fn == 'add_coupling':
        if c.get('flux') is not None:
            s = m.coupling_strength_add_ext_flux(s, c['dx'], c['flux'])
        m.add_coupling(s, c['u1'], c['op1'], c['u2'], c['op2'], c['dx'], **kw)
    elif fn == 'add_multi_coupling':
        ops = [(o, dx, u) for o, dx, u in c['ops']]
        if c.get('switchLR') is not None:
            kw['switchLR'] = c['switchLR']
        m.add_multi_coupling(s, ops, **kw)
    elif fn == 'add_exponentially_decaying_coupling':
        if 'subsites_start' in c:
            m.add_exponentially_decaying_coupling(s, dec(c['lambda']), c['op_i'], c['op_j'], c.get('subsites'),
                                                  c.get('subsites_start'), **kw)
        elif 'subsites' in c:
            m.add_exponentially_decaying_coupling(s, dec(c['lambda']), c['op_i'], c['op_j'], subsites=c['subsites'], **kw)
        else:
            m.add_exponentially_decaying_coupling(s, dec(c['lambda']), c['op_i'], c['op_j'], **kw)
    elif fn == 'add_exponentially_decaying_centered_terms':
        m.add_exponentially_decaying_centered_terms(s, dec(c['lambda']), c['op_i'], c['op_j'], c['i'],
                                                    c.get('subsites'), **kw)
    elif fn == 'add_local_term':
        m.add_local_term(s, [(o, idx) for o, idx in c['term']], **kw)
    elif fn == 'add_onsite_term':
        m.add_onsite_term(s, c['i'], c['op'], **kw)
    elif fn == 'add_coupling_term':
        if 'op_string' in c:
            m.add_coupling_term(s, c['i'], c['j'], c['op_i'], c['op_j'], c['op_string'], **kw)
        else:
            m.add_coupling_term(s, c['i'], c['j'], c['op_i'], c['op_j'], **kw)
    elif fn == 'add_multi_coupling_term':
        if c.get('switchLR') is not None:
            kw['switchLR'] = c['switchLR']
        m.add_multi_coupling_term(s, c['ijkl'], c['ops'], c['op_string'], **kw)
    else:
        raise ValueError(fn)


# ------------------------------------------------------------------------------------------
# export helpers
# ------------------------------------------------------------------------------------------

def cnum(z):
    z = complex(z)
    return [z.real, z.imag]


def key_repr(k):
    if k == 'IdL' or k == 'IdR':
        return k
    if isinstance(k, tuple) and len(k) == 4 and k[0] == 'left' and isinstance(k[1], (int, np.integer)):
        return ['left', int(k[1]), str(k[2]), str(k[3])]
    return 'K:' + repr(k)


def export_graph(g):
    out = []
    for i in range(g.L):
        es = []
        for kl, d in g.graph[i].items():
            for kr, lst in d.items():
                for op, st in lst:
                    es.append([key_repr(kl), key_repr(kr), op, cnum(st)])
        out.append(es)
    return out


def export_grids(g):
    """grids exactly as handed to MPO.from_grids by build_MPO, indices as keys"""
    g._set_ordered_states()
    grids = g._build_grids()
    out = []
    for i, grid in enumerate(grids):
        es = []
        for a, row in enumerate(grid):
            for b, lst in enumerate(row):
                if lst is None:
                    continue
                for op, st in lst:
                    es.append([a, b, op, cnum(st)])
        out.append(es)
    IdL = [s.get('IdL', None) for s in g._ordered_states]
    IdR = [s.get('IdR', None) for s in g._ordered_states]
    return {'edges': out, 'IdL': IdL, 'IdR': IdR}


def export_onsite(ot):
    return [[i, op, cnum(st)] for i, d in enumerate(ot.onsite_terms) for op, st in d.items()]


def export_coupling(ct):
    """CouplingTerms.coupling_terms {i: {(op_i, op_str): {j: {op_j: strength}}}} in iteration order"""
    out = []
    for i, d1 in ct.coupling_terms.items():
        for (a, s), d2 in d1.items():
            for j, d3 in d2.items():
                for b, st in d3.items():
                    out.append([int(i), a, s, int(j), b, cnum(st)])
    return out


def export_multi(ct):
    """MultiCouplingTerms -> for every connection the full word with explicit operator strings,
    following the documented structure of terms_left / terms_right / connections."""
    n = len(ct.connections)
    left = [None] * n
    right = [None] * n

    def walk(d0, connect, part, store):
        for i, d1 in d0.items():
            if i == connect:
                for c in d1:
                    store[c] = part
            else:
                for (op, opstr), d2 in d1.items():
                    walk(d2, connect, part + ((int(i), op, opstr),), store)
    walk(ct.terms_left, ct._connect_left, (), left)
    walk(ct.terms_right, ct._connect_right, (), right)
    out = []
    for c, conn in enumerate(ct.connections):
        if conn is None:
            continue
        sw, op_sw, shift, st = conn
        sw = int(sw)
        shift = int(shift)
        word = []
        tl = left[c] or ()
        for n_, (i, op, opstr) in enumerate(tl):
            word.append([i, op])
            nxt = tl[n_ + 1][0] if n_ + 1 < len(tl) else sw
            for k in range(i + 1, nxt):
                word.append([k, opstr])
        word.append([sw, op_sw])
        tr = list(reversed(right[c] or ()))      # now ascending in site index
        prev = sw
        for (i, op, opstr) in tr:
            i = i + shift
            for k in range(prev + 1, i):
                word.append([k, opstr])
            word.append([i, op])
            prev = i
        out.append({'word': word, 'strength': cnum(st),
                    # stored form (paths of terms_left / terms_right, connection) for the Coq model of add_to_graph
                    'left': [[int(i), op, opstr] for i, op, opstr in tl],
                    'right': [[int(i), op, opstr] for i, op, opstr in (right[c] or ())],
                    'sw': sw, 'op_sw': op_sw, 'shift': shift})
    return out


def export_exp(edt):
    out = {'exp': [], 'centered': []}
    for st, lam, a, b, sub, sub0, s in edt.exp_decaying_terms:
        lam = np.full(edt.L, lam) if np.isscalar(lam) else np.asarray(lam)
        out['exp'].append({'strength': cnum(st), 'lambda': [cnum(x) for x in lam], 'op_i': a, 'op_j': b,
                           'subsites': [int(x) for x in sub], 'subsites_start': [int(x) for x in sub0], 'op_string': s})
    for st, lam, a, b, i, sub, s in edt.centered_terms:
        lam = np.full(edt.L, lam) if np.isscalar(lam) else np.asarray(lam)
        out['centered'].append({'strength': cnum(st), 'lambda': [cnum(x) for x in lam], 'op_i': a, 'op_j': b,
                                'i': int(i), 'subsites': [int(x) for x in sub], 'op_string': s})
    return out


def export_termlist(tl):
    return [[[[op, int(i)] for op, i in term], cnum(st)] for term, st in zip(tl.terms, tl.strength)]


def npc_dense(full_H, nsites):
    """npc Array with pipes (p0.p1..., p0*.p1*...) -> matrix in kron order of the sites' own bases"""
    res = full_H.split_legs()
    res = res.itranspose(['p%d%s' % (n, star) for star in ['', '*'] for n in range(nsites)])
    res = res.to_ndarray()
    dim = int(np.prod(res.shape[:nsites]))
    return res.reshape(dim, dim)


def contract_mpo(H, nsites, first=0):
    """sum of all terms of the MPO acting within sites first..first+nsites-1: start in IdL, end in IdR.
    Plain contraction of the W tensors (also for infinite MPOs, on a window)."""
    import tenpy.linalg.np_conserved as npc
    W = H.get_W(first)
    cur = W.take_slice(H.get_IdL(first), 'wL').replace_labels(['p', 'p*'], ['p0', 'p0*'])
    for n in range(1, nsites):
        W = H.get_W(first + n).replace_labels(['p', 'p*'], ['p%d' % n, 'p%d*' % n])
        cur = npc.tensordot(cur, W, axes=['wR', 'wL'])
    cur = cur.take_slice(H.get_IdR(first + nsites - 1), 'wR')
    cur = cur.itranspose(['p%d%s' % (n, star) for star in ['', '*'] for n in range(nsites)])
    a = cur.to_ndarray()
    dim = int(np.prod(a.shape[:nsites]))
    a = a.reshape(dim, dim)
    if H.explicit_plus_hc:
        a = a + a.conj().T
    return a


def bonds_dense_window(H_bond, sites, nsites, finite):
    """sum of H_bond[i] (acting on sites i-1, i) over all bonds inside a window of nsites sites"""
    L = len(sites)
    dims = [sites[i % L].dim for i in range(nsites)]
    D = int(np.prod(dims))
    tot = np.zeros((D, D), dtype=complex)
    for j in range(1, nsites):
        Hb = H_bond[j % L]
        if Hb is None:
            continue
        hb = Hb.itranspose(['p0', 'p1', 'p0*', 'p1*']).to_ndarray()
        d0, d1 = hb.shape[0], hb.shape[1]
        hb = hb.reshape(d0 * d1, d0 * d1)
        left = int(np.prod(dims[:j - 1]))
        right = int(np.prod(dims[j + 1:]))
        tot += np.kron(np.kron(np.eye(left), hb), np.eye(right))
    return tot


class Recorder:
    def __init__(self):
        self.mats = {}
        self.errors = {}
        self.info = {}

    def run(self, name, f):
        try:
            r = f()
            if r is not None:
                self.mats[name] = np.asarray(r)
        except Exception as e:
            self.errors[name] = type(e).__name__ + ': ' + str(e)[:200] + ' @ ' + traceback.format_exc().strip().split('\n')[-3][:160]


def export_basic(m, rec, nwin):
    """geometry, term containers (with the graph / grids / term list built from them) and the local operator matrices of the
    CouplingModel `m`; needs no H_MPO (also used when calc_H_MPO raised)"""
    from tenpy.models import model as M
    from tenpy.networks import mpo as MPO
    lat = m.lat
    sites = lat.mps_sites()
    L = lat.N_sites
    finite = lat.bc_MPS == 'finite'
    N = L if finite else nwin * L
    out = rec.info
    out['L'] = L
    out['N'] = N
    out['finite'] = finite
    out['dims'] = [sites[i % L].dim for i in range(N)]
    out['order'] = [[int(x) for x in row] for row in lat.order]
    out['Ls'] = [int(x) for x in lat.Ls]
    out['perm'] = [[int(x) for x in s.perm] for s in sites]
    out['bc'] = [bool(b) for b in lat.bc]
    out['explicit_plus_hc'] = bool(getattr(m, 'explicit_plus_hc', False))
    out['trivial_shift'] = bool(lat.unit_cell[0].leg.chinfo.trivial_shift)
    from tenpy.networks.site import GroupedSite
    out['grouped_sites'] = any(isinstance(s_, GroupedSite) for s_ in lat.unit_cell)
    uc = lat.unit_cell
    out['needs_JW'] = [{op: bool(s.op_needs_JW(op)) for op in s.opnames} for s in uc]
    out['hc_ops'] = [{op: s.get_hc_op_name(op) for op in s.opnames if True} for s in uc]
    # local operator matrices (tenpy's basis of each unit-cell site); names used in containers are added below
    opnames = [set(s.opnames) for s in uc]
    # ---------------- containers
    if isinstance(m, M.CouplingModel):
        ot = m.all_onsite_terms()
        ot.remove_zeros()
        ct = m.all_coupling_terms()
        ct.remove_zeros()
        edt = m.exp_decaying_terms
        from tenpy.networks.terms import MultiCouplingTerms
        out['onsite'] = export_onsite(ot)
        if isinstance(ct, MultiCouplingTerms):
            out['multi'] = export_multi(ct)
            out['coupling'] = None
        else:
            out['coupling'] = export_coupling(ct)
            out['multi'] = None
        out['exp'] = export_exp(edt)
        try:
            tl = ot.to_TermList() + ct.to_TermList()
            out['termlist'] = export_termlist(tl)
            if finite:
                out['termlist_exp'] = export_termlist(edt.to_TermList(cutoff=0., bc='finite'))
        except Exception as e:
            rec.errors['to_TermList'] = type(e).__name__ + ': ' + str(e)[:200]
        if 'termlist' in out:
            # the MPO re-built from the term list (TermList -> to_OnsiteTerms_CouplingTerms -> MPOGraph -> MPO) on the window.
            # (TermList does not keep operator strings: documented as lossy for fermions, so only without Jordan-Wigner operators)
            out['termlist_has_JW'] = any(sites[i % L].op_needs_JW(op) for t in tl.terms for op, i in t)
            out['termlist_strings'] = sorted(set([s for (_, _, s, _, _, _) in (out['coupling'] or [])] +
                                                 [s for t in (out['multi'] or []) for (_, _, s) in t['left'] + t['right']]))

            def mpo_from_termlist():
                from tenpy.networks.terms import TermList
                if out['termlist_has_JW'] or len(tl.terms) == 0 or any(s != 'Id' for s in out['termlist_strings']):
                    return None
                tl2 = TermList([[(op, int(i)) for op, i in t] for t in tl.terms], np.array(tl.strength))
                g2 = MPO.MPOGraph.from_term_list(tl2, sites, lat.bc_MPS, unit_cell_width=lat.mps_unit_cell_width)
                a = contract_mpo(g2.build_MPO(), N)
                if out['explicit_plus_hc']:
                    a = a + a.conj().T
                return a
            rec.run('H_mpo_from_termlist', mpo_from_termlist)
        # graph exactly as calc_H_MPO builds it
        try:
            g = MPO.MPOGraph.from_terms((ot, ct, edt), sites, lat.bc_MPS, unit_cell_width=lat.mps_unit_cell_width)
            out['graph'] = export_graph(g)
            out['grids'] = export_grids(g)
        except Exception as e:
            rec.errors['MPOGraph.from_terms'] = type(e).__name__ + ': ' + str(e)[:200]
        # operator names occurring in containers (composite names like 'Cd JW')
        for i, op, _ in out['onsite']:
            opnames[lat.order[i % L][-1]].add(op)
        for e in (out['coupling'] or []):
            i, a, s, j, b, _ = e
            opnames[lat.order[i % L][-1]].add(a)
            opnames[lat.order[j % L][-1]].add(b)
            for u in range(len(uc)):
                opnames[u].add(s)
        for t in (out['multi'] or []):
            for k, op in t['word']:
                opnames[lat.order[k % L][-1]].add(op)
        for kind in ('exp', 'centered'):
            for t in out['exp'][kind]:
                for u in range(len(uc)):
                    for op in (t['op_i'], t['op_j'], t['op_string']):
                        if uc[u].valid_opname(op):
                            opnames[u].add(op)
    for u, s in enumerate(uc):
        for op in sorted(opnames[u]):
            try:
                rec.mats['op/%d/%s' % (u, op)] = s.get_op(op).to_ndarray()
            except Exception:
                pass


def mpo_onsite_block(H, k):
    """the on-site operator the MPO holds for site k: the block W[k][IdL, IdR] (plus its conjugate for explicit_plus_hc)"""
    W = H.get_W(k)
    a = W.take_slice([H.get_IdL(k), H.get_IdR(k)], ['wL', 'wR']).itranspose(['p', 'p*']).to_ndarray()
    if H.explicit_plus_hc:
        a = a + a.conj().T
    return a


def sanity_error(H):
    try:
        H.test_sanity()
    except Exception as e:
        return type(e).__name__ + ': ' + str(e)[:60]
    return None


def export_model(m, rec, spec, want, nwin, unsorted_H=None):
    """export all representations of the model `m` (CouplingModel + MPOModel [+ NearestNeighborModel]).
    unsorted_H: for a model built with sort_mpo_legs=True, the MPO of the same model before MPO.sort_legcharges() (or None)"""
    from tenpy.algorithms import exact_diag as ED
    from tenpy.models import model as M
    from tenpy.networks import mpo as MPO
    export_basic(m, rec, nwin)
    lat = m.lat
    sites = lat.mps_sites()
    L = lat.N_sites
    finite = lat.bc_MPS == 'finite'
    N = L if finite else nwin * L
    out = rec.info
    # ---------------- MPO
    H = m.H_MPO
    # an MPO the model itself sorted (sort_mpo_legs=True): is it still a consistent MPO?  sort_legs_breaks_sanity is True exactly
    # when the MPO before sorting passes test_sanity, the model's (sorted) MPO does not (incompatible LegCharge), and sorting a
    # copy of the unsorted MPO reproduces that
    out['mpo_sanity_error'] = sanity_error(H)
    out['sort_legs_breaks_sanity'] = False
    if unsorted_H is not None and out['mpo_sanity_error'] is not None and 'incompatible LegCharge' in out['mpo_sanity_error']:
        import copy as _copy0
        if sanity_error(unsorted_H) is None:
            H0 = _copy0.deepcopy(unsorted_H)
            try:
                H0.sort_legcharges()
                out['sort_legs_breaks_sanity'] = 'incompatible LegCharge' in (sanity_error(H0) or '')
            except Exception as e:
                out['sort_legs_breaks_sanity'] = 'incompatible LegCharge' in str(e)
    if not finite:
        # on-site blocks of the MPO on the two edge sites of the window (the bond form counts them half there)
        for k_ in (0, N - 1):
            rec.run('mpo_onsite/%d' % k_, lambda k_=k_: mpo_onsite_block(H, k_))
    out['mpo_max_range'] = None if H.max_range is None else (float(H.max_range) if np.isfinite(H.max_range) else 'inf')
    out['mpo_chi'] = [int(x) for x in H.chi]
    out['mpo_explicit_plus_hc'] = bool(H.explicit_plus_hc)
    rec.run('H_mpo_contract', lambda: contract_mpo(H, N))
    try:
        out['is_hermitian'] = bool(H.is_hermitian())
    except Exception as e:
        rec.errors['is_hermitian'] = type(e).__name__ + ': ' + str(e)[:200]
    has_bond = False
    if 'bond' in want:
        try:
            if isinstance(m, M.CouplingModel):
                Hb = m.calc_H_bond()
            else:
                Hb = m.H_bond
            has_bond = True
        except (ValueError, AssertionError) as e:
            # not a nearest-neighbour Hamiltonian (multi-site terms trip an assert instead of the documented ValueError)
            out['no_bond'] = type(e).__name__ + ': ' + str(e)[:80]
        except Exception as e:
            rec.errors['calc_H_bond'] = type(e).__name__ + ': ' + str(e)[:200]
    if has_bond:
        rec.run('H_bond_window', lambda: bonds_dense_window(Hb, sites, N, finite))
        if finite and L >= 4 and Hb[L - 1] is not None:
            def hb_last():
                h = Hb[L - 1].itranspose(['p0', 'p1', 'p0*', 'p1*']).to_ndarray()
                return h.reshape(h.shape[0] * h.shape[1], -1)
            rec.run('Hb_last', hb_last)
        out['H_bond_0_none'] = Hb[0] is None
        # raw bond operators for the correspondence stream c10_bond (Model/BondSum.v): H_bond[j] as a matrix
        # in the kron order (site j-1) x (site j) of the sites' own bases, and whether the entry is None
        out['H_bond_none'] = [h is None for h in Hb]
        for j_, h_ in enumerate(Hb):
            if h_ is not None:
                a_ = h_.transpose(['p0', 'p1', 'p0*', 'p1*']).to_ndarray()
                rec.mats['Hb/%d' % j_] = a_.reshape(a_.shape[0] * a_.shape[1], -1)
    if finite:
        def ed_mpo():
            ed = ED.ExactDiag(m)
            ed.build_full_H_from_mpo()
            return npc_dense(ed.full_H, L)
        rec.run('H_ed_mpo', ed_mpo)

        def ed_from_H_mpo():
            ed = ED.ExactDiag.from_H_mpo(H)
            ed.build_full_H_from_mpo()
            return npc_dense(ed.full_H, L)
        rec.run('H_ed_from_H_mpo', ed_from_H_mpo)
        if 'exporters' in want:
            rec.run('H_np', lambda: ED.get_numpy_Hamiltonian(m))
            rec.run('H_np_noundo', lambda: ED.get_numpy_Hamiltonian(m, undo_sort_charge=False))
            if isinstance(m, M.CouplingModel):      # (documented: NotImplementedError otherwise)
                rec.run('H_sp', lambda: ED.get_scipy_sparse_Hamiltonian(m).toarray())
                rec.run('H_sp_noundo', lambda: ED.get_scipy_sparse_Hamiltonian(m, undo_sort_charge=False).toarray())
            rec.run('H_np_mpomodel', lambda: ED.get_numpy_Hamiltonian(M.MPOModel(lat, H)))
            rec.run('H_np_mpomodel_noundo', lambda: ED.get_numpy_Hamiltonian(M.MPOModel(lat, H), undo_sort_charge=False))
        if has_bond and L >= 2:
            nn = M.NearestNeighborModel(lat, Hb)

            def ed_bond():
                ed = ED.ExactDiag(nn)
                ed.build_full_H_from_bonds()
                return npc_dense(ed.full_H, L)
            if L >= 3:
                rec.run('H_ed_bond', ed_bond)
            if 'exporters' in want and L >= 3:
                rec.run('H_np_nnmodel', lambda: ED.get_numpy_Hamiltonian(nn, from_mpo=False))
    # ---------------- conversions
    if has_bond and 'convert' in want and L >= 2:
        def mpo_from_bond():
            nn = M.NearestNeighborModel(lat, [None if h is None else h.copy() for h in Hb])
            H2 = nn.calc_H_MPO_from_bond()
            return contract_mpo(H2, N)
        rec.run('H_mpo_from_bond', mpo_from_bond)

        def bond_from_mpo():
            Hb2 = M.MPOModel.calc_H_bond_from_MPO(m)
            return bonds_dense_window(Hb2, sites, N, finite)
        rec.run('H_bond_from_mpo', bond_from_mpo)

        def bond_from_plain_mpomodel():
            mm = M.MPOModel(lat, H)
            Hb2 = mm.calc_H_bond_from_MPO()
            return bonds_dense_window(Hb2, sites, N, finite)
        rec.run('H_bond_from_plain_MPOModel', bond_from_plain_mpomodel)
    if 'options' in want:
        # sort_mpo_legs
        import copy as _copy

        def sorted_legs():
            H2 = _copy.deepcopy(H)
            H2.sort_legcharges()
            return contract_mpo(H2, N)
        rec.run('H_sorted_legs', sorted_legs)

        def copy_then_sort():
            # sorting the legs of a copy() must not change the operator of the original
            Hd = _copy.deepcopy(H)
            H2 = Hd.copy()
            H2.sort_legcharges()
            return contract_mpo(Hd, N)
        rec.run('H_original_after_sorting_a_copy', copy_then_sort)
        # group_sites (exact comparison only without charges; the harness knows)
        trivial_charges = lat.unit_cell[0].leg.chinfo.qnumber == 0
        out['trivial_charges'] = bool(trivial_charges)
        if L % 2 == 0 or finite:
            def grouped():
                m2 = m.copy()
                m2.group_sites(2)
                H2 = m2.H_MPO
                n2 = H2.L if finite else (N // 2)
                a = contract_mpo(H2, n2)
                rec.info['group_perms'] = [[int(x) for x in s.perm] if hasattr(s, 'perm') else None for s in m2.lat.mps_sites()]
                if has_bond and isinstance(m2, M.NearestNeighborModel) and n2 >= 2:
                    rec.mats['H_group_bond'] = bonds_dense_window(m2.H_bond, m2.lat.mps_sites(), n2, finite)
                return a
            if (finite or N % 2 == 0):
                rec.run('H_group', grouped)
        # extract_segment
        seg = spec.get('segment')
        if seg == 'auto':
            ring = max(1, L // int(lat.Ls[0]))
            seg = [ring, 2 * ring - 1] if (finite and L >= 3 * ring) else ([0, ring - 1] if finite and L >= 2 * ring else None)
            if not finite:
                seg = [1, ring] if (ring + 1) <= N else None
            out['segment'] = seg
        if seg is not None:
            def segment():
                m2 = m.extract_segment(first=seg[0], last=seg[1])
                H2 = m2.H_MPO
                rec.info['segment_L'] = int(H2.L)
                rec.info['segment_bc'] = H2.bc
                a = contract_mpo(H2, H2.L)
                if has_bond and isinstance(m2, M.NearestNeighborModel) and H2.L >= 2:
                    rec.mats['H_segment_bond'] = bonds_dense_window(m2.H_bond, m2.lat.mps_sites(), H2.L, True)
                return a
            rec.run('H_segment', segment)
        if not finite:
            def enlarged():
                # (Model.copy() is shallow and shares the lattice, which enlarge_mps_unit_cell modifies in place: work on a deep
                # copy here; the effect on the original of a shallow copy is observed separately below)
                m2 = _copy.deepcopy(m)
                m2.enlarge_mps_unit_cell(2)
                H2 = m2.H_MPO
                rec.info['enlarged_L'] = int(H2.L)
                if N % H2.L != 0:
                    return None
                if has_bond and isinstance(m2, M.NearestNeighborModel):
                    rec.mats['H_enlarged_bond'] = bonds_dense_window(m2.H_bond, m2.lat.mps_sites(), N, False)
                return contract_mpo(H2, N)
            rec.run('H_enlarged', enlarged)

            def copy_then_enlarge():
                # enlarging a copy() must leave the original consistent (its lattice must still fit its MPO / H_bond)
                m0 = _copy.deepcopy(m)
                m2 = m0.copy()
                m2.enlarge_mps_unit_cell(2)
                rec.info['orig_after_enlarging_copy'] = {'lat_N_sites': int(m0.lat.N_sites), 'mpo_L': int(m0.H_MPO.L), 'copy_lat_N_sites': int(m2.lat.N_sites),
                                                         'copy_mpo_L': int(m2.H_MPO.L)}
            rec.run('copy_then_enlarge', copy_then_enlarge)
    if 'extra' in want:
        export_extra(m, rec, spec, nwin, has_bond, Hb if has_bond else None)


def product_states(m, seed):
    """two product states in the sites' own bases (same total charge: the second is the first with two sites of equal type
    exchanged) and normalised complex amplitudes, all derived from the integer `seed` of the case"""
    import random
    rr = random.Random(seed)
    sites = m.lat.mps_sites()
    L = len(sites)
    p1 = [rr.randrange(s.dim) for s in sites]
    p2 = None
    pairs = [(a, b) for a in range(L) for b in range(a + 1, L)
             if p1[a] != p1[b] and sites[a].dim == sites[b].dim and np.array_equal(sites[a].leg.to_qflat(), sites[b].leg.to_qflat())]
    if pairs:
        a, b = rr.choice(pairs)
        p2 = list(p1)
        p2[a], p2[b] = p1[b], p1[a]
    t, ph = rr.uniform(0.3, 1.2), rr.uniform(-3, 3)
    return p1, p2, [np.cos(t), 0.0], [np.sin(t) * np.cos(ph), np.sin(t) * np.sin(ph)]


def export_extra(m, rec, spec, nwin, has_bond, Hb):
    """representations / accessors beyond the basic ones: exporters of wave functions, ExactDiag options (charge_sector, sparse,
    from_infinite_model, mps_to_full + matvec), bond energies, NearestNeighborModel.from_MPOModel, group_sites(3) and given
    grouped_sites, enlarge_mps_unit_cell(3), extract_segment(enlarge=), TermList / container accessors, test_sanity"""
    from tenpy.algorithms import exact_diag as ED
    from tenpy.models import model as M
    from tenpy.networks import site as Sm
    from tenpy.networks.mps import MPS
    from tenpy.networks.terms import ExponentiallyDecayingTerms, TermList
    lat = m.lat
    sites = lat.mps_sites()
    L = lat.N_sites
    finite = lat.bc_MPS == 'finite'
    N = L if finite else nwin * L
    out = rec.info
    H = m.H_MPO
    seed = int(spec.get('psi_seed', 0))
    # ---- sanity checks of the containers must accept every valid model
    try:
        m.test_sanity()
        if isinstance(m, M.CouplingModel):
            m.exp_decaying_terms._test_terms(sites)
    except Exception as e:
        rec.errors['test_sanity'] = type(e).__name__ + ': ' + str(e)[:200]
    # ---- charges of the local basis states (for the charge-sector oracle)
    out['qmod'] = [int(x) for x in sites[0].leg.chinfo.mod]
    out['qflat'] = [(s.leg.to_qflat() * s.leg.qconj).tolist() for s in sites]
    if finite:
        p1, p2, al, be = product_states(m, seed)
        out['psi'] = {'p1': p1, 'p2': p2, 'alpha': al, 'beta': be}
        psi = None
        try:
            psi = MPS.from_product_state(sites, p1, 'finite', permute=False, unit_cell_width=lat.mps_unit_cell_width)
            psi1 = psi
            if p2 is not None:
                psi2 = MPS.from_product_state(sites, p2, 'finite', permute=False, unit_cell_width=lat.mps_unit_cell_width)
                psi = psi.add(psi2, complex(*al), complex(*be))
                psi.canonical_form()
            out['psi_norm'] = float(psi.norm)
        except Exception as e:
            rec.errors['psi'] = type(e).__name__ + ': ' + str(e)[:200]
            psi = None
        if psi is not None:
            rec.run('wf_undo', lambda: ED.get_full_wavefunction(psi))
            rec.run('wf_noundo', lambda: ED.get_full_wavefunction(psi, undo_sort_charge=False))
            rec.run('E_mpo', lambda: np.array(H.expectation_value(psi)))

            def matvec():
                ed = ED.ExactDiag(m)
                ed.build_full_H_from_mpo()
                v = ed.mps_to_full(psi)
                return ed.matvec(v).split_legs().to_ndarray().reshape(-1)
            rec.run('ed_matvec', matvec)

            def sector(from_bonds):
                # the sector of the first product state: sum of the charges of its local basis states
                chinfo = sites[0].leg.chinfo
                cs = chinfo.make_valid(np.sum([s_.leg.to_qflat()[q_] * s_.leg.qconj for s_, q_ in zip(sites, p1)], axis=0)
                                       if chinfo.qnumber else None)
                mm = m
                if from_bonds:
                    mm = M.NearestNeighborModel(lat, Hb)
                ed = ED.ExactDiag(mm, charge_sector=cs)
                if from_bonds:
                    ed.build_full_H_from_bonds()
                else:
                    ed.build_full_H_from_mpo()
                v = ed.mps_to_full(psi)
                rec.mats['sector_psi' + ('_b' if from_bonds else '')] = v.to_ndarray()
                rec.mats['sector_Hpsi' + ('_b' if from_bonds else '')] = ed.matvec(v).to_ndarray()
                rec.info['sector'] = [int(x) for x in cs]
                return ed.full_H.to_ndarray()
            rec.run('H_ed_sector', lambda: sector(False))
            if has_bond and L >= 3:
                rec.run('H_ed_sector_bonds', lambda: sector(True))
            if has_bond and isinstance(m, M.NearestNeighborModel):
                rec.run('bond_energies', lambda: np.array(m.bond_energies(psi)))

        def ed_sparse():
            ed = ED.ExactDiag(m, sparse=True)
            ed.build_full_H_from_mpo()
            ed.build_full_H_from_mpo()        # (a second call on the same object: warns, must give the same matrix)
            return npc_dense(ed.full_H, L)
        rec.run('H_ed_sparse', ed_sparse)
        if has_bond and L >= 3:
            nn = M.NearestNeighborModel(lat, Hb)
            rec.run('H_np_nnmodel_noundo', lambda: ED.get_numpy_Hamiltonian(nn, from_mpo=False, undo_sort_charge=False))

            def both(from_mpo):
                mm = M.MPOModel(lat, H)
                mm.H_bond = list(Hb)
                return ED.get_numpy_Hamiltonian(mm, from_mpo=from_mpo)
            rec.run('H_np_both_from_bond', lambda: both(False))
            rec.run('H_np_both_from_mpo', lambda: both(True))
    if (not finite) and has_bond and isinstance(m, M.NearestNeighborModel) and out.get('trivial_shift', True):
        # bond energies of a product state of the infinite system
        p1 = product_states(m, seed)[0]
        out['psi'] = {'p1': p1, 'p2': None, 'alpha': [1.0, 0.0], 'beta': [0.0, 0.0]}

        def bond_energies_inf():
            psi = MPS.from_product_state(sites, p1, 'infinite', permute=False, unit_cell_width=lat.mps_unit_cell_width)
            return np.array(m.bond_energies(psi))
        rec.run('bond_energies', bond_energies_inf)
    if has_bond and L >= 2:
        def from_mpomodel():
            nn2 = M.NearestNeighborModel.from_MPOModel(m)
            return bonds_dense_window(nn2.H_bond, sites, N, finite)
        rec.run('H_bond_from_MPOModel_cls', from_mpomodel)
    # ---- representation-changing options with non-default arguments
    if (finite and L >= 3) or (not finite and L % 3 == 0):
        def grouped3():
            m2 = m.copy()
            m2.group_sites(3)
            H2 = m2.H_MPO
            n2 = H2.L if finite else (N // 3)
            if not finite and N % 3 != 0:
                return None
            a = contract_mpo(H2, n2)
            if has_bond and isinstance(m2, M.NearestNeighborModel) and n2 >= 2:
                rec.mats['H_group3_bond'] = bonds_dense_window(m2.H_bond, m2.lat.mps_sites(), n2, finite)
            return a
        rec.run('H_group3', grouped3)
    if finite and L >= 2 and out.get('trivial_charges'):
        def grouped_then_exported():
            # results used again: the grouped model is the operand of ExactDiag and of the numpy exporter
            m2 = m.copy()
            m2.group_sites(2)
            ed = ED.ExactDiag(m2)
            ed.build_full_H_from_mpo()
            rec.mats['H_group_then_np'] = ED.get_numpy_Hamiltonian(M.MPOModel(m2.lat, m2.H_MPO))
            return npc_dense(ed.full_H, m2.H_MPO.L)
        rec.run('H_group_then_ed', grouped_then_exported)
    if L % 2 == 0 or finite:
        def grouped_given():
            m2 = m.copy()
            gs = Sm.group_sites(lat.mps_sites(), 2, charges='same')
            ret = m2.group_sites(2, grouped_sites=gs)
            assert ret is gs or list(ret) == list(gs)
            n2 = m2.H_MPO.L if finite else (N // 2)
            return contract_mpo(m2.H_MPO, n2)
        if finite or N % 2 == 0:
            rec.run('H_group_given', grouped_given)
    if not finite:
        def enlarged3():
            import copy as _copy
            m2 = _copy.deepcopy(m)
            m2.enlarge_mps_unit_cell(3)
            if has_bond and isinstance(m2, M.NearestNeighborModel):
                rec.mats['H_enlarged3_bond'] = bonds_dense_window(m2.H_bond, m2.lat.mps_sites(), N, False)
            return contract_mpo(m2.H_MPO, N)
        rec.run('H_enlarged3', enlarged3)

        def enlarged_then_segment():
            # results used again: the enlarged model is the operand of extract_segment
            import copy as _copy
            m2 = _copy.deepcopy(m)
            m2.enlarge_mps_unit_cell(nwin)
            m3 = m2.extract_segment()                 # (defaults: the whole, now enlarged, unit cell)
            rec.info['enlarged_then_segment_L'] = int(m3.H_MPO.L)
            return contract_mpo(m3.H_MPO, m3.H_MPO.L)
        rec.run('H_enlarged_then_segment', enlarged_then_segment)

        def segment_enlarge():
            m2 = m.extract_segment(enlarge=nwin)
            H2 = m2.H_MPO
            rec.info['segment_enlarge_L'] = int(H2.L)
            if has_bond and isinstance(m2, M.NearestNeighborModel) and H2.L >= 2:
                rec.mats['H_segment_enlarge_bond'] = bonds_dense_window(m2.H_bond, m2.lat.mps_sites(), H2.L, True)
            return contract_mpo(H2, H2.L)
        rec.run('H_segment_enlarge', segment_enlarge)
        seg = out.get('segment') if spec.get('segment') == 'auto' else spec.get('segment')
        if seg is not None:
            def from_infinite():
                ed = ED.ExactDiag.from_infinite_model(m, first=seg[0], last=seg[1])
                ed.build_full_H_from_mpo()
                if ed.full_H.rank != 2:
                    raise ValueError('full_H has %d legs %r' % (ed.full_H.rank, ed.full_H.get_leg_labels()))
                return npc_dense(ed.full_H, seg[1] - seg[0] + 1)
            rec.run('H_ed_from_infinite', from_infinite)

        def from_infinite_enlarge():
            ed = ED.ExactDiag.from_infinite_model(m, enlarge=nwin)
            ed.build_full_H_from_mpo()
            return npc_dense(ed.full_H, N)
        rec.run('H_ed_from_infinite_enlarge', from_infinite_enlarge)
    # ---- accessors of the term containers / TermList
    if isinstance(m, M.CouplingModel):
        ot = m.all_onsite_terms()
        ot.remove_zeros()
        ct = m.all_coupling_terms()
        ct.remove_zeros()
        edt = m.exp_decaying_terms
        try:
            tl = ot.to_TermList() + ct.to_TermList()
            acc = {'ct_max_range': int(ct.max_range()), 'ot_max_range': int(ot.max_range()),
                   'edt_max_range': (None if edt.is_empty else repr(edt.max_range())), 'tl_max_range': int(tl.max_range()),
                   'tl_limits': [int(x) for x in tl.limits()] if tl.terms else None,
                   'tl_shift': export_termlist(tl.shift(L)), 'tl_mul': export_termlist(tl * 2.5),
                   'tl_iter': [[[[op, int(i)] for op, i in term], cnum(st)] for term, st in tl]}
            e2 = ExponentiallyDecayingTerms(L)
            e2 += edt
            acc['exp_iadd'] = export_exp(e2)
            if not finite and not edt.is_empty:
                cut = float(spec.get('exp_cutoff', 1e-3))
                acc['termlist_exp_infinite'] = export_termlist(edt.to_TermList(cutoff=cut, bc='infinite'))
                acc['exp_cutoff'] = cut
            # TermList.from_lattice_locations on the add_local_term calls of the specification
            loc = [c for c in (spec.get('calls') or []) if c['fn'] == 'add_local_term']
            if loc:
                shift = spec.get('tl_shift')
                terms = [[(o, idx) for o, idx in c['term']] for c in loc]
                tl2 = TermList.from_lattice_locations(lat, terms, [complex(np.asarray(dec(c['strength'])).reshape(-1)[0]) for c in loc],
                                                      **({} if shift is None else {'shift': shift}))
                acc['tl_from_lattice'] = export_termlist(tl2)
                acc['tl_from_lattice_unit'] = export_termlist(TermList.from_lattice_locations(lat, terms))    # (strength: default 1.)
            out['accessors'] = acc
        except Exception as e:
            rec.errors['accessors'] = type(e).__name__ + ': ' + str(e)[:200] + ' @ ' + traceback.format_exc().strip().split('\n')[-3][:160]


def run_spec(case, npz_path):
    from tenpy.models import model as M
    spec = case['spec']
    rec = Recorder()
    sites = [make_site(s) for s in spec['sites']]
    lat = make_lattice(spec['lattice'], sites)
    want = case.get('want', ['bond', 'exporters', 'convert', 'options', 'extra'])

    def failed_build(m, e, what):
        res = {'error': '%s raised %s: %s' % (what, type(e).__name__, str(e)[:200]), 'error_type': type(e).__name__,
               'tb': traceback.format_exc()[-600:]}
        # the term containers and local operators, for the oracle to decide whether the terms sum to the zero operator
        try:
            export_basic(m, rec, case.get('nwin', 2))
            np.savez(npz_path, **rec.mats)
            res.update(rec.info)
            res['errors'] = rec.errors
            res['npz'] = npz_path
        except Exception:
            res['export_basic_error'] = traceback.format_exc()[-400:]
        return res

    unsorted_H = None
    via = spec.get('via')
    if via:
        # ---- the documented route of the model classes: a CouplingMPOModel subclass with init_sites / init_terms, the lattice
        # given by model parameters (name / class / instance, sizes, boundary conditions, order), H_MPO (and H_bond) built by
        # init_H_from_terms; optionally the last calls are added after the initialisation and init_H_from_terms is called again
        from tenpy.models import lattice as Lt
        ls = spec['lattice']
        late = int(via.get('late', 0))
        first_calls = spec['calls'][:len(spec['calls']) - late]
        late_calls = spec['calls'][len(spec['calls']) - late:]
        state = {'err': None, 'model': None}

        class GenericBase(M.CouplingMPOModel):
            def init_sites(self, model_params):
                if len(sites) == 1:
                    return sites[0]
                return tuple(sites)

            def init_terms(self, model_params):
                super().init_terms(model_params)
                state['model'] = self
                for n, c in enumerate(first_calls):
                    try:
                        apply_call(self, c)
                    except Exception as e:
                        state['err'] = {'error': 'call %d %s raised %s: %s' % (n, c['fn'], type(e).__name__, str(e)[:160]),
                                        'error_call': n, 'error_type': type(e).__name__}
                        raise

        class GenericNN(GenericBase, M.NearestNeighborModel):
            pass
        mp = {'bc_MPS': ls['bc_MPS'], 'explicit_plus_hc': spec.get('explicit_plus_hc', False)}
        if via.get('explicit_plus_hc_default') and not mp['explicit_plus_hc']:
            del mp['explicit_plus_hc']
        if spec.get('sort_mpo_legs'):
            mp['sort_mpo_legs'] = True
        how = via.get('lattice_as', 'name')
        if how == 'instance':
            mp['lattice'] = lat
        else:
            mp['lattice'] = ls['kind'] if how == 'name' else getattr(Lt, ls['kind'])
            bcs = ls['bc'] if isinstance(ls['bc'], list) else [ls['bc']]
            if not (via.get('bc_x_default') and bcs[0] == ('open' if ls['bc_MPS'] == 'finite' else 'periodic')):
                mp['bc_x'] = bcs[0]
            if len(ls['Ls']) == 1:
                mp['L'] = ls['Ls'][0]
            else:
                mp['Lx'], mp['Ly'] = ls['Ls']
                mp['bc_y'] = {'open': via.get('open_word', 'ladder'), 'periodic': via.get('periodic_word', 'cylinder')}[bcs[1]]
            if ls.get('order'):
                mp['order'] = ls['order']
        m = None
        for cls_ in ([GenericNN, GenericBase] if via.get('nn', True) else [GenericBase]):
            try:
                state['err'] = None
                m = cls_(dict(mp))
                break
            except Exception as e:
                if state['err'] is not None:
                    return state['err']
                txt = str(e) + traceback.format_exc()
                if cls_ is GenericNN and ('H_bond' in txt or 'nearest neighbor' in txt or 'to_nn_bond_Arrays' in txt):
                    continue          # not a nearest-neighbour Hamiltonian: the plain MPO model
                return failed_build(state['model'], e, 'CouplingMPOModel.__init__')
        if list(m.lat.order.reshape(-1)) != list(lat.order.reshape(-1)) or list(m.lat.Ls) != list(lat.Ls) or list(m.lat.bc) != list(lat.bc):
            return {'runner_error': 'init_lattice built a different lattice than the specification: %r %r %r' % (m.lat.order.tolist(), m.lat.Ls, m.lat.bc)}
        if late_calls:
            if via.get('manual_flag', True):
                m.manually_call_init_H = True
            for n, c in enumerate(late_calls):
                try:
                    apply_call(m, c)
                except Exception as e:
                    return {'error': 'call %d %s raised %s: %s' % (len(first_calls) + n, c['fn'], type(e).__name__, str(e)[:160]),
                            'error_call': len(first_calls) + n, 'error_type': type(e).__name__}
            try:
                if isinstance(m, M.NearestNeighborModel):
                    try:
                        m.calc_H_bond()
                    except Exception:
                        m.__class__ = GenericBase       # (the late terms are not nearest-neighbour: only the MPO is rebuilt)
                m.init_H_from_terms()
            except Exception as e:
                return failed_build(m, e, 'init_H_from_terms (second call)')
        lat = m.lat
        if spec.get('sort_mpo_legs'):
            try:
                unsorted_H = m.calc_H_MPO()
            except Exception:
                unsorted_H = None
        rec.info['via'] = {'cls': type(m).__name__, 'is_nn': isinstance(m, M.NearestNeighborModel), 'late': late}
    else:
        class TheModel(M.CouplingModel, M.MPOModel):
            pass

        m = M.CouplingModel.__new__(TheModel)
        M.CouplingModel.__init__(m, lat, explicit_plus_hc=spec.get('explicit_plus_hc', False))
        for n, c in enumerate(spec['calls']):
            try:
                apply_call(m, c)
            except Exception as e:
                return {'error': 'call %d %s raised %s: %s' % (n, c['fn'], type(e).__name__, str(e)[:160]),
                        'error_call': n, 'error_type': type(e).__name__}
        try:
            tz = spec.get('tol_zero')
            H = m.calc_H_MPO() if tz is None else m.calc_H_MPO(tol_zero=tz)
            if spec.get('sort_mpo_legs'):
                import copy as _copy
                unsorted_H = _copy.deepcopy(H)
                H.sort_legcharges()
            M.MPOModel.__init__(m, lat, H)
        except Exception as e:
            return failed_build(m, e, 'calc_H_MPO')
        # make it a nearest-neighbour model as well when possible (so that group_sites etc. treat H_bond)
        try:
            Hb = m.calc_H_bond() if tz is None else m.calc_H_bond(tol_zero=tz)

            class TheNNModel(M.CouplingModel, M.NearestNeighborModel, M.MPOModel):
                pass
            m.__class__ = TheNNModel
            M.NearestNeighborModel.__init__(m, lat, Hb)
        except Exception:
            pass
    export_model(m, rec, spec, want, case.get('nwin', 2), unsorted_H=unsorted_H)
    np.savez(npz_path, **rec.mats)
    res = dict(rec.info)
    res['errors'] = rec.errors
    res['npz'] = npz_path
    return res


def run_predefined(case, npz_path):
    """a model class of tenpy.models with parameters"""
    mod = importlib.import_module('tenpy.models.' + case['module'])
    cls = getattr(mod, case['cls'])
    rec = Recorder()
    try:
        m = cls(dict(case['params']))
    except Exception as e:
        return {'construct_error': type(e).__name__ + ': ' + str(e)[:200]}
    from tenpy.models import model as M
    if not isinstance(m, M.MPOModel):
        return {'construct_error': 'not an MPOModel'}
    if m.lat.N_sites > case.get('max_sites', 8) or int(np.prod([s.dim for s in m.lat.mps_sites()] * (1 if m.lat.bc_MPS == 'finite' else case.get('nwin', 2)))) > 600:
        return {'construct_error': 'too large'}
    want = ['bond', 'exporters', 'convert', 'options'] if isinstance(m, M.NearestNeighborModel) else ['exporters', 'options']
    want.append('extra')
    if isinstance(m, M.CouplingModel) and not isinstance(m, M.NearestNeighborModel):
        want.append('bond')
    unsorted_H = None
    if case['params'].get('sort_mpo_legs'):
        try:
            unsorted_H = cls(dict(case['params'], sort_mpo_legs=False)).H_MPO
        except Exception:
            unsorted_H = None
    export_model(m, rec, {'segment': case.get('segment'), 'psi_seed': case.get('psi_seed', 0)}, want, case.get('nwin', 2),
                 unsorted_H=unsorted_H)
    np.savez(npz_path, **rec.mats)
    res = dict(rec.info)
    res['errors'] = rec.errors
    res['npz'] = npz_path
    res['is_coupling_model'] = isinstance(m, M.CouplingModel)
    return res


def list_models():
    """reflection: all model classes of tenpy.models (module, class name)"""
    import tenpy.models as TM
    from tenpy.models import model as M
    out = []
    for modname in ['tf_ising', 'xxz_chain', 'spins', 'spins_nnn', 'fermions_spinless', 'hubbard', 'tj_model', 'aklt',
                    'hofstadter', 'haldane', 'molecular', 'toric_code', 'mixed_xk', 'clock', 'pxp']:
        try:
            mod = importlib.import_module('tenpy.models.' + modname)
        except Exception as e:
            out.append([modname, None, 'import failed: ' + str(e)[:80]])
            continue
        for name, obj in sorted(vars(mod).items()):
            if inspect.isclass(obj) and issubclass(obj, M.Model) and obj.__module__ == mod.__name__:
                out.append([modname, name, None])
    return out


def run_split_terms(cases):
    """MultiCouplingTerms.add_multi_coupling_term on a fresh container: the stored form (path in terms_left, path in
    terms_right, connection) read back with export_multi.  Operator names are arbitrary strings here."""
    from tenpy.networks.terms import MultiCouplingTerms
    out = []
    for c in cases:
        try:
            ct = MultiCouplingTerms(c['L'])
            sw = c['switchLR']
            if c.get('via_add_coupling_term'):
                ct.add_coupling_term(dec(c['strength']), c['ijkl'][0], c['ijkl'][1], c['ops'][0], c['ops'][1], c['op_string'], switchLR=sw)
            else:
                ct.add_multi_coupling_term(dec(c['strength']), list(c['ijkl']), list(c['ops']), c['op_string'], sw)
            out.append({'stored': export_multi(ct), 'n_connections': len(ct.connections)})
        except Exception as e:
            out.append({'error': type(e).__name__ + ': ' + str(e)[:200]})
    return out


TRACE_FILES = ('tenpy/models/model.py', 'tenpy/networks/terms.py', 'tenpy/algorithms/exact_diag.py')
_trace_hits = {}


def start_trace():
    """line coverage of the anchored source files inside this runner process (sys.monitoring: every line location reports
    once and is then disabled, so the overhead is negligible)"""
    mon = sys.monitoring
    tool = mon.COVERAGE_ID
    try:
        mon.use_tool_id(tool, 'c10cov')
    except ValueError:
        return False
    short = {}

    def on_line(code, lineno):
        fn = code.co_filename
        s = short.get(fn)
        if s is None:
            s = ''
            n = fn.replace(os.sep, '/')
            for t in TRACE_FILES:
                if n.endswith(t):
                    s = t
            short[fn] = s
        if s:
            _trace_hits.setdefault(s, set()).add(lineno)
        return mon.DISABLE
    mon.register_callback(tool, mon.events.LINE, on_line)
    mon.set_events(tool, mon.events.LINE)
    return True


def trace_result():
    return {'lines': {k: sorted(v) for k, v in _trace_hits.items()},
            'options': {q: {k: sorted(v) for k, v in d.items()} for q, d in _opt_seen.items()}}


_opt_seen = {}


def _tag(v, dflt):
    """short description of an argument value: 'default' or the value / its type"""
    simple = (bool, int, float, str, type(None))
    if v is dflt or (isinstance(v, simple) and isinstance(dflt, simple) and type(v) is type(dflt) and v == dflt):
        return 'default'
    if isinstance(v, (bool, type(None), str)):
        return repr(v)[:24]
    if isinstance(v, (int, float, np.integer, np.floating)):
        return '%s:%s' % (type(v).__name__, 'neg' if v < 0 else ('zero' if v == 0 else 'pos'))
    if isinstance(v, (list, tuple)):
        return '%s[%d]' % (type(v).__name__, len(v))
    return type(v).__name__


def install_option_recorder():
    """wrap every public function / method of the anchored modules that has optional parameters: record, per parameter, which
    (kinds of) values it was called with"""
    import functools
    from tenpy.algorithms import exact_diag as E_
    from tenpy.models import model as M_
    from tenpy.networks import terms as T_

    def wrap(f, qual):
        try:
            sig = inspect.signature(f)
        except (TypeError, ValueError):
            return None
        names = list(sig.parameters)
        opts = {p.name: p.default for p in sig.parameters.values() if p.default is not inspect.Parameter.empty}
        if not opts:
            return None

        @functools.wraps(f)
        def w(*a, **kw):
            try:
                given = dict(zip(names, a))
                given.update(kw)
                d = _opt_seen.setdefault(qual, {})
                for k, dflt in opts.items():
                    st = d.setdefault(k, set())
                    if len(st) < 10:
                        st.add(_tag(given[k], dflt) if k in given else 'default')
            except Exception:
                pass
            return f(*a, **kw)
        return w
    for mod, short in ((M_, 'model'), (T_, 'terms'), (E_, 'exact_diag')):
        for cname, obj in list(vars(mod).items()):
            if inspect.isfunction(obj) and obj.__module__ == mod.__name__ and not cname.startswith('_'):
                w = wrap(obj, '%s.%s' % (short, cname))
                if w is not None:
                    setattr(mod, cname, w)
            elif inspect.isclass(obj) and obj.__module__ == mod.__name__:
                for name, f in list(vars(obj).items()):
                    if name.startswith('_') and name not in ('__init__', '__iadd__', '__add__', '__mul__'):
                        continue
                    qual = '%s.%s.%s' % (short, cname, name)
                    if cname == 'CouplingMPOModel' and name in vars(M_.CouplingModel):
                        qual = '%s.CouplingModel.%s' % (short, name)       # (the decorated add_* methods)
                    if isinstance(f, classmethod):
                        w = wrap(f.__func__, qual)
                        if w is not None:
                            setattr(obj, name, classmethod(w))
                    elif isinstance(f, staticmethod):
                        continue
                    elif inspect.isfunction(f):
                        w = wrap(f, qual)
                        if w is not None:
                            setattr(obj, name, w)


def main():
    try:
        import resource
        lim = 6 << 30            # (a runaway case must not exhaust the memory of the shared machine)
        resource.setrlimit(resource.RLIMIT_AS, (lim, lim))
    except Exception:
        pass
    fin, fout = sys.argv[1], sys.argv[2]
    payload = json.load(open(fin))
    if payload.get('trace'):
        start_trace()
        install_option_recorder()
    if payload.get('kind') == 'list_models':
        json.dump(list_models(), open(fout, 'w'))
        return
    if payload.get('kind') == 'split_terms':
        res = run_split_terms(payload['cases'])
        json.dump({'results': res, 'trace': trace_result()} if payload.get('trace') else res, open(fout, 'w'))
        return
    out = []
    base = os.path.splitext(fout)[0]
    for n, case in enumerate(payload['cases']):
        npz = '%s_%d.npz' % (base, n)
        try:
            if case['kind'] == 'spec':
                out.append(run_spec(case, npz))
            else:
                out.append(run_predefined(case, npz))
        except Exception:
            out.append({'runner_error': traceback.format_exc()[-1500:]})
    json.dump({'results': out, 'trace': trace_result()} if payload.get('trace') else out, open(fout, 'w'))


if __name__ == '__main__':
    main()
