"""Runs block-sparse tensor programs of harness/npc_gen.py against tenpy (fresh interpreter).
Shared by C01 and C02.  payload: {'kind': 'programs'|'legs'|'labels'|'c02x'|'c01reflect'|'c01cov', 'config': 'py'|'cy', 'programs': [...], 'progress': path}
Before every step the position is written to the progress file, so that a hard crash of the interpreter
(e.g. SIGFPE inside the compiled extension) can be attributed to a concrete program and operation."""
import json
import os
import sys
import traceback
import warnings

warnings.simplefilter('ignore')
sys.path.insert(0, os.path.join(os.environ.get('VERIF_DIR', '/verif'), 'harness'))


def main():
    payload = json.load(open(sys.argv[1]))
    import npc_gen
    import tenpy.tools.optimization as opt
    import tenpy.linalg.np_conserved  # noqa: F401  (decides have_cython_functions)
    info = {'have_cython': bool(opt.have_cython_functions)}
    out = []
    prog_path = payload.get('progress')
    partial_path = payload.get('partial')
    if payload['kind'] == 'labels':
        from tenpy.linalg.np_conserved import Array
        for case in payload['programs']:
            ls = case['labels']
            r = {'combined': Array._combine_leg_labels(ls), 'conj': [Array._conj_leg_label(l) for l in ls]}
            try:
                r['split'] = Array._split_leg_label(r['combined'], case.get('count', len(ls)))
            except ValueError:
                r['split'] = 'ValueError'
            r['conj_combined'] = Array._conj_leg_label(r['combined'])
            r['conj_conj'] = [Array._conj_leg_label(x) for x in r['conj']]
            out.append(r)
        json.dump({'info': info, 'results': out}, open(sys.argv[2], 'w'))
        return
    if payload['kind'] in ('c01reflect', 'c01cov'):      # coverage tables of C01 (harness/c01_ext.py)
        import c01_ext
        for case in payload['programs']:
            out.append({'api': c01_ext.reflect_api()} if payload['kind'] == 'c01reflect' else c01_ext.measure_line_coverage(case['programs'], payload['config']))
        json.dump({'info': info, 'results': out}, open(sys.argv[2], 'w'))
        return
    for pi, prog in enumerate(payload['programs']):
        try:
            if payload['kind'] == 'legs':
                out.append(npc_gen.run_leg_program(prog, payload['config']))
            elif payload['kind'] == 'c02x':     # streams of harness/c02_linalg.py (C02 only)
                import c02_linalg
                progress = None
                if prog_path and prog.get('kind2') == 'wrap':       # tensor programs run through kind c02x: position of a hard crash
                    def progress(k, o, sc, pi=pi, ops=None):
                        with open(prog_path, 'w') as f:
                            json.dump({'program': pi, 'step': k, 'op': o, 'struct': sc, 'ops': ops or []}, f)
                out.append(c02_linalg.run_case(prog, payload['config'], progress))
            else:
                R = npc_gen.ProgramRunner(prog, payload['config'])
                if prog_path:
                    def progress(k, o, sc, R=R, pi=pi):
                        with open(prog_path, 'w') as f:
                            json.dump({'program': pi, 'step': k, 'op': o, 'struct': sc, 'ops': R.ops}, f)
                    R.progress = progress
                out.append(R.run())
        except Exception:
            out.append({'seed': prog.get('seed'), 'ops': [], 'fails': [{'prop': 'runner', 'key': 'runner:crash', 'what': traceback.format_exc()[-1500:],
                                                                   'step': -1, 'config': payload['config']}], 'coq': [], 'stats': {}, 'nsteps': 0})
        if partial_path and (pi % 20 == 19 or pi == len(payload['programs']) - 1):
            with open(partial_path + '.tmp', 'w') as f:
                json.dump({'info': info, 'results': out}, f)
            os.replace(partial_path + '.tmp', partial_path)
    json.dump({'info': info, 'results': out}, open(sys.argv[2], 'w'))


if __name__ == '__main__':
    main()
