"""Runs the programs / kernel calls / tiny algorithm runs of harness/c04.py in ONE configuration of tenpy
(pure Python or compiled, decided by the environment set up by common.run_impl) and serialises everything
observable.  Also used as a library by c03_impl.py (build_case / run_step / observe)."""
import hashlib
import json
import os
import sys
import traceback
import warnings

import numpy as np

warnings.simplefilter('ignore')

import tenpy  # noqa: E402
import tenpy.linalg.np_conserved as npc  # noqa: E402
from tenpy.linalg import charges as chg  # noqa: E402
from tenpy.tools import optimization  # noqa: E402


# ------------------------------------------------------------------------------------------------
# building objects from specs
# ------------------------------------------------------------------------------------------------

class Env:
    def __init__(self, case):
        self.chinfo = npc.ChargeInfo(list(case['mods']), ['q%d' % i for i in range(len(case['mods']))])
        self.pool = []
        nq = len(case['mods'])
        for l in case['pool']:
            slices = np.concatenate([[0], np.cumsum(l['sizes'])]).astype(np.intp)
            ch = np.array(l['charges'], dtype=np.int64).reshape(len(l['sizes']), nq)
            leg = npc.LegCharge(self.chinfo, slices, ch, l['qconj'])
            if l.get('claim'):
                leg.sorted = bool(leg.is_sorted())
                leg.bunched = bool(leg.is_bunched())
            self.pool.append(leg)
        self.chinfo2 = None      # a DIFFERENT ChargeInfo (same mod, other names): spec['chinfo'] == 'other' (error classes)
        self.pool2 = {}
        self.case = case
        self.regs = []
        self.ext = []            # [(ndarray handed to tenpy, copy taken before)]: buffers owned by the caller

    def leg(self, t):
        assert t[0] == 'L'
        l = self.pool[t[1]]
        return l if t[2] == 1 else l.conj()

    def leg2(self, t):
        if self.chinfo2 is None:
            self.chinfo2 = npc.ChargeInfo(list(self.case['mods']), ['other%d' % i for i in range(len(self.case['mods']))])
        if t[1] not in self.pool2:
            l = self.case['pool'][t[1]]
            slices = np.concatenate([[0], np.cumsum(l['sizes'])]).astype(np.intp)
            ch = np.array(l['charges'], dtype=np.int64).reshape(len(l['sizes']), len(self.case['mods']))
            self.pool2[t[1]] = npc.LegCharge(self.chinfo2, slices, ch, l['qconj'])
        l = self.pool2[t[1]]
        return l if t[2] == 1 else l.conj()

    def array(self, spec):
        legs = [(self.leg2(t) if spec.get('chinfo') == 'other' else self.leg(t)) for t in spec['legs']]
        dt = np.dtype(spec['dtype'])
        a = npc.Array(legs, dt, np.array(spec['qtotal'], dtype=np.int64), list(spec['labels']))
        data, qd = [], []
        for b in spec['blocks']:
            shape = [int(l.slices[q + 1] - l.slices[q]) for l, q in zip(legs, b['q'])]
            v = np.array(b['re'], dtype=np.float64)
            if b['im'] is not None:
                v = v + 1j * np.array(b['im'], dtype=np.float64)
            data.append(relayout(np.ascontiguousarray(v.reshape(shape).astype(dt)), spec.get('layout')))
            qd.append(b['q'])
        a._data = data
        a._qdata = np.array(qd, dtype=np.intp).reshape(len(qd), len(legs))
        a._qdata_sorted = False
        return a


def relayout(blk, layout):
    """the same block values in another memory layout: 'F' (Fortran order: what np.transpose of a whole buffer gives),
    'strided' (a sub-view WITH GAPS of a larger buffer: what take_slice / a[:, i, :] give); None: C-contiguous"""
    if layout == 'F':
        return np.asfortranarray(blk)
    if layout == 'strided':
        big = np.full([2 * n + 1 for n in blk.shape], -77, dtype=blk.dtype)
        view = big[tuple(slice(1, 2 * n + 1, 2) for n in blk.shape)]
        view[...] = blk
        return view
    return blk


def layout_stats(a):
    """[number of blocks that are not C-contiguous, number of blocks whose elements do not fill one memory range (gaps)]"""
    nc = gaps = 0
    for b in a._data:
        if isinstance(b, np.ndarray) and b.size > 1:
            if not b.flags['C_CONTIGUOUS']:
                nc += 1
            lo, hi = _byte_bounds(b)
            if hi - lo != b.size * b.itemsize:
                gaps += 1
    return [nc, gaps]


def scalar(s):
    if isinstance(s, list) and s[0] == 'b':                  # a python bool
        return bool(s[1])
    if isinstance(s, list) and s[0] == 'f':                  # ['f', 'nan' | 'inf' | '-inf']
        return float(s[1])
    if isinstance(s, list) and s[0] == 'raw':                # NOT a scalar (error classes of the prefactor argument)
        return {'array0d': np.array(2.0), 'array1': np.array([2.0]), 'list': [2.0], 'none': None, 'str': 'x'}[s[1]]
    if isinstance(s, list) and s[0] == 'n':                  # ['n', dtype, re, im]: a numpy scalar (strongly typed)
        dt = np.dtype(s[1])
        return dt.type(complex(s[2], s[3])) if dt.kind == 'c' else dt.type(s[2])
    if isinstance(s, list):
        return complex(s[1], s[2])
    return s


UNARY = {'real': np.real, 'imag': np.imag, 'abs': np.abs, 'sqrt': np.sqrt, 'conj': np.conj, 'negative': np.negative,
         'square': np.square, 'asfortran': np.asfortranarray}


def index_arg(spec):
    """index expression of a getitem/setitem step: per axis an int, 'all', 'ell', ['s', lo, hi, step], ['m', bools], ['i', ints]"""
    out = []
    for x in spec:
        if x == 'all':
            out.append(slice(None))
        elif x == 'ell':
            out.append(Ellipsis)
        elif isinstance(x, list) and x[0] == 's':
            out.append(slice(x[1], x[2], x[3]))
        elif isinstance(x, list) and x[0] == 'm':
            out.append(np.array(x[1], dtype=bool))
        elif isinstance(x, list) and x[0] == 'i':
            out.append(np.array(x[1], dtype=np.intp))
        else:
            out.append(int(x))
    return tuple(out)


# ------------------------------------------------------------------------------------------------
# observation (canonical, JSON)
# ------------------------------------------------------------------------------------------------

def num_list(x):
    x = np.asarray(x)
    if np.iscomplexobj(x):
        return [[float(v.real), float(v.imag)] for v in x.ravel()]
    return [float(v) for v in x.ravel()]


def obs_leg(l, deep=True):
    o = {'slices': [int(x) for x in l.slices], 'charges': np.asarray(l.charges).tolist(), 'qconj': int(l.qconj),
         'sorted': bool(l.sorted), 'bunched': bool(l.bunched), 'ind_len': int(l.ind_len), 'bn': int(l.block_number),
         'cls': type(l).__name__}
    if isinstance(l, chg.LegPipe):
        o['pipe'] = {'q_map': np.asarray(l.q_map).tolist(), 'q_map_slices': np.asarray(l.q_map_slices).tolist(),
                     'perm': None if l._perm is None else np.asarray(l._perm).tolist(),
                     'strides': np.asarray(l._strides).tolist(), 'subqshape': [int(x) for x in l.subqshape],
                     'subshape': [int(x) for x in l.subshape],
                     'legs': [obs_leg(s) for s in l.legs] if deep else None}
    return o


def obs_scalar(x):
    x = np.asarray(x)
    return {'k': 'scalar', 'dtype': str(x.dtype), 'v': num_list(x), 'shape': list(x.shape)}


def obs_array(a, dense=True):
    qd = np.asarray(a._qdata)
    rows = [tuple(int(x) for x in r) for r in qd]
    order = sorted(range(len(rows)), key=lambda i: rows[i])
    blocks = []
    for i in order:
        b = a._data[i]
        blocks.append([list(rows[i]), list(b.shape), num_list(b), str(b.dtype)])
    lex = True
    if len(rows) > 1 and qd.shape[1] > 0:
        srt = np.lexsort(qd.T)
        lex = bool(np.all(srt == np.arange(len(rows))))
    o = {'k': 'arr', 'dtype': str(a.dtype), 'labels': list(a._labels), 'qtotal': [int(x) for x in a.qtotal],
         'shape': [int(x) for x in a.shape], 'rank': int(a.rank), 'legs': [obs_leg(l) for l in a.legs],
         'blocks': blocks, 'dup_rows': len(set(rows)) != len(rows),
         'sorted_claim_true': (not a._qdata_sorted) or lex,
         'qdata_ok': bool(qd.ndim == 2 and qd.shape == (len(a._data), a.rank) and qd.dtype == np.intp)}
    try:
        a.test_sanity()
        o['sanity'] = None
    except Exception as e:
        o['sanity'] = type(e).__name__
    return o


def observe(x):
    if x is None:
        return {'k': 'none'}
    if isinstance(x, Failed):
        return {'k': 'failed'}
    if isinstance(x, npc.Array):
        return obs_array(x)
    if isinstance(x, chg.LegCharge):
        o = obs_leg(x)
        o['k'] = 'leg'
        return o
    if isinstance(x, tuple):
        return {'k': 'tuple', 'items': [observe(y) for y in x]}
    if isinstance(x, (list,)):
        return {'k': 'list', 'items': [observe(y) for y in x]}
    return obs_scalar(x)


class Failed:
    pass


# ------------------------------------------------------------------------------------------------
# dense oracle (numpy only; decides which side is wrong when the configurations differ)
# ------------------------------------------------------------------------------------------------

def dense(a):
    """dense array from the stored blocks, written here (sum of embedded blocks), not Array.to_ndarray"""
    out = np.zeros([l.ind_len for l in a.legs], dtype=np.result_type(a.dtype, *[b.dtype for b in a._data]))
    for b, q in zip(a._data, a._qdata):
        sl = tuple(slice(int(l.slices[qi]), int(l.slices[qi + 1])) for l, qi in zip(a.legs, q))
        out[sl] += b
    return out


def close(x, y):
    x, y = np.asarray(x), np.asarray(y)
    if x.shape != y.shape:
        return False
    tol = 1e-4 if any(str(z.dtype) in ('float32', 'complex64') for z in (x, y)) else 1e-10
    return bool(np.all(np.abs(x - y) <= tol * (1 + np.abs(y))))


def idx(a, axes):
    return [a.get_leg_index(x) for x in axes]


def dense_expect(st, R, before):
    """expected dense result of step st from the dense operands taken before the step; None: not covered"""
    op = st['op']
    A = before.get(st.get('a'))
    B = before.get(st.get('b'))
    a = R[st['a']] if 'a' in st else None
    b = R[st['b']] if 'b' in st else None
    if op in ('tensordot', 'w_tensordot'):
        ax = st['axes']
        if isinstance(ax, int):
            return np.tensordot(A, B, axes=ax)
        ax = [x if isinstance(x, list) else [x] for x in ax]
        return np.tensordot(A, B, axes=(idx(a, ax[0]), idx(b, ax[1])))
    if op in ('inner', 'w_inner'):
        ax = st['axes']
        if ax == 'labels':
            return None
        if ax == 'range':
            ax = [list(range(A.ndim)), list(range(A.ndim))]
        AA = np.conj(A) if st['do_conj'] else A
        return np.tensordot(AA, B, axes=(idx(a, ax[0]), idx(b, ax[1])))
    if op in ('add', 'sub', 'iadd', 'isub', 'iadd_prefactor_other'):
        if a.get_leg_labels() != b.get_leg_labels():
            la, lb = a.get_leg_labels(), b.get_leg_labels()
            if None in la or None in lb or set(la) != set(lb) or len(set(la)) != len(la):
                return None
            B = np.transpose(B, [lb.index(l) for l in la])
        s = {'add': 1, 'iadd': 1, 'sub': -1, 'isub': -1}.get(op)
        if s is None:
            s = scalar(st['s'])
        return A + s * B
    if op in ('scale', 'rscale', 'iscale', 'iscale_prefactor'):
        return A * scalar(st['s'])
    if op in ('div', 'idiv'):
        return A / scalar(st['s'])
    if op == 'neg':
        return -A
    if op == 'getitem' and all(x == 'all' or isinstance(x, int) or (isinstance(x, list) and x[0] == 's') for x in st['idx']):
        return A[index_arg(st['idx'])]
    if op == 'take_slice':
        sl = [slice(None)] * A.ndim
        for i, ax in zip(st['indices'], idx(a, st['axes'])):
            sl[ax] = int(i)
        return A[tuple(sl)]
    if op == 'from_ndarray_strided':
        return A
    if op == 'iproject':
        return np.compress(np.array(st['mask'], dtype=bool), A, axis=st['_axis_idx'])
    if op in ('transpose', 'itranspose'):
        return np.transpose(A, st.get('_axes_idx'))
    if op in ('conj', 'iconj'):
        return np.conj(A)
    if op in ('copy_deep', 'copy_shallow'):
        return A
    if op == 'astype':
        return None
    return None


# ------------------------------------------------------------------------------------------------
# steps
# ------------------------------------------------------------------------------------------------

INPLACE = {'iadd', 'isub', 'iadd_prefactor_other', 'iscale', 'iscale_prefactor', 'itranspose', 'iconj',
           'imake_contiguous', 'idiv', 'iunary', 'setitem', 'iproject', 'isort_qdata'}


def direct_combine(a, groups):
    """the standard-form prelude of Array.combine_legs, then the worker itself (always, also for 0/1 blocks
    only when the public function would call it)"""
    groups = [a.get_leg_indices(g) for g in groups]
    pipes = a._combine_legs_make_pipes(groups, None, None)
    combine_legs = [np.asarray(g, dtype=np.intp) for g in groups]
    all_cl = np.concatenate(combine_legs)
    new_axes, transp = a._combine_legs_new_axes(combine_legs, None)
    if transp != tuple(range(a.rank)) or a.stored_blocks < 2:
        return a.combine_legs(groups)
    labels = [(l if l is not None else '?' + str(i)) for i, l in enumerate(a._labels)]
    non_combined = np.array([x for x in range(a.rank) if x not in all_cl], dtype=np.intp)
    legs = [a.legs[ax] for ax in non_combined]
    for na, p in zip(new_axes, pipes):
        legs.insert(na, p)
    non_new = np.array([i for i in range(len(legs)) if i not in new_axes], dtype=np.intp)
    for na, p, cl in zip(new_axes, pipes, combine_legs):
        labels[na:na + p.nlegs] = [a._combine_leg_labels([labels[c] for c in cl])]
    res = npc.Array(legs, a.dtype, a.qtotal, labels)
    npc._combine_legs_worker(a, res, combine_legs, non_combined, np.array(new_axes, np.intp), non_new, pipes)
    return res


def run_step(env, st):
    """execute one step; returns the new register value (None for in-place operations)"""
    R = env.regs
    op = st['op']
    a = R[st['a']] if 'a' in st else None
    b = R[st['b']] if 'b' in st else None
    if isinstance(a, Failed) or isinstance(b, Failed):
        raise SkipStep()
    if op == 'new':
        return env.array(st['spec'])
    if op == 'tensordot':
        ax = st['axes']
        if st.get('axes_np') and isinstance(ax, int):
            ax = np.int64(ax)
        return npc.tensordot(a, b, axes=ax if isinstance(ax, (int, np.integer)) else (ax[0], ax[1]))
    if op == 'w_tensordot':
        ax = st['axes']
        if st.get('axes_np') and isinstance(ax, int):
            ax = np.int64(ax)
        a2, b2, n = npc._tensordot_transpose_axes(a, b, ax if isinstance(ax, (int, np.integer)) else (ax[0], ax[1]))
        if n == a2.rank and n == b2.rank:
            w = npc._inner_worker(a2, b2, False)
        elif n == 0 or a2.stored_blocks < 1 or b2.stored_blocks < 1 or (a2.stored_blocks == 1 and b2.stored_blocks == 1):
            w = None
        else:
            w = npc._tensordot_worker(a2, b2, n)
        return (a2, b2, int(n), w)
    if op == 'inner':
        ax = st['axes']
        return npc.inner(a, b, axes=ax if isinstance(ax, str) else (ax[0], ax[1]), do_conj=st['do_conj'])
    if op == 'w_inner':
        return npc._inner_worker(a, b, st['do_conj'])
    if op == 'combine':
        kw = {}
        if st.get('new_axes') is not None:
            kw['new_axes'] = st['new_axes']
        if st.get('qconj') is not None:
            kw['qconj'] = st['qconj']
        if st.get('pipes') is not None:
            # pipes made by the caller (documented option `pipes`): unsorted / unbunched pipes reach the worker only this way
            kw['pipes'] = [a.make_pipe(g, qconj=o['qconj'], sort=o['sort'], bunch=o['bunch']) for g, o in zip(st['groups'], st['pipes'])]
        return a.combine_legs(st['groups'], **kw)
    if op == 'w_combine':
        return direct_combine(a, st['groups'])
    if op == 'split':
        return a.split_legs(st['axes'], cutoff=st['cutoff'])
    if op == 'w_split':
        axes = [i for i, l in enumerate(a.legs) if isinstance(l, chg.LegPipe)]
        if not axes:
            raise SkipStep()
        return npc._split_legs_worker(a, axes, st['cutoff'])
    if op == 'add':
        return a + b
    if op == 'sub':
        return a - b
    if op == 'iadd':
        a += b
        return None
    if op == 'isub':
        a -= b
        return None
    if op == 'iadd_prefactor_other':
        if 'b_raw' in st:            # an operand that is not an Array (error class)
            b = {'ndarray': np.ones(a.shape), 'float': 2.0, 'none': None}[st['b_raw']]
        a.iadd_prefactor_other(scalar(st['s']), b)
        return None
    if op == 'isort_qdata':
        a.isort_qdata()
        return None
    if op == 'scale':
        return a * scalar(st['s'])
    if op == 'rscale':
        return scalar(st['s']) * a
    if op == 'div':
        return a / scalar(st['s'])
    if op == 'iscale':
        a *= scalar(st['s'])
        return None
    if op == 'iscale_prefactor':
        a.iscale_prefactor(scalar(st['s']))
        return None
    if op == 'transpose':
        return a.transpose(st['axes'])
    if op == 'itranspose':
        a.itranspose(st['axes'])
        return None
    if op == 'conj':
        return a.conj()
    if op == 'iconj':
        a.iconj()
        return None
    if op == 'copy_deep':
        return a.copy(deep=True)
    if op == 'copy_shallow':
        return a.copy(deep=False)
    if op == 'astype':
        return a.astype(np.dtype(st['dtype']))
    if op == 'make_pipe':
        return a.make_pipe(st['axes'], qconj=st['qconj'], sort=st['sort'], bunch=st['bunch'])
    if op == 'sort_legcharge':
        perm, res = a.sort_legcharge(sort=st['sort'], bunch=st['bunch'])
        return res
    if op == 'imake_contiguous':
        a._imake_contiguous()
        return None
    if op == 'idiv':
        a /= scalar(st['s'])
        return None
    if op == 'neg':
        return -a
    if op == 'iunary':
        a.iunary_blockwise(UNARY[st['f']])
        return None
    if op == 'unary':
        return a.unary_blockwise(UNARY[st['f']])
    if op == 'complex_conj':
        return a.complex_conj()
    if op == 'norm':
        return a.norm(st.get('ord'))
    if op == 'getitem':
        return a[index_arg(st['idx'])]
    if op == 'setitem':
        a[index_arg(st['idx'])] = scalar(st['s'])
        return None
    if op == 'take_slice':
        return a.take_slice(st['indices'], st['axes'])
    if op == 'squeeze':
        return a.squeeze() if st.get('axes') is None else a.squeeze(st['axes'])
    if op == 'iproject':
        a.iproject(np.array(st['mask'], dtype=bool), st['axis'])
        return None
    if op == 'from_ndarray_strided':
        # the dense form of register a, handed to from_ndarray as a strided sub-view of a larger buffer owned by the caller
        flat = dense(a)
        big = np.full([2 * n + 1 for n in flat.shape], 5, dtype=flat.dtype)
        view = big[tuple(slice(1, 2 * n + 1, 2) for n in flat.shape)]
        view[...] = flat
        env.ext.append((big, big.copy()))
        return npc.Array.from_ndarray(view, a.legs, dtype=a.dtype, qtotal=a.qtotal, labels=a.get_leg_labels())
    raise ValueError('unknown op ' + op)


class SkipStep(Exception):
    pass


# ---- hidden aliasing and side effects: observables of a step beyond its result
# A result that secretly is a view of (or the same buffer as) a block of an operand is indistinguishable by value
# until a LATER in-place operation writes through it.  Therefore after every step (a) the relation "tensors i and j
# own blocks with common memory" over ALL live tensors and (b) the set of live tensors whose observable value changed
# during the step are recorded; harness/c04.py diffs both between the configurations.

def _byte_bounds(b):
    lo = hi = int(b.ctypes.data)
    for n, s in zip(b.shape, b.strides):
        if s < 0:
            lo += (n - 1) * s
        else:
            hi += (n - 1) * s
    return lo, hi + b.itemsize


def share_pairs(groups):
    """groups: {key: [ndarray...]} -> sorted list of pairs [k1, k2] (k1 < k2) owning blocks with at least one common byte"""
    iv = []
    for k, blocks in groups.items():
        for b in blocks:
            if isinstance(b, np.ndarray) and b.size > 0:
                lo, hi = _byte_bounds(b)
                iv.append((lo, hi, k, b))
    iv.sort(key=lambda t: (t[0], t[1]))
    out = set()
    active = []
    for lo, hi, k, b in iv:
        active = [t for t in active if t[1] > lo]
        for lo2, hi2, k2, b2 in active:
            pair = (min(k, k2), max(k, k2))
            if k2 != k and pair not in out:
                try:
                    sh = bool(np.shares_memory(b, b2, max_work=100000))
                except Exception:
                    sh = True
                if sh:
                    out.add(pair)
        active.append((lo, hi, k, b))
    return [list(p) for p in sorted(out)]


def value_fp(a):
    """fingerprint of the observable value of a tensor (block set, entries, dtype, labels, qtotal, leg charges); used only
    to compare a tensor with ITSELF at an earlier time in the same interpreter"""
    h = hashlib.sha1()
    try:
        qd = np.asarray(a._qdata)
        rows = [tuple(int(x) for x in r) for r in qd]
        for i in sorted(range(len(rows)), key=lambda i: rows[i]):
            b = np.asarray(a._data[i])
            h.update(repr((rows[i], b.shape, str(b.dtype))).encode())
            h.update(np.ascontiguousarray(b).tobytes())
        h.update(repr((str(a.dtype), list(a._labels), [int(x) for x in a.qtotal], int(a.rank))).encode())
        for l in a.legs:
            h.update(np.ascontiguousarray(l.charges).tobytes() + np.ascontiguousarray(l.slices).tobytes() + bytes([l.qconj % 256]))
    except Exception as e:
        h.update(('BROKEN:' + type(e).__name__).encode())
    return h.hexdigest()[:16]


def live_arrays(env):
    return {i: r for i, r in enumerate(env.regs) if isinstance(r, npc.Array)}


def run_program(case):
    # case['optimize']: the global optimization level during the program (3 = skip_arg_checks: valid programs only)
    with optimization.temporary_level(case.get('optimize')):
        return _run_program(case)


def _run_program(case):
    env = Env(case)
    out = []
    fps = {}
    for st in case['steps']:
        rec = {}
        before = {}
        for key in ('a', 'b'):
            if key in st and isinstance(env.regs[st[key]], npc.Array):
                try:
                    before[st[key]] = dense(env.regs[st[key]])
                except Exception:
                    pass
        st = dict(st)
        pre = {}
        for key in ('a', 'b'):
            x = env.regs[st[key]] if key in st else None
            if isinstance(x, npc.Array):
                pre[key] = {'labels': list(x._labels), 'nblocks': len(x._data), 'dtype': str(x.dtype), 'rank': int(x.rank), 'shape': [int(n) for n in x.shape],
                            'zero_size': any(bool(np.any(np.diff(l.slices) == 0)) for l in x.legs),
                            'layout': layout_stats(x)}
        rec['pre'] = pre
        if st['op'] == 'iproject' and 'a' in pre:
            try:
                st['_axis_idx'] = env.regs[st['a']].get_leg_index(st['axis'])
            except Exception:
                pass
        if st['op'] in ('transpose', 'itranspose') and st.get('axes') is not None and 'a' in pre:
            try:
                st['_axes_idx'] = idx(env.regs[st['a']], st['axes'])
            except Exception:
                pass
        try:
            res = run_step(env, st)
            for x in (res if isinstance(res, tuple) else (res,)):
                if isinstance(x, npc.Array) and (int(np.prod(x.shape)) > 40000 or x.rank > 6):
                    raise SkipStep()            # keeps the serialised observations small; same rule in both configurations
            rec['res'] = observe(res)
            if st['op'] in INPLACE:
                rec['recv'] = observe(env.regs[st['a']])
            # dense verdict
            try:
                tgt = env.regs[st['a']] if st['op'] in INPLACE else res
                if st['op'] == 'w_tensordot':
                    tgt = res[3]
                exp = dense_expect(st, env.regs, before) if ('a' not in st or st['a'] in before) else None
                if exp is None or tgt is None:
                    rec['dense_ok'] = None
                else:
                    got = dense(tgt) if isinstance(tgt, npc.Array) else np.asarray(tgt)
                    rec['dense_ok'] = close(got, exp)
            except Exception as e:
                rec['dense_ok'] = None
                rec['dense_err'] = type(e).__name__ + ': ' + str(e)[:80]
        except SkipStep:
            res = Failed()
            rec['skipped'] = True
        except Exception as e:
            res = Failed()
            rec['error'] = type(e).__name__
            rec['msg'] = str(e)[:160]
        env.regs.append(res)
        # observables beyond the result: which OTHER live tensors changed their value, which pairs share block memory
        live = live_arrays(env)
        try:
            now = {i: value_fp(r) for i, r in live.items()}
            target = st.get('a') if st['op'] in INPLACE else None
            changed = sorted(i for i in fps if i in now and now[i] != fps[i] and i != target)
            rec['changed'] = changed
            if target is not None:
                rec['target'] = target
            side = {str(i): observe(live[i]) for i in changed}
            if side:
                rec['side_effects'] = side
            fps = now
            rec['shares'] = share_pairs({i: list(r._data) for i, r in live.items()})
            if env.ext:
                # buffers owned by the caller (arguments of from_ndarray): changed by tenpy? shared with a live tensor?
                rec['ext_changed'] = [k for k, (buf, orig) in enumerate(env.ext) if not np.array_equal(buf, orig)]
                grp = {i: list(r._data) for i, r in live.items()}
                grp.update({-1 - k: [buf] for k, (buf, orig) in enumerate(env.ext)})
                rec['ext_shares'] = [pr for pr in share_pairs(grp) if pr[0] < 0]
        except Exception as e:
            rec['alias_err'] = type(e).__name__ + ': ' + str(e)[:120]
        out.append(rec)
    final =[observe(r) if isinstance(r, npc.Array) else None for r in env.regs]
    return {'steps': out, 'final': final}


# ------------------------------------------------------------------------------------------------
# direct kernel calls
# ------------------------------------------------------------------------------------------------

def other_layout(x, how):
    """the same int64 values as a strided view of a larger array / in Fortran order"""
    if how == 'F':
        return np.asfortranarray(x)
    big = np.full([2 * n + 1 for n in x.shape], -99, dtype=x.dtype)
    view = big[tuple(slice(1, 2 * n + 1, 2) for n in x.shape)]
    view[...] = x
    return view


def run_kernel(c):
    f = c['f']
    if f in ('make_valid', 'check_valid'):
        ci = npc.ChargeInfo(list(c['mods']))
        ch = c['charges']
        if ch is not None:
            nq = len(c['mods'])
            if c.get('as') == 'array':
                ch = np.array(ch, dtype=np.int64).reshape(c['shape'])
            elif c.get('as') == 'array32':
                ch = np.array(ch, dtype=np.int32).reshape(c['shape'])
            elif c.get('as') == 'tuple':
                ch = tuple(tuple(r) if isinstance(r, list) else r for r in ch)
            elif c.get('as') in ('strided', 'F'):
                ch = other_layout(np.array(ch, dtype=np.int64).reshape(c['shape']), c['as'])
        arg_before = None if ch is None else np.array(ch, copy=True)
        if f == 'make_valid':
            r = ci.make_valid(ch)
            out = {'v': np.asarray(r).tolist(), 'dtype': str(np.asarray(r).dtype), 'shape': list(np.asarray(r).shape)}
        else:
            arg = np.array(ch, dtype=np.int64).reshape(c['shape'])
            if c.get('as') in ('strided', 'F'):
                arg = other_layout(arg, c['as'])
            r = ci.check_valid(arg)
            out = {'v': bool(r)}
        if isinstance(ch, np.ndarray):
            out['arg_unchanged'] = bool(np.array_equal(ch, arg_before))
        return out
    if f == 'find_row_differences':
        q = np.array(c['q'], dtype=np.int64).reshape(c['shape'])
        if c.get('as') in ('strided', 'F'):
            q = other_layout(q, c['as'])
        r = chg._find_row_differences(q)
        return {'v': [int(x) for x in r], 'dtype': str(r.dtype)}
    if f == 'map_blocks':
        r = chg._map_blocks(np.array(c['bs'], dtype=np.intp))
        return {'v': [int(x) for x in r], 'dtype': str(np.asarray(r).dtype)}
    if f == 'make_stride':
        shape = list(c['shape'])
        if c.get('as') == 'tuple':
            shape = tuple(shape)
        elif c.get('as') == 'ndarray':
            shape = np.array(shape, dtype=np.intp)
        r = chg._make_stride(shape, c['cstyle'])
        return {'v': [int(x) for x in r], 'dtype': str(r.dtype)}
    if f == 'sliced_copy':
        dt = np.dtype(c['dtype'])
        dest = np.arange(int(np.prod(c['dshape'])), dtype=np.float64).reshape(c['dshape']).astype(dt) * -1
        src = (np.arange(int(np.prod(c['sshape'])), dtype=np.float64).reshape(c['sshape']) + 1).astype(dt)
        if dt.kind == 'c':
            src = src * (1 + 2j)
        src0 = src.copy()
        db = None if c['dbeg'] is None else np.array(c['dbeg'], dtype=np.intp)
        sb = None if c['sbeg'] is None else np.array(c['sbeg'], dtype=np.intp)
        chg._sliced_copy(dest, db, src, sb, np.array(c['sl'], dtype=np.intp))
        # independent expectation by plain slicing
        exp = np.arange(int(np.prod(c['dshape'])), dtype=np.float64).reshape(c['dshape']).astype(dt) * -1
        dsl = tuple(slice(i, i + d) for i, d in zip(c['dbeg'] or [0] * len(c['sl']), c['sl']))
        ssl = tuple(slice(i, i + d) for i, d in zip(c['sbeg'] or [0] * len(c['sl']), c['sl']))
        exp[dsl] = src0[ssl]
        return {'v': num_list(dest), 'ok': bool(np.array_equal(dest, exp)), 'src_unchanged': bool(np.array_equal(src, src0))}
    if f == 'pipe':
        ci = npc.ChargeInfo(list(c['mods']))
        nq = len(c['mods'])
        legs = []
        for l in c['legs']:
            slices = np.concatenate([[0], np.cumsum(l['sizes'])]).astype(np.intp)
            legs.append(npc.LegCharge(ci, slices, np.array(l['charges'], dtype=np.int64).reshape(len(l['sizes']), nq), l['qconj']))
        p = npc.LegPipe(legs, qconj=c['qconj'], sort=c['sort'], bunch=c['bunch'])
        o = obs_leg(p, deep=False)
        # independent facts about a pipe (documented in the class docstring)
        qm = np.asarray(p.q_map)
        ok = True
        bs = [l.get_block_sizes() for l in legs]
        for row in qm:
            size = int(np.prod([bs[i][row[3 + i]] for i in range(len(legs))]))
            ok &= int(row[1] - row[0]) == size
            tot = sum(l.qconj * np.asarray(l.charges)[row[3 + i]] for i, l in enumerate(legs)) * c['qconj'] if nq else np.zeros(0, int)
            ok &= bool(np.all(ci.make_valid(tot) == np.asarray(p.charges)[row[2]])) if nq else True
        ok &= int(p.ind_len) == int(np.prod([l.ind_len for l in legs]))
        o['pipe_facts_ok'] = bool(ok)
        return o
    if f == 'merge':
        return run_merge(c)
    if f == 'itrans':
        return run_itrans(c)
    raise ValueError(f)


# ---- tie of Model/KernelsPyCy2.v iadd_merge_* : what the two-pointer loop of iadd_prefactor_other sees and does

MARK = 1024


def run_merge(c):
    """a.iadd_prefactor_other(1., b) observed from outside: the lexsorted _qdata tables the loop works on, the
    resulting _qdata and which operand(s) contributed each output row (marker values in the blocks)"""
    env = Env(c)
    a = env.array(c['a'])
    b = env.array(c['b'])
    if c.get('raw'):
        # kernel-level case: the tables stay in generated (unsorted) order, the sorted flag is forced, so that
        # the loop itself (not isort_qdata) is observed on arbitrary tables
        a._qdata_sorted = True
        b._qdata_sorted = True
    else:
        a.isort_qdata()
        b.isort_qdata()
    for i, blk in enumerate(a._data):
        blk[...] = i + 1
    for j, blk in enumerate(b._data):
        blk[...] = MARK * (j + 1)
    aq = np.asarray(a._qdata).tolist()
    bq = np.asarray(b._qdata).tolist()
    shape = [int(l.block_number) for l in a.legs]
    a.iadd_prefactor_other(1., b)
    q = np.asarray(a._qdata).tolist()
    tags = []
    ok = len(a._data) == len(q)
    for blk in a._data:
        v = np.asarray(blk).ravel()
        if v.size == 0 or not np.all(v == v[0]) or v[0] != int(v[0]):
            ok = False
            tags.append([3, 0, 0])
            continue
        x = int(v[0])
        i, j = x % MARK - 1, x // MARK - 1
        tags.append([0, i, j] if (i >= 0 and j >= 0) else ([1, i, 0] if i >= 0 else [2, 0, j]))
    out = {'aq': aq, 'bq': bq, 'shape': shape, 'q': q, 'tags': tags, 'ok': bool(ok),
           'b_unchanged': np.asarray(b._qdata).tolist() == bq and all(bool(np.all(x == MARK * (j + 1))) for j, x in enumerate(b._data)),
           'sorted_flag': bool(a._qdata_sorted), 'dtype': str(a.dtype)}
    # the sum must own its blocks: no common memory with the second operand, and a later in-place operation on the sum
    # (what Lanczos / the mixers do with the result) leaves the operand alone
    out['shares_b'] = bool(share_pairs({0: list(a._data), 1: list(b._data)}))
    a.iscale_prefactor(2.)
    out['b_unchanged_after_scale'] = np.asarray(b._qdata).tolist() == bq and \
        all(bool(np.all(x == MARK * (j + 1))) for j, x in enumerate(b._data))
    return out


# ---- tie of Model/KernelsPyCy3.v itranspose_* : the full state before and after Array.itranspose

def _lab_code(l):
    if l is None:
        return None
    if l == '':
        return 0
    return 1 + ITR_LABELS.index(l)


ITR_LABELS = ['a', 'b', 'c', 'd', 'e', 'f', 'g', 'h', 'p', 'q', 'a*', 'b*', 'c*']


def _arr_state(a, legids):
    blocks = []
    for blk in a._data:
        blk = np.asarray(blk)
        base = blk
        while base.base is not None and isinstance(base.base, np.ndarray):
            base = base.base
        item = blk.itemsize
        if base.flags['C_CONTIGUOUS'] and base.ctypes.data == blk.ctypes.data and all(s % item == 0 and s >= 0 for s in blk.strides):
            buf = base.ravel()
            strides = [int(s // item) for s in blk.strides]
        else:                                      # not expected: describe a contiguous copy
            buf = np.ascontiguousarray(blk).ravel()
            strides = [int(np.prod(blk.shape[k + 1:])) for k in range(blk.ndim)]
        if np.any(buf != np.round(buf)):
            raise ValueError('non-integer entries')
        blocks.append([[int(x) for x in buf], [int(x) for x in blk.shape], strides])
    return {'legs': [legids.get(id(l), 999) for l in a.legs], 'labels': [_lab_code(l) for l in a._labels],
            'qdata': np.asarray(a._qdata).reshape(len(a._data), -1).tolist() if len(a._data) else [],
            'blocks': blocks, 'sorted': bool(a._qdata_sorted), 'shape': [int(x) for x in a.shape],
            'qdata_contig': bool(np.asarray(a._qdata).flags['C_CONTIGUOUS'])}


def _arr_obs(a, legids):
    """layout-free observables (compared between the configurations)"""
    return {'legs': [legids.get(id(l), 999) for l in a.legs], 'labels': list(a._labels),
            'qdata': np.asarray(a._qdata).tolist(), 'blocks': [[list(b.shape), num_list(b)] for b in a._data],
            'sorted': bool(a._qdata_sorted), 'shape': [int(x) for x in a.shape]}


def run_itrans(c):
    env = Env(c)
    a = env.array(c['a'])
    if c.get('sort_first'):
        a.isort_qdata()
    if c.get('pre_axes') is not None:
        a.itranspose(c['pre_axes'])                # python: strided views as input of the observed call
    if c.get('force_labels') is not None:
        a._labels = list(c['force_labels'])        # breaks the class invariant on purpose (duplicated label)
    legids = {id(l): 10 + k for k, l in enumerate(a.legs)}
    pre = _arr_state(a, legids)
    axes = c['axes']
    axes_idx = None
    if axes is not None:
        try:
            axes_idx = [int(x) for x in a.get_leg_indices(axes)]
        except ValueError:
            axes_idx = [int(x) if isinstance(x, int) and x >= 0 else 99 for x in axes]
    else:
        axes_idx = list(reversed(range(a.rank)))
    out = {'pre': pre, 'axes_idx': axes_idx, 'pre_obs': _arr_obs(a, legids)}
    try:
        r = a.itranspose(axes)
        out['returns_self'] = r is a
        out['post'] = _arr_state(a, legids)
        out['post_obs'] = _arr_obs(a, legids)
    except ValueError as e:
        out['post'] = None
        out['error'] = 'ValueError'
        out['post_obs'] = _arr_obs(a, legids)
    return out


# ------------------------------------------------------------------------------------------------
# tiny algorithm runs
# ------------------------------------------------------------------------------------------------

def run_algo(c):
    from tenpy.networks.mps import MPS
    kind = c['kind']
    if kind in ('dmrg', 'tebd'):
        if c['model'] == 'xxz':
            from tenpy.models.xxz_chain import XXZChain
            M = XXZChain({'L': c['L'], 'Jxx': 1.0, 'Jz': c['Jz'], 'hz': c.get('hz', 0.0), 'bc_MPS': 'finite',
                          'conserve': c.get('conserve', 'Sz')})
            state = (['up', 'down'] * c['L'])[:c['L']]
        else:
            from tenpy.models.tf_ising import TFIChain
            M = TFIChain({'L': c['L'], 'J': 1.0, 'g': c['g'], 'bc_MPS': 'finite', 'conserve': c.get('conserve', 'parity')})
            state = ['up'] * c['L']
        psi = MPS.from_product_state(M.lat.mps_sites(), state, bc='finite')
        if kind == 'dmrg':
            from tenpy.algorithms import dmrg
            eng = dmrg.TwoSiteDMRGEngine(psi, M, {'trunc_params': {'chi_max': 16, 'svd_min': 1e-12}, 'max_sweeps': 6,
                                                  'mixer': c.get('mixer', False), 'min_sweeps': 2})
            E, psi = eng.run()
            H = M.calc_H_MPO()
            out = {'E': float(E), 'E_mpo': float(np.real(H.expectation_value(psi)))}
        else:
            from tenpy.algorithms import tebd
            eng = tebd.TEBDEngine(psi, M, {'dt': 0.05, 'N_steps': c['steps'], 'order': c.get('order', 2),
                                           'trunc_params': {'chi_max': 16, 'svd_min': 1e-12}})
            eng.run()
            out = {'E': float(np.real(np.sum(M.bond_energies(psi))))}
        out['S'] = [float(x) for x in psi.entanglement_entropy()]
        out['chi'] = [int(x) for x in psi.chi]
        out['Sz'] = [float(x) for x in np.real(psi.expectation_value('Sz' if c['model'] == 'xxz' else 'Sigmaz'))]
        out['legs'] = [[obs_leg(l) for l in psi.get_B(i).legs] for i in range(psi.L)]
        # exact reference by dense diagonalisation (the oracle)
        if kind == 'dmrg':
            from tenpy.algorithms.exact_diag import ExactDiag
            ed = ExactDiag(M, charge_sector=None)
            ed.build_full_H_from_mpo()
            ed.full_diagonalization()
            if c['model'] == 'xxz' and c.get('conserve', 'Sz') == 'Sz':
                # ground state within the Sz sector of the initial state
                sec = psi.get_total_charge()
                ed2 = ExactDiag(M, charge_sector=sec)
                ed2.build_full_H_from_mpo()
                ed2.full_diagonalization()
                out['E_exact'] = float(np.min(ed2.E))
            else:
                out['E_exact'] = float(np.min(ed.E))
        return out
    raise ValueError(kind)


AUX_HOOK = None          # callable run in the forked child after its cases; its JSON result is collected by the parent
AUX_COLLECTED = []       # (coverage counters of harness/impl/c04_cov.py; None for the other users of isolated_all)


def _child(f, cases):
    r, w = os.pipe()
    pid = os.fork()
    if pid == 0:
        os.close(r)
        try:
            out = []
            for c in cases:
                try:
                    out.append(f(c))
                except Exception:
                    out.append({'runner_error': traceback.format_exc()[-1500:]})
            aux = None
            if AUX_HOOK is not None:
                try:
                    aux = AUX_HOOK()
                except Exception:
                    aux = {'aux_error': traceback.format_exc()[-800:]}
            with os.fdopen(w, 'w') as fh:
                json.dump({'__out__': out, '__aux__': aux}, fh)
        finally:
            os._exit(0)
    os.close(w)
    with os.fdopen(r) as fh:
        txt = fh.read()
    _, status = os.waitpid(pid, 0)
    if os.WIFSIGNALED(status):
        return None, int(os.WTERMSIG(status))
    try:
        doc = json.loads(txt)
        if doc.get('__aux__') is not None:
            AUX_COLLECTED.append(doc['__aux__'])
        return doc['__out__'], None
    except Exception:
        return None, -1


def isolated_all(f, cases, batch=25):
    """run f on every case in forked children (batches; a batch that dies is repeated case by case) so that a
    crash of the interpreter (SIGFPE/SIGSEGV inside the compiled extension) is an observable result
    {'crash': signal} instead of the loss of the whole run"""
    res = []
    for i in range(0, len(cases), batch):
        part = cases[i:i + batch]
        out, sig = _child(f, part)
        if out is not None and len(out) == len(part):
            res.extend(out)
            continue
        for c in part:
            out, sig = _child(f, [c])
            res.append(out[0] if out else {'crash': sig})
    return res


def main():
    payload = json.load(open(sys.argv[1]))
    kind = payload['kind']
    cov_info = None
    c04_cov = None
    if payload.get('cov'):
        # transparent input recorders around every function with a compiled twin (+ line recording of the Python twins)
        global AUX_HOOK
        import c04_cov
        cov_info = {'install_problems': c04_cov.install()}
        if not optimization.have_cython_functions:
            cov_info['lines'] = c04_cov.start_lines()
        AUX_HOOK = lambda: {'tags': c04_cov.take(), 'lines': c04_cov.LINES.take()}      # noqa: E731
    fs = {'programs': run_program, 'kernels': run_kernel, 'algos': run_algo}
    if kind == 'mixed':
        def one(kc):
            if cov_info is not None:
                c04_cov.STREAM[0] = kc[2] if len(kc) > 2 else kc[0]
            return fs[kc[0]](kc[1])
        res = isolated_all(one, payload['cases'], batch=20)
    else:
        res = isolated_all(fs[kind], payload['cases'])
    info = {'have_cython': bool(optimization.have_cython_functions), 'tenpy_file': tenpy.__file__}
    if cov_info is not None:
        tags, lines = {}, {}
        for aux in AUX_COLLECTED:
            c04_cov.merge(tags, aux.get('tags'))
            for k, v in (aux.get('lines') or {}).items():
                lines[k] = sorted(set(lines.get(k, [])) | set(v))
            if 'aux_error' in aux:
                cov_info.setdefault('aux_errors', []).append(aux['aux_error'])
        cov_info['tags'] = tags
        cov_info['lines_hit'] = lines
        info['cov'] = cov_info
    try:
        if optimization.have_cython_functions:
            from tenpy.linalg import _npc_helper
            info['so'] = os.path.realpath(_npc_helper.__file__)
            info['so_sha'] = hashlib.sha256(open(info['so'], 'rb').read()).hexdigest()[:16]
        pyx = os.path.join(os.path.dirname(os.path.realpath(npc.__file__)), '_npc_helper.pyx')
        info['pyx_sha'] = hashlib.sha256(open(pyx, 'rb').read()).hexdigest()[:16]
        info['npc_file'] = os.path.realpath(npc.__file__)
    except Exception as e:
        info['info_error'] = str(e)
    json.dump({'info': info, 'results': res}, open(sys.argv[2], 'w'))


if __name__ == '__main__':
    main()
