"""C02 - streams added by the coverage audit (kind 'c02x' of the shared runner, dispatched by harness/c02_linalg.run_case):

  apiopts   documented OPTIONS of public operations of np_conserved that the tensor programs leave at their defaults and branches the line
            recording showed unreached: from_ndarray(raise_wrong_sector=False, warn_wrong_sector, cutoff, dtype), from_ndarray_trivial(dtype),
            from_func(func_kwargs) / from_func_square(dtype, func_kwargs, shape_kw), add_charge(chinfo) / drop_charge(chinfo) /
            change_charge(new_name, chinfo), apply_charge_mapping(func_args, func_kwargs, inplace) incl. shallow-copy siblings,
            shift_charges(_horizontal) for a trivial shift, split_legs() without pipes / split_legs(cutoff), iswapaxes(i, i),
            (i)binary_blockwise / (i)unary_blockwise with extra arguments and dtype-changing functions on every dtype pair
            (int64 / float32 / float64 / complex64 / complex128), ipurge_zeros(cutoff, norm_order), combine_legs(pipes=[conjugated pipe]),
            nested pipes (labels with nested brackets), tensordot without common blocks / axes=int, addition of partially labelled tensors,
            grid_concat of a 1D grid / copy=False, grid_outer(qtotal), detect_grid_outer_legcharge(qtotal, qconj, bunch) -> grid_outer,
            detect_legcharge(cutoff), svd(qtotal_LR both given, cutoff, compute_uv=False), qr / lq(cutoff, pos_diag), eigh(UPLO, sort) / eig(sort),
            pinv(cutoff), polar(cutoff, inner_labels), speigs, orthogonal_columns, pickle / copy round trips and the two legacy states of
            Array.__setstate__, a sample of all this at optimization level skip_arg_checks.
  dipolar   charges.DipolarChargeInfo: legs, tensors, shift_charges / shift_charges_horizontal (ChargeInfo, LegCharge via
            apply_charge_mapping, Array; inplace and copy; trivial and non-trivial shifts), results used in later operations.
  legops    every leg-returning method of LegCharge / LegPipe / ChargeInfo with its options, on legs of every class, in histories; every
            returned leg is used in a tensor afterwards (zeros / from_func / sort_legcharge / tensordot with its conjugate).

Every returned or in-place modified object goes through npc_gen.check_array_invariants / check_leg_invariants + harness/c02_depth.deep_*;
every result is used again (as an operand of a later operation, through a second accessor, after a copy)."""
import copy
import pickle
import random
import traceback
import warnings

import numpy as np

import npc_gen as G
import c02_depth as D

QT = G.QT
DTYPES = ('int64', 'float32', 'float64', 'complex64', 'complex128')
LEG_STRATA = ('sorted+blocked', 'blocked-not-sorted', 'bunched-not-blocked', 'not-bunched', 'empty-block', 'qconj=-1', 'single-block', 'random')


# =====================================================================================================================
# generation (harness side, numpy only)
# =====================================================================================================================

def rand_charge_row(rng, mods):
    return [rng.randint(-2, 2) if m == 1 else rng.randrange(m) for m in mods]


def forced_leg(rng, mods, cls, maxn=6):
    """reference leg (npc_gen.RLeg) of a prescribed class (when the charge structure allows it)"""
    q = len(mods)
    distinct = []
    for _ in range(60):
        c = rand_charge_row(rng, mods)
        if c not in distinct:
            distinct.append(c)
        if len(distinct) >= 4:
            break
    distinct.sort(key=G.lex_key)
    qconj = rng.choice([1, -1])
    if cls == 'single-block' or len(distinct) < 2:
        ch = [distinct[0]]
    elif cls == 'sorted+blocked':
        ch = distinct[:rng.randint(2, len(distinct))]
    elif cls == 'blocked-not-sorted':
        ch = distinct[:rng.randint(2, len(distinct))]
        ch = ch[1:] + ch[:1]
    elif cls == 'bunched-not-blocked':
        ch = [distinct[0], distinct[1], distinct[0]] + ([distinct[1]] if rng.random() < 0.3 else [])
    elif cls == 'not-bunched':
        ch = [distinct[1], distinct[1], distinct[0]] if rng.random() < 0.5 else [distinct[0], distinct[0], distinct[1], distinct[0]]
    elif cls == 'empty-block':
        ch = distinct[:rng.randint(2, len(distinct))]
    elif cls == 'qconj=-1':
        ch = [rng.choice(distinct) for _ in range(rng.randint(2, 4))]
        qconj = -1
    else:
        return G.gen_leg_rich(rng, mods, maxn) if rng.random() < 0.5 else G.gen_leg(rng, mods, maxn)
    sizes = [rng.choice([1, 1, 2, 2, 3]) for _ in ch]
    if cls == 'empty-block':
        sizes[rng.randrange(len(sizes))] = 0
        if sum(sizes) == 0:
            sizes[0] = 1
    while sum(sizes) > maxn and max(sizes) > 1:
        sizes[sizes.index(max(sizes))] -= 1
    return G.RLeg(np.concatenate([[0], np.cumsum(sizes)]).astype(int), np.array(ch, dtype=QT).reshape(len(ch), q), qconj, q)


def gen_case(rng, kind, index):
    import c02_linalg as X
    case = {'kind2': kind, 'seed': rng.randrange(1 << 30), 'index': index}
    if kind == 'dipolar':
        # charges: [N (U1 or Z_n), dipole of N along x (, along y) (, an unrelated charge)]
        dim = rng.choice([1, 1, 2])
        modN = rng.choice([1, 1, 1, 4, 6])
        # (documented restrictions: the qmod of a dipole charge divides the qmod of its charge; no U(1) dipole along a dimension > 0)
        moddip = [(1 if d == 0 else rng.choice([2, 3, 4])) if modN == 1 else rng.choice([modN, modN // 2 if modN % 2 == 0 else modN]) for d in range(dim)]
        mods = [modN] + moddip
        extra = rng.random() < 0.3
        if extra:
            mods.append(rng.choice([1, 2, 3]))
        case.update(mods=mods, names=['N'] + ['P%d' % d for d in range(dim)] + (['X'] if extra else []), dim=dim,
                    charge_idcs=[0] * dim, dipole_idcs=list(range(1, dim + 1)), dipole_dims=list(range(dim)))
        case['legs'] = [forced_leg(rng, mods, LEG_STRATA[(index + k) % len(LEG_STRATA)], 4).spec() for k in range(3)]
        case['dx'] = [rng.randint(-2, 2) for _ in range(dim)] + [rng.choice([0, 0, 1, -1])]
        if index % 5 == 0:
            case['dx'] = [0] * (dim + 1)
        if index % 5 == 1:
            case['dx'][-1] = 0
            case['dx'][0] = case['dx'][0] or 1
        return case
    stratum = LEG_STRATA[index % len(LEG_STRATA)]
    if stratum == 'single-block' and index % 3 == 0:
        mods, names = [], []
    elif index % 4 == 1:
        mods = [1, rng.choice([3, 4, 5])] if rng.random() < 0.7 else [rng.choice([3, 5]), 1, 2]
        names = rng.sample(['N', 'Sz', 'P', 'K'], len(mods)) if rng.random() < 0.6 else [''] * len(mods)
    else:
        mods, names = X.gen_mods(rng, 0.5)
        while not mods:
            mods, names = X.gen_mods(rng, 0.5)
    case.update(mods=mods, names=names, stratum=stratum)
    pool = [forced_leg(rng, mods, stratum, 5)] + [forced_leg(rng, mods, rng.choice(LEG_STRATA), 4) for _ in range(3)]
    case['legs'] = [l.spec() for l in pool]
    case['dtypes'] = [DTYPES[(index + k) % len(DTYPES)] for k in range(3)]
    case['optlevel3'] = (index % 6 == 5)
    case['nsteps'] = rng.randint(3, 7)
    return case


def stratify_pool(prog, index, rng):
    """force the class of the first leg of the pool of a tensor program (header of npc_gen.make_program) by the program index"""
    cls = LEG_STRATA[index % len(LEG_STRATA)]
    if cls in ('random', 'single-block') or not prog['mods'] or index % 2:
        return
    prog['pool'][0] = forced_leg(rng, prog['mods'], cls, 3 if prog.get('maxrank', 4) > 4 else 5).spec()


def extra_cases(rng, n):
    """n = {'apiopts': .., 'dipolar': .., 'legops': ..}"""
    out = []
    for kind in ('apiopts', 'dipolar', 'legops'):
        out += [gen_case(rng, kind, i) for i in range(n.get(kind, 0))]
    return out


# =====================================================================================================================
# execution (fresh interpreter)
# =====================================================================================================================

class Abort(Exception):
    pass


class Run:
    """one case: tenpy objects, random generators, the oracle"""

    def __init__(self, case, R):
        import c02_linalg as X
        self.X = X
        self.case, self.R = case, R
        self.npc = G._npc()
        self.mods = list(case['mods'])
        self.q = len(self.mods)
        self.env = G.Env(self.mods, case['names'], 4)
        self.rng = random.Random(case['seed'])
        self.nrng = np.random.RandomState(case['seed'] % (2 ** 31))
        self.live = []      # (tensor, dense or None, mods): operands stay under observation until the end of the item
        self.p_reuse = 0.4  # probability that a result is fed into the later operations of `reuse`

    # ---- oracle
    def inv(self, x, opname, cond=None, role='result', mods=None, watch=None, dense=None):
        watch = (opname == 'tensor') if watch is None else watch       # operands stay under observation; results only when asked for
        R = self.R
        m = self.mods if mods is None else mods
        ok = R.inv(x, opname, cond, role, mods=m)      # (base oracle + harness/c02_depth.deep_array)
        if ok:
            for c in D.classes_of_array(x, [t for t, _, _ in self.live]):
                R.stat('in:%s|%s' % (opname, c))
            if dense is not None:
                self.dense_is(x, dense, opname, cond)
            if watch:
                self.live.append((x, None if dense is None else np.array(dense), m))
        return ok

    def inv_leg(self, leg, opname, cond=None, role='result', mods=None):
        R = self.R
        m = self.mods if mods is None else mods
        ok = R.inv_leg(leg, opname, cond, role, mods=m)
        bad = []
        if ok:
            for c in D.classes_of_leg(leg) | set(D.chinfo_classes(m)):
                R.stat('in:%s|%s' % (opname, c))
        return ok and not bad

    def dense_is(self, x, want, opname, cond, prop='C01', tol=None):
        got = np.asarray(x.to_ndarray())
        want = np.asarray(want)
        if tol is None:
            tol = 1e-4 if (x.dtype.itemsize // (2 if x.dtype.kind == 'c' else 1)) <= 4 else 1e-10
        if got.shape != want.shape or (got.size and float(np.max(np.abs(got - want))) > tol * (1. + float(np.max(np.abs(want))))):
            self.R.fail(prop, opname, cond, 'wrong-values', 'dense form differs from the documented result (shape %s vs %s, max deviation %.3g)' % (
                got.shape, want.shape, float(np.max(np.abs(got - want))) if got.shape == want.shape and got.size else -1))
            return False
        return True

    def qt_is(self, x, want, opname, cond, how, mods=None):
        m = self.mods if mods is None else mods
        want = G.mv(m, np.asarray(want, dtype=QT).reshape(len(m)))
        if not np.array_equal(np.asarray(x.qtotal), want):
            self.R.fail('C02', opname, cond, 'qtotal', 'qtotal %s, documented (%s) %s' % (np.asarray(x.qtotal).tolist(), how, want.tolist()))
            return False
        return True

    def recheck_live(self, opname, cond=None):
        """every tensor under observation is still consistent and has the values it had (operands are documented to be unchanged)"""
        for x, dense, m in self.live[-6:]:
            bad = []
            try:
                bad = G.check_array_invariants(x, m) + D.deep_array(x, m)
            except Exception as e:
                bad = [('invariant-check-raises', '%s: %s' % (type(e).__name__, str(e)[:100]))]
            if bad:
                self.R.fail('C02', opname, cond, 'operand-invariant-broken', 'after %s another live tensor is inconsistent: %s: %s' % (opname, bad[0][0], bad[0][1]))
                self.live = [t for t in self.live if t[0] is not x]
                continue
            if dense is not None:
                got = np.asarray(x.to_ndarray())
                if got.shape != dense.shape or (got.size and float(np.max(np.abs(got - dense))) > 1e-6 * (1. + float(np.max(np.abs(dense))))):
                    self.R.fail('C03', opname, cond, 'operand-changed', 'after %s another live tensor changed its values' % opname)
                    self.live = [t for t in self.live if t[0] is not x]

    def call(self, opname, cond, f, *a, **kw):
        self.R.api(opname)
        try:
            with warnings.catch_warnings():
                warnings.simplefilter('ignore')
                return f(*a, **kw)
        except Exception as e:
            self.R.fail('C02', opname, cond, 'raises-' + type(e).__name__, '%s\n%s' % (str(e)[:150], traceback.format_exc()[-700:]))
            raise Abort()

    # ---- objects
    def rleg(self, i):
        return G.leg_from_spec(self.case['legs'][i % len(self.case['legs'])], self.q)

    def leg(self, r):
        return G.mk_leg(self.env, r.spec())

    def tensor(self, rlegs, labels=None, dtype='float64', qt=None, p_missing=None, shuffle=True):
        """random valid tensor over the reference legs: per allowed block data / stored zeros / missing, rows of _qdata possibly unsorted
        returns (tensor, dense, qtotal)"""
        env, rng, npc = self.env, self.rng, self.npc
        if p_missing is not None:
            env.p_missing = [p_missing]
        if qt is None:
            qt = G.pick_qtotal(rng, env, rlegs)
        o = G.OpInit.gen_from(rng, env, rlegs, labels or [None] * len(rlegs), np.asarray(qt, dtype=QT))
        env.p_missing = None
        v = G.dec_vec(o['values'])
        dt = np.dtype(dtype)
        if dt.kind == 'c':
            im = np.array([rng.randint(-2, 2) for _ in range(v.size)], dtype=float).reshape(v.shape)
            v = np.where(v != 0, v.real + 1j * im, 0.)
        else:
            v = v.real
        v = v + 0.      # no negative zeros (np.angle / np.sign of -0.0 differ from those of an entry that is not stored)
        legs = [self.leg(l) for l in rlegs]
        x = npc.Array.from_ndarray(v.astype(dt), legs, dt, o['qtotal'], labels=o['labels'])
        keep = [i for i, row in enumerate(x._qdata) if o['blocks'].get(','.join(str(int(t)) for t in row), 'data') != 'missing']
        if shuffle and o['shuffle'] is not None:
            random.Random(o['shuffle']).shuffle(keep)
        x._data = [x._data[i] for i in keep]
        x._qdata = np.array(x._qdata[keep], dtype=np.intp, order='C').reshape(len(keep), x.rank)
        x._qdata_sorted = G.rows_sorted(x._qdata) and not (shuffle and o['shuffle'] is not None)
        dense = np.array(v.astype(dt))       # (the values of blocks that are not stored / stored as zeros are zero already)
        return x, dense, np.asarray(o['qtotal'], dtype=QT).reshape(self.q)

    def allowed(self, rlegs, qt):
        return self.X.allowed_mask(rlegs, self.mods, qt)

    def reuse(self, x, dense, opname, cond, mods=None):
        """the result as an operand of later operations (a false claim is harmless until an operation trusts it)"""
        m = self.mods if mods is None else mods
        name = opname + '->'
        if self.rng.random() > self.p_reuse:
            return
        degenerate = any(0 in np.diff(np.asarray(l.slices)).tolist() or l.ind_len == 0 for l in x.legs)
        try:
            y = x + x
            if self.inv(y, name + 'add', cond, mods=m, watch=False) and dense is not None:
                self.dense_is(y, 2 * np.asarray(dense), name + 'add', cond)
            c = x.copy(deep=True)
            c.isort_qdata()
            self.inv(c, name + 'copy.isort_qdata', cond, mods=m, watch=False, dense=dense)
            perm, s = x.sort_legcharge(True, True)
            self.inv(s, name + 'sort_legcharge', cond, mods=m, watch=False)
            if not degenerate and x.rank <= 3:
                if all(l is not None for l in x._labels):
                    n2 = self.npc.inner(x, x.conj(), axes='labels', do_conj=False)      # pairs every label with its conjugated label
                else:
                    n2 = self.npc.inner(x, x.conj(), axes=[list(range(x.rank))] * 2, do_conj=False)
                if dense is not None:
                    want = np.sum(np.abs(np.asarray(dense).astype(complex)) ** 2)
                    if abs(complex(n2) - want) > 1e-4 * (1 + abs(want)):
                        self.R.fail('C01', name + 'inner', cond, 'wrong-values', 'inner(x, conj(x)) = %r, dense form gives %r' % (complex(n2), want))
                t = self.npc.tensordot(x, x.conj(), axes=[[0], [0]]) if x.rank >= 2 else None
                if t is not None and self.inv(t, name + 'tensordot', cond, mods=m, watch=False) and dense is not None:
                    d = np.asarray(dense)
                    self.dense_is(t, np.tensordot(d, d.conj(), axes=[[0], [0]]), name + 'tensordot', cond)
        except Exception as e:
            self.R.fail('C02', name + 'later-operation', cond, 'raises-' + type(e).__name__, '%s\n%s' % (str(e)[:150], traceback.format_exc()[-600:]))


def guarded_item(run, name, f):
    run.R.op(name)
    try:
        f(run)
    except Abort:
        pass
    except Exception:
        run.R.fail('runner', name, None, 'crash', traceback.format_exc()[-1500:])
    run.recheck_live(name)


# ---------------------------------------------------------------------------------------------------------------------
# apiopts
# ---------------------------------------------------------------------------------------------------------------------

def item_constructors(S):
    npc, rng, nrng, R = S.npc, S.rng, S.nrng, S.R
    rl = [S.rleg(0), S.rleg(1)]
    legs = [S.leg(l) for l in rl]
    qt = G.pick_qtotal(rng, S.env, rl)
    al = S.allowed(rl, qt)
    dt = np.dtype(S.case['dtypes'][0])
    D_ = (nrng.randint(1, 4, size=al.shape) * nrng.choice([-1, 1], size=al.shape)).astype(dt)       # no zero entry: wrong sectors are occupied
    for warn in (True, False):
        cond = 'raise_wrong_sector=False,warn_wrong_sector=%s,%s' % (warn, dt)
        x = S.call('np_conserved.Array.from_ndarray', cond, npc.Array.from_ndarray, D_, legs, qtotal=qt, raise_wrong_sector=False, warn_wrong_sector=warn, labels=['a', 'b'])
        if S.inv(x, 'Array.from_ndarray', cond, dense=np.where(al, D_, 0)) and S.qt_is(x, qt, 'Array.from_ndarray', cond, 'requested'):
            if x.dtype != dt:
                R.fail('C02', 'Array.from_ndarray', cond, 'dtype', 'dtype %s from a %s ndarray' % (x.dtype, dt))
            S.reuse(x, np.where(al, D_, 0), 'Array.from_ndarray', cond)
    # cutoff: blocks whose entries are all <= cutoff are not stored; dtype conversion
    Dc = np.where(al, D_, 0).astype(float) * 0.25
    want_dt = np.dtype(S.case['dtypes'][1]) if np.dtype(S.case['dtypes'][1]).kind != 'i' else np.dtype('float64')
    cond = 'cutoff,dtype=%s' % want_dt
    x = S.call('np_conserved.Array.from_ndarray', cond, npc.Array.from_ndarray, Dc, legs, dtype=want_dt, qtotal=qt, cutoff=0.5)
    if S.inv(x, 'Array.from_ndarray', cond):
        d = x.to_ndarray()
        stored = np.zeros(al.shape, dtype=bool)
        for row in x._qdata:
            stored[tuple(slice(int(l.slices[b]), int(l.slices[b + 1])) for l, b in zip(rl, row))] = True
        if x.dtype != want_dt or not np.allclose(d, np.where(stored, Dc, 0)) or np.any(np.abs(np.where(stored, 0, Dc)) > 0.5):
            R.fail('C02', 'Array.from_ndarray', cond, 'wrong-values', 'stored blocks differ from the flat array / a block with entries above the cutoff is missing / dtype %s' % x.dtype)
    # from_ndarray_trivial(dtype)
    cond = 'dtype=%s' % want_dt
    x = S.call('np_conserved.Array.from_ndarray_trivial', cond, npc.Array.from_ndarray_trivial, Dc, dtype=want_dt, labels=['a', 'b'])
    if S.inv(x, 'Array.from_ndarray_trivial', cond, mods=[], dense=Dc.astype(want_dt)) and x.dtype != want_dt:
        R.fail('C02', 'Array.from_ndarray_trivial', cond, 'dtype', 'dtype %s requested %s' % (x.dtype, want_dt))
    # from_func(func_kwargs), from_func_square(dtype, func_kwargs, shape_kw)
    cond = 'func_kwargs'
    x = S.call('np_conserved.Array.from_func', cond, npc.Array.from_func, np.full, legs, dtype=want_dt, qtotal=qt, func_kwargs={'fill_value': 3}, labels=['a', 'b'])
    if S.inv(x, 'Array.from_func', cond, dense=np.where(al, 3, 0).astype(want_dt)) and x.dtype != want_dt:
        R.fail('C02', 'Array.from_func', cond, 'dtype', 'dtype %s requested %s' % (x.dtype, want_dt))
    cond = 'dtype=%s,func_kwargs,shape_kw' % want_dt
    L = legs[0]
    x = S.call('np_conserved.Array.from_func_square', cond, npc.Array.from_func_square, np.full, L, dtype=want_dt, func_kwargs={'fill_value': 2}, shape_kw='shape', labels=['v', 'v*'])
    alsq = S.allowed([rl[0], rl[0].conj()], np.zeros(S.q, dtype=QT))
    if S.inv(x, 'Array.from_func_square', cond, dense=np.where(alsq, 2, 0).astype(want_dt)):
        if x.dtype != want_dt:
            R.fail('C02', 'Array.from_func_square', cond, 'dtype', 'dtype %s requested %s' % (x.dtype, want_dt))
        S.reuse(x, np.where(alsq, 2, 0).astype(want_dt), 'Array.from_func_square', cond)
    # zeros / ones / eye_like / diag with dtype and labels
    for fname in ('zeros', 'ones'):
        cond = 'dtype=%s' % dt
        x = S.call('np_conserved.' + fname, cond, getattr(npc, fname), legs, dt, qt, ['a', 'b'])
        if S.inv(x, fname, cond, dense=(al if fname == 'ones' else np.zeros(al.shape)).astype(dt)) and x.dtype != dt:
            R.fail('C02', fname, cond, 'dtype', 'dtype %s requested %s' % (x.dtype, dt))
    sdiag = nrng.randint(1, 4, size=rl[0].n)
    cond = 'dtype=%s' % dt
    x = S.call('np_conserved.diag', cond, npc.diag, sdiag, L, dtype=dt, labels=['v', 'v*'])
    if S.inv(x, 'diag', cond, dense=np.diag(sdiag).astype(dt)) and x.dtype != dt:
        R.fail('C02', 'diag', cond, 'dtype', 'dtype %s requested %s' % (x.dtype, dt))


def item_charges(S):
    """add_charge / drop_charge / change_charge with a given ChargeInfo, names; apply_charge_mapping; trivial shifts"""
    npc, rng, R = S.npc, S.rng, S.R
    rl = [S.rleg(0), S.rleg(2), S.rleg(1)][:rng.choice([2, 3])]
    x, dense, qt = S.tensor(rl, ['a', 'b', 'c'][:len(rl)], S.case['dtypes'][1])
    if not S.inv(x, 'tensor', None, dense=dense):
        return
    mods, q = S.mods, S.q
    # ---- add_charge(chinfo given | None, qtotal given); the added charges: a copy of the own legs (so that the same total charge fits)
    add_legs = [S.leg(l) for l in rl]
    for given in (True, False):
        ci = npc.ChargeInfo(list(mods) + list(mods), list(S.case['names']) + list(S.case['names'])) if given else None
        cond = 'chinfo=%s' % ('given' if given else 'None')
        y = S.call('np_conserved.Array.add_charge', cond, x.add_charge, add_legs, ci, qt)
        mm = list(mods) + list(mods)
        if S.inv(y, 'Array.add_charge', cond, mods=mm, dense=dense):
            S.qt_is(y, np.concatenate([qt, qt]), 'Array.add_charge', cond, 'concatenation', mods=mm)
            if given and y.chinfo is not ci:
                R.fail('C02', 'Array.add_charge', cond, 'chinfo', 'the result does not carry the ChargeInfo that was handed in')
            S.reuse(y, dense, 'Array.add_charge', cond, mods=mm)
            # and back: dropping the added charges gives a tensor over the original charges
            z = y
            for _ in range(q):
                z = z.drop_charge(len(z.chinfo.mod) - 1)
            if S.inv(z, 'Array.add_charge->drop_charge', cond, dense=dense):
                S.qt_is(z, qt, 'Array.add_charge->drop_charge', cond, 'qtotal of the remaining charges')
    # qtotal=None: documented 'derive it from non-zero entries'; raises on every input of the unchanged tree (assumption of C02): verified here
    if len(x._data) and q:
        R.api('np_conserved.Array.add_charge')
        try:
            with warnings.catch_warnings():
                warnings.simplefilter('ignore')
                y = x.add_charge(add_legs, None, None)
        except Exception:
            R.stat('add_charge(qtotal=None):raises')
        else:
            R.stat('add_charge(qtotal=None):returns')
            if S.inv(y, 'Array.add_charge', 'qtotal=None', mods=list(mods) + list(mods), dense=dense):
                S.qt_is(y, np.concatenate([qt, qt]), 'Array.add_charge', 'qtotal=None', 'detected', mods=list(mods) + list(mods))
    if not q:
        return
    # ---- drop_charge(charge int | name | None, chinfo given | None)
    k = rng.randrange(q)
    names = S.case['names']
    for given in (True, False):
        for charge in (k, names[k] if names[k] else k, None):
            keep = [] if charge is None else [j for j in range(q) if j != k]
            nm = [mods[j] for j in keep]
            ci = npc.ChargeInfo(nm, [names[j] for j in keep]) if given else None
            cond = 'charge=%s,chinfo=%s' % ('None' if charge is None else 'name' if isinstance(charge, str) else 'int', 'given' if given else 'None')
            y = S.call('np_conserved.Array.drop_charge', cond, x.drop_charge, charge, ci)
            if S.inv(y, 'Array.drop_charge', cond, mods=nm, dense=dense):
                S.qt_is(y, qt[keep], 'Array.drop_charge', cond, 'remaining charges', mods=nm)
                if given and (y.chinfo is not ci or any(l.chinfo is not ci for l in y.legs)):
                    R.fail('C02', 'Array.drop_charge', cond, 'chinfo', 'the result / its legs do not carry the ChargeInfo that was handed in')
                S.reuse(y, dense, 'Array.drop_charge', cond, mods=nm)
    # ---- change_charge(charge, new_qmod, new_name, chinfo given | None)
    m = mods[k]
    choices = [2, 3, 1] if m == 1 else [d for d in range(2, m + 1) if m % d == 0]       # (a subgroup: Z_N -> Z_d with d | N; U(1) -> anything)
    newmod = rng.choice(choices)
    nm = list(mods)
    nm[k] = newmod
    for given in (True, False):
        nn = list(names)
        nn[k] = 'new'
        ci = npc.ChargeInfo(nm, nn) if given else None
        cond = 'new_name,chinfo=%s' % ('given' if given else 'None')
        y = S.call('np_conserved.Array.change_charge', cond, x.change_charge, names[k] if names[k] and rng.random() < 0.5 else k, newmod, 'new', ci)
        if S.inv(y, 'Array.change_charge', cond, mods=nm, dense=dense):
            S.qt_is(y, qt, 'Array.change_charge', cond, 'qtotal modulo the new qmod', mods=nm)
            if list(y.chinfo.names)[k] != 'new':
                R.fail('C02', 'Array.change_charge', cond, 'chinfo', 'name of the changed charge is %r' % (list(y.chinfo.names)[k],))
            S.reuse(y, dense, 'Array.change_charge', cond, mods=nm)
    # ---- apply_charge_mapping(map_func, func_args, func_kwargs, inplace): negation / multiplication by a unit (homomorphisms of every Z_N, U(1))
    chinfo = S.env.chinfo

    def mapf(ch, fac=1, sign=1):
        return chinfo.make_valid(np.asarray(ch) * (fac * sign))
    for inplace in (False, True):
        for form in ('args', 'kwargs', 'plain'):
            fa, fk = ((-1,), {}) if form == 'args' else ((), {'sign': -1}) if form == 'kwargs' else ((), {})
            f = mapf if form != 'plain' else (lambda ch: chinfo.make_valid(-np.asarray(ch)))
            cond = 'inplace=%s,%s' % (inplace, form)
            a = x.copy(deep=False)          # a sibling that shares _data with x
            S.live.append((a, np.array(dense), S.mods))
            y = S.call('np_conserved.Array.apply_charge_mapping', cond, a.apply_charge_mapping, f, fa, fk, inplace)
            if inplace and y is not a:
                R.fail('C02', 'Array.apply_charge_mapping', cond, 'not-in-place', 'inplace=True returns another object')
            if inplace:
                S.live = [t for t in S.live if t[0] is not a]
            if S.inv(y, 'Array.apply_charge_mapping', cond, dense=dense):
                S.qt_is(y, -qt, 'Array.apply_charge_mapping', cond, 'map_func(qtotal)')
                for i, (l, r) in enumerate(zip(y.legs, rl)):
                    got = G.mv(mods, np.asarray(l.to_qflat()).reshape(l.ind_len, q))
                    if l.qconj != r.qconj or not np.array_equal(got, G.mv(mods, -r.qflat())):
                        R.fail('C02', 'Array.apply_charge_mapping', cond, 'leg-differs', 'leg %d: charges are not the mapped charges of the operand' % i)
                S.reuse(y, dense, 'Array.apply_charge_mapping', cond)
            S.recheck_live('Array.apply_charge_mapping', cond)
    # ---- shift_charges / shift_charges_horizontal of a ChargeInfo without dipole charges: documented to return the tensor itself
    for name, arg in (('shift_charges', [1, 0]), ('shift_charges_horizontal', 2)):
        for inplace in (False, True):
            cond = 'trivial-shift,inplace=%s' % inplace
            y = S.call('np_conserved.Array.' + name, cond, getattr(x, name), arg, inplace)
            if y is not x:
                R.fail('C02', 'Array.' + name, cond, 'not-the-same-instance', 'documented to return the same instance for a trivial mapping')
            S.inv(y, 'Array.' + name, cond, watch=False, dense=dense)
            got = getattr(chinfo, name)(np.asarray(x.legs[0].charges), arg)
            if not np.array_equal(got, np.asarray(x.legs[0].charges)):
                R.fail('C02', 'ChargeInfo.' + name, cond, 'charges-changed', 'shift of a ChargeInfo without dipole charges changes charges')
            R.api('charges.ChargeInfo.' + name)


def item_storage(S):
    """split_legs without pipes / cutoff, iswapaxes(i, i), ipurge_zeros options, (i)binary / (i)unary_blockwise on every dtype pair"""
    npc, rng, R = S.npc, S.rng, S.R
    rl = [S.rleg(0), S.rleg(1), S.rleg(3)][:rng.choice([2, 2, 3])]
    labels = ['a', 'b', 'c'][:len(rl)]
    x, dense, qt = S.tensor(rl, labels, S.case['dtypes'][0])
    if not S.inv(x, 'tensor', None, dense=dense):
        return
    y = S.call('np_conserved.Array.split_legs', 'no-pipe', x.split_legs)
    if y is x or (len(x._data) and y._data[0] is x._data[0]):
        R.fail('C02', 'Array.split_legs', 'no-pipe', 'not-a-copy', 'documented to return a copy')
    S.inv(y, 'Array.split_legs', 'no-pipe', dense=dense)
    a = x.copy(deep=True)
    i = rng.randrange(a.rank)
    y = S.call('np_conserved.Array.iswapaxes', 'axis1==axis2', a.iswapaxes, i, labels[i])
    if y is not a:
        R.fail('C02', 'Array.iswapaxes', 'axis1==axis2', 'not-in-place', 'returns another object')
    S.inv(a, 'Array.iswapaxes', 'axis1==axis2', dense=dense)
    # split_legs(cutoff) after combine_legs: blocks with max |entry| <= cutoff are dropped
    if x.rank >= 2:
        c = x.combine_legs([0, 1], qconj=rng.choice([1, -1]))
        if S.inv(c, 'Array.combine_legs', None):
            sc = S.call('np_conserved.Array.split_legs', 'cutoff', c.split_legs, [0], 1.5)
            if S.inv(sc, 'Array.split_legs', 'cutoff'):
                d = np.asarray(sc.to_ndarray())
                big = np.abs(dense) > 1.5
                if d.shape != dense.shape or np.any(d[big] != dense[big]) or np.any((d != 0) & (d != dense)):
                    R.fail('C01', 'Array.split_legs', 'cutoff', 'wrong-values', 'entries above the cutoff lost or entries changed')
                S.reuse(sc, None, 'Array.split_legs', 'cutoff')
    # ipurge_zeros(cutoff, norm_order) on a shallow copy
    for order in (None, np.inf, 1):
        if order is not None and x.rank > 2:
            continue
        a = x.copy(deep=False)
        cond = 'cutoff,norm_order=%s' % order
        y = S.call('np_conserved.Array.ipurge_zeros', cond, a.ipurge_zeros, 2.5, order)
        if S.inv(a, 'Array.ipurge_zeros', cond):
            d = np.asarray(a.to_ndarray())
            if np.any((d != 0) & (d != dense)) or (order == np.inf and x.rank == 1 and np.any(np.abs(dense[d == 0]) > 2.5)):
                R.fail('C01', 'Array.ipurge_zeros', cond, 'wrong-values', 'entries changed')
        S.recheck_live('Array.ipurge_zeros', cond)
    # ---- blockwise functions on every dtype pair
    for dt_other in S.case['dtypes'][1:]:
        o, odense, _ = S.tensor(rl, labels if rng.random() < 0.7 else None, dt_other, qt=qt)
        if not S.inv(o, 'tensor', None, dense=odense):
            continue
        if o.get_leg_labels() == labels and x.rank > 1 and rng.random() < 0.5:
            perm = list(range(x.rank))
            rng.shuffle(perm)
            o = o.transpose(perm)           # same labels in another order: documented to be transposed back
            S.inv(o, 'transpose', None, dense=odense.transpose(perm))
        pair = '%s,%s' % (x.dtype, o.dtype)
        funcs = [('np.add', np.add, (), {}, lambda a, b: a + b),
                 ('np.maximum', np.maximum, (), {}, None),
                 ('linear(args)', lambda a, b, fa, fb=1: fa * a + fb * b, (2,), {'fb': -1}, lambda a, b: 2 * a - b),
                 ('linear(complex-kwargs)', lambda a, b, fb=1: a + fb * b, (), {'fb': 0.5j}, lambda a, b: a + 0.5j * b),
                 ('np.true_divide-by-2', lambda a, b, den: np.true_divide(a + b, den), (2,), {}, lambda a, b: (a + b) / 2)]
        fname, f, fa, fk, ref = funcs[rng.randrange(len(funcs))]
        if fname == 'np.maximum' and (x.dtype.kind == 'c' or o.dtype.kind == 'c'):
            fname, f, fa, fk, ref = funcs[0]
        for inplace in (True, False):
            a = x.copy(deep=rng.random() < 0.5)
            S.live.append((a, np.array(dense), S.mods))
            meth = 'ibinary_blockwise' if inplace else 'binary_blockwise'
            cond = '%s,%s' % (fname, pair)
            y = S.call('np_conserved.Array.' + meth, cond, getattr(a, meth), f, o, *fa, **fk)
            if inplace:
                S.live = [t for t in S.live if t[0] is not a]
                if y is not a:
                    R.fail('C02', 'Array.' + meth, cond, 'not-in-place', 'returns another object')
            want = ref(dense, odense) if ref is not None else np.maximum(dense, odense)
            if S.inv(y, 'Array.' + meth, cond, dense=want):
                S.qt_is(y, qt, 'Array.' + meth, cond, 'unchanged')
                S.reuse(y, want, 'Array.' + meth, cond)
            S.recheck_live('Array.' + meth, cond)
    # ---- unary functions that change the dtype
    ufuncs = [('np.real', np.real, (), {}), ('np.imag', np.imag, (), {}), ('np.abs', np.abs, (), {}), ('np.angle', np.angle, (), {}),
              ('np.multiply(args)', np.multiply, (1.5,), {}), ('np.multiply(complex)', np.multiply, (1j,), {}), ('np.round(kwargs)', np.round, (), {'decimals': 0}),
              ('astype(kwargs)', lambda b, dtype: b.astype(dtype), (), {'dtype': np.complex64}), ('np.conj', np.conj, (), {}), ('np.sign', np.sign, (), {})]
    rng.shuffle(ufuncs)
    for dtn in S.case['dtypes'][:2]:
        z, zdense, _ = S.tensor(rl, labels, dtn, qt=qt)
        if not S.inv(z, 'tensor', None, dense=zdense):
            continue
        for fname, f, fa, fk in ufuncs[:2]:
            if fname == 'np.sign' and z.dtype.kind == 'c':
                continue
            for inplace in (True, False):
                a = z.copy(deep=False)
                S.live.append((a, np.array(zdense), S.mods))
                meth = 'iunary_blockwise' if inplace else 'unary_blockwise'
                cond = '%s,%s' % (fname, z.dtype)
                y = S.call('np_conserved.Array.' + meth, cond, getattr(a, meth), f, *fa, **fk)
                if inplace:
                    S.live = [t for t in S.live if t[0] is not a]
                want = f(zdense, *fa, **fk)
                if S.inv(y, 'Array.' + meth, cond, dense=want):
                    if len(y._data) and y.dtype != np.asarray(want).dtype:
                        R.fail('C02', 'Array.' + meth, cond, 'dtype', 'dtype %s, numpy gives %s for the same function' % (y.dtype, np.asarray(want).dtype))
                    S.reuse(y, want, 'Array.' + meth, cond)
                S.recheck_live('Array.' + meth, cond)
    # ---- astype / scalar operations through the dtype ladder (in place: the array dtype and the block dtypes move together)
    for dtn in rng.sample(DTYPES, 2):
        a = x.copy(deep=False)
        cond = '%s->%s' % (x.dtype, dtn)
        if np.dtype(dtn).kind != 'c' and x.dtype.kind == 'c':
            continue
        for cp in (True, False):
            y = S.call('np_conserved.Array.astype', cond + ',copy=%s' % cp, a.astype, dtn, cp)
            if S.inv(y, 'Array.astype', cond, dense=dense.astype(dtn)) and y.dtype != np.dtype(dtn):
                R.fail('C02', 'Array.astype', cond, 'dtype', 'dtype %s' % y.dtype)
        for sname, s in rng.sample([('float', 0.5), ('complex', 1j), ('int', 2), ('np.float32', np.float32(0.5)), ('np.complex64', np.complex64(1j))], 2):
            b = y.copy(deep=True)
            cond2 = '%s*%s' % (dtn, sname)
            for how in ('imul', 'iscale_prefactor', 'itruediv', 'mul', 'rmul', 'iadd_prefactor_other'):
                c = b.copy(deep=True)
                try:
                    if how == 'imul':
                        c *= s
                        ref = dense.astype(dtn) * s
                    elif how == 'iscale_prefactor':
                        c.iscale_prefactor(s)
                        ref = dense.astype(dtn) * s
                    elif how == 'itruediv':
                        c /= s
                        ref = dense.astype(dtn) / s
                    elif how == 'mul':
                        c = c * s
                        ref = dense.astype(dtn) * s
                    elif how == 'rmul':
                        c = s * c
                        ref = dense.astype(dtn) * s
                    else:
                        c.iadd_prefactor_other(s, y)
                        ref = dense.astype(dtn) * (1 + s)
                except Exception as e:
                    R.fail('C02', 'Array.' + how, cond2, 'raises-' + type(e).__name__, str(e)[:150])
                    continue
                R.api('np_conserved.Array.' + {'imul': '__imul__', 'itruediv': '__itruediv__', 'mul': '__mul__', 'rmul': '__rmul__'}.get(how, how))
                if S.inv(c, 'Array.' + how, cond2, watch=False):
                    S.dense_is(c, ref, 'Array.' + how, cond2, tol=1e-4)
                    if c.dtype != np.asarray(ref).dtype and len(c._data):
                        R.fail('C02', 'Array.' + how, cond2, 'dtype', 'dtype %s, numpy gives %s for the same operation on the dense form' % (c.dtype, np.asarray(ref).dtype))


def item_pipes(S):
    """combine_legs with given (conjugated) pipes, nested pipes and their labels, tensordot without common blocks / axes=int, addition of
    partially labelled tensors, grids"""
    npc, rng, R = S.npc, S.rng, S.R
    rl = [S.rleg(0), S.rleg(1), S.rleg(2)]
    labels = ['a', 'b', 'c']
    x, dense, qt = S.tensor(rl, labels, S.case['dtypes'][2])
    if not S.inv(x, 'tensor', None, dense=dense):
        return
    legs = x.legs
    # ---- a pipe made for the conjugated legs is documented to be conjugated before use
    for so, bu in ((True, True), (False, True), (True, False), (False, False)):
        qc = rng.choice([1, -1])
        pipe = npc.LegPipe([legs[0].conj(), legs[1].conj()], qconj=qc, sort=so, bunch=bu)
        cond = 'pipes=conjugated-pipe,sort=%s,bunch=%s' % (so, bu)
        if not S.inv_leg(pipe, 'LegPipe', cond):
            continue
        chinfo = S.env.chinfo
        for form, (fa, fk) in (('args', ((-1,), {})), ('kwargs', ((), {'fac': -1}))):
            mp = S.call('charges.LegPipe.apply_charge_mapping', form, pipe.apply_charge_mapping, lambda ch, fac=1: chinfo.make_valid(np.asarray(ch) * fac), fa, fk)
            if S.inv_leg(mp, 'LegPipe.apply_charge_mapping', form) and not any(0 in np.diff(np.asarray(l.slices)).tolist() for l in mp.legs) and mp.ind_len:
                f2 = npc.Array.from_func(np.ones, [mp, mp.conj()])
                if S.inv(f2, 'LegPipe.apply_charge_mapping->from_func', form, watch=False):
                    S.inv(f2.split_legs(), 'LegPipe.apply_charge_mapping->split_legs', form, watch=False)
        y = S.call('np_conserved.Array.combine_legs', cond, x.combine_legs, [['a', 'b']], pipes=[pipe], new_axes=[rng.choice([0, 1])])
        if S.inv(y, 'Array.combine_legs', cond):
            S.qt_is(y, qt, 'Array.combine_legs', cond, 'unchanged')
            back = S.call('np_conserved.Array.split_legs', cond, y.split_legs)
            if S.inv(back, 'Array.combine_legs->split_legs', cond):
                S.dense_is(back.transpose(labels), dense, 'Array.combine_legs->split_legs', cond)
            S.reuse(y, None, 'Array.combine_legs', cond)
    # ---- nested pipes
    y = S.call('np_conserved.Array.combine_legs', 'nested', x.combine_legs, [['a', 'b']], qconj=[-1])
    if S.inv(y, 'Array.combine_legs', 'nested'):
        z = S.call('np_conserved.Array.combine_legs', 'nested', y.combine_legs, [[0, 1]], qconj=[1])
        if S.inv(z, 'Array.combine_legs', 'nested-outer'):
            if z.get_leg_labels() != ['((a.b).c)']:
                R.fail('C02', 'Array.combine_legs', 'nested', 'labels', 'labels %s' % z.get_leg_labels())
            S.reuse(z, None, 'Array.combine_legs', 'nested-outer')
            s1 = S.call('np_conserved.Array.split_legs', 'nested', z.split_legs)
            if S.inv(s1, 'Array.split_legs', 'nested-outer') and s1.get_leg_labels() == ['(a.b)', 'c']:
                s2 = S.call('np_conserved.Array.split_legs', 'nested', s1.split_legs, '(a.b)')
                if S.inv(s2, 'Array.split_legs', 'nested-inner', dense=dense) and s2.get_leg_labels() != labels:
                    R.fail('C02', 'Array.split_legs', 'nested', 'labels', 'labels %s' % s2.get_leg_labels())
            elif s1.get_leg_labels() != ['(a.b)', 'c']:
                R.fail('C02', 'Array.split_legs', 'nested', 'labels', 'labels %s' % s1.get_leg_labels())
    # ---- tensordot: operands that store blocks but share none; axes given as an integer
    rA, rB = [S.rleg(1), S.rleg(0)], [S.rleg(0).conj(), S.rleg(2)]
    A, Ad, qa = S.tensor(rA, ['p', 'k'], S.case['dtypes'][0], p_missing=0.5)
    B, Bd, qb = S.tensor(rB, ['k*', 'r'], S.case['dtypes'][1], p_missing=0.5)
    degenerate = any(0 in l.sizes() or l.n == 0 for l in rA + rB)
    if S.inv(A, 'tensor', None, dense=Ad) and S.inv(B, 'tensor', None, dense=Bd) and not degenerate:
        for variant in ('as-generated', 'no-common-block'):
            A2, B2, Ad2, Bd2 = A, B, Ad, Bd
            if variant == 'no-common-block' and len(A._data) and len(B._data):
                # keep in B only the blocks whose contracted index block is not stored in A (or drop those blocks from A)
                ka = {int(r[1]) for r in A._qdata}
                keep = [i for i, r in enumerate(B._qdata) if int(r[0]) not in ka]
                if not keep:
                    k0 = int(B._qdata[0, 0])
                    keepa = [i for i, r in enumerate(A._qdata) if int(r[1]) != k0]
                    A2 = A.copy(deep=True)
                    A2._data = [A2._data[i] for i in keepa]
                    A2._qdata = np.array(A2._qdata[keepa], dtype=np.intp, order='C').reshape(len(keepa), 2)
                    keep = [i for i, r in enumerate(B._qdata) if int(r[0]) == k0]
                B2 = B.copy(deep=True)
                B2._data = [B2._data[i] for i in keep]
                B2._qdata = np.array(B2._qdata[keep], dtype=np.intp, order='C').reshape(len(keep), 2)
                if not (S.inv(A2, 'tensor', variant) and S.inv(B2, 'tensor', variant)):
                    continue
                Ad2, Bd2 = np.asarray(A2.to_ndarray()), np.asarray(B2.to_ndarray())
                R.stat('tensordot:no-common-block' if len(A2._data) and len(B2._data) else 'tensordot:an-operand-without-blocks')
            for axes in (1, [['k'], ['k*']]):
                cond = '%s,axes=%s' % (variant, 'int' if isinstance(axes, int) else 'labels')
                t = S.call('np_conserved.tensordot', cond, npc.tensordot, A2, B2, axes)
                if S.inv(t, 'tensordot', cond, dense=np.tensordot(Ad2, Bd2, axes=1)):
                    S.qt_is(t, qa + qb, 'tensordot', cond, 'sum')
                    if t.dtype != np.result_type(A2.dtype, B2.dtype):
                        R.fail('C02', 'tensordot', cond, 'dtype', 'dtype %s for operands %s, %s' % (t.dtype, A2.dtype, B2.dtype))
                    S.reuse(t, np.tensordot(Ad2, Bd2, axes=1), 'tensordot', cond)
    # ---- vector times matrix (all legs of the first operand contracted), with and without common blocks
    rv = [S.rleg(0)]
    rows_k = [tuple(int(c_) for c_ in r_) for r_ in rv[0].charges]
    dup = [b_ for b_ in range(rv[0].nb) if rows_k.count(rows_k[b_]) > 1 and rv[0].sizes()[b_] > 0]
    qv_force = qb_force = None
    if dup and rB[1].n:      # a leg that is not blocked by charge: total charges such that the blocks of equal charge are allowed
        sk = rv[0].charges[dup[0]] * rv[0].qconj
        qv_force = G.mv(S.mods, sk)
        qb_force = G.mv(S.mods, -sk + S.X.signed_qflat(rB[1], S.mods)[rng.randrange(rB[1].n)])
    v, vd, qv = S.tensor(rv, ['k'], S.case['dtypes'][2], p_missing=0.0, qt=qv_force)
    B, Bd, qb = S.tensor(rB, ['k*', 'r'], S.case['dtypes'][1], p_missing=0.0, qt=qb_force)
    if not S.inv(B, 'tensor', None, dense=Bd):
        return
    if S.inv(v, 'tensor', 'vector', dense=vd) and not degenerate:
        for variant in ('as-generated', 'no-common-block'):
            B3, v3, vd3 = B, v, vd
            if variant == 'no-common-block':
                # the vector keeps one block; the matrix keeps the blocks of the OTHER blocks of the contracted leg (when the leg is not blocked by
                # charge some of them carry the same charge: the worker then pairs a row with a column that have no block in common)
                if len(v._data) > 1:
                    v3 = v.copy(deep=True)
                    v3._data, v3._qdata = v3._data[:1], np.array(v3._qdata[:1], dtype=np.intp, order='C')
                    if not S.inv(v3, 'tensor', variant):
                        continue
                    vd3 = np.asarray(v3.to_ndarray())
                kv = {int(r[0]) for r in v3._qdata}
                keep = [i for i, r in enumerate(B._qdata) if int(r[0]) not in kv]
                if len(v3._data) and any(np.array_equal(rv[0].charges[int(B._qdata[i, 0])], rv[0].charges[k_]) for i in keep for k_ in kv):
                    R.stat('tensordot:vector-matrix-no-common-block(same-charge)')
                B3 = B.copy(deep=True)
                B3._data = [B3._data[i] for i in keep]
                B3._qdata = np.array(B3._qdata[keep], dtype=np.intp, order='C').reshape(len(keep), 2)
                if not S.inv(B3, 'tensor', variant):
                    continue
            cond = 'vector-matrix,' + variant
            t = S.call('np_conserved.tensordot', cond, npc.tensordot, v3, B3, axes=['k', 'k*'])
            if S.inv(t, 'tensordot', cond, dense=np.tensordot(vd3, np.asarray(B3.to_ndarray()), axes=1)):
                S.qt_is(t, qv + np.asarray(B3.qtotal), 'tensordot', cond, 'sum')
            t = S.call('np_conserved.tensordot', cond, npc.tensordot, B3.transpose(['r', 'k*']), v3, axes=['k*', 'k'])
            S.inv(t, 'tensordot', 'matrix-vector,' + variant, dense=np.tensordot(np.asarray(B3.to_ndarray()).T, vd3, axes=1))
    # ---- addition of partially labelled tensors (no transposition: documented warning)
    rl2 = [rl[0], rl[1], rl[0]]
    x2, dense2, qt2 = S.tensor(rl2, ['a', None, 'c'], S.case['dtypes'][2])
    y, ydense, _ = S.tensor(rl2, ['c', None, 'a'], S.case['dtypes'][1], qt=qt2)       # the same labels in another order, one leg not labelled
    if S.inv(x2, 'tensor', None, dense=dense2) and S.inv(y, 'tensor', None, dense=ydense):
        x, dense, qt = x2, dense2, qt2
        for how in ('add', 'iadd', 'sub', 'binary'):
            a = x.copy(deep=True)
            cond = 'partially-labelled'
            try:
                with warnings.catch_warnings():
                    warnings.simplefilter('ignore')
                    if how == 'add':
                        r, want = a + y, dense + ydense
                    elif how == 'sub':
                        r, want = a - y, dense - ydense
                    elif how == 'iadd':
                        a += y
                        r, want = a, dense + ydense
                    else:
                        r, want = a.binary_blockwise(np.subtract, y), dense - ydense
            except Exception as e:
                R.fail('C02', 'Array.' + how, cond, 'raises-' + type(e).__name__, str(e)[:150])
                continue
            R.api('np_conserved.Array.' + {'add': '__add__', 'sub': '__sub__', 'iadd': '__iadd__', 'binary': 'binary_blockwise'}[how])
            if S.inv(r, 'Array.' + how, cond, dense=want):
                S.qt_is(r, qt, 'Array.' + how, cond, 'unchanged')
    # ---- grids
    parts = []
    for k in range(rng.choice([2, 3])):
        p, pd, _ = S.tensor(rl, labels, S.case['dtypes'][k % 3], qt=qt)
        if S.inv(p, 'tensor', None, dense=pd):
            parts.append((p, pd))
    if len(parts) >= 2:
        ax = rng.randrange(3)
        for cp in (True, False):
            cond = '1D-grid,copy=%s' % cp
            g = S.call('np_conserved.grid_concat', cond, npc.grid_concat, [p for p, _ in parts], [labels[ax]], cp)
            if S.inv(g, 'grid_concat', cond, dense=np.concatenate([d for _, d in parts], axis=ax), watch=cp):
                S.qt_is(g, qt, 'grid_concat', cond, 'unchanged')
                if cp:
                    S.reuse(g, np.concatenate([d for _, d in parts], axis=ax), 'grid_concat', cond)
            c2 = S.call('np_conserved.concatenate', cond, npc.concatenate, [p for p, _ in parts], ax, cp)
            S.inv(c2, 'concatenate', cond, dense=np.concatenate([d for _, d in parts], axis=ax), watch=cp)
            S.recheck_live('grid_concat', cond)


def item_grid_outer(S):
    """grid_outer(qtotal given), detect_grid_outer_legcharge(qtotal, qconj, bunch) -> grid_outer with the detected leg"""
    npc, rng, R = S.npc, S.rng, S.R
    mods, q = S.mods, S.q
    rl = [S.rleg(1), S.rleg(2)]
    nrow, ncol = rng.choice([1, 2, 3]), rng.choice([2, 3])
    # entries with different total charges; the grid legs absorb them: qtotal_entry + row charge + col charge == qtotal
    sq = [S.X.signed_qflat(l, mods) for l in rl]
    if any(l.n == 0 for l in rl):
        R.stat('grid_outer:skipped')
        return
    achievable = [G.mv(mods, sq[0][rng.randrange(rl[0].n)] + sq[1][rng.randrange(rl[1].n)]) for _ in range(6)]
    target = G.mv(mods, np.array(rand_charge_row(rng, mods), dtype=QT).reshape(q)) if rng.random() < 0.7 else np.zeros(q, dtype=QT)
    qrow = [G.mv(mods, np.array(rand_charge_row(rng, mods), dtype=QT).reshape(q)) for _ in range(nrow)]
    # the first row can be filled completely: column charges such that target - qrow[0] - qcol[j] is the charge of some entry of the legs
    qcol = [G.mv(mods, target - qrow[0] - rng.choice(achievable)) for _ in range(ncol)]
    for i in range(1, nrow):
        if rng.random() < 0.6:      # a row that can be filled as well
            qrow[i] = G.mv(mods, target - qcol[rng.randrange(ncol)] - rng.choice(achievable))
    grid, dgrid = [], []
    for i in range(nrow):
        row, drow = [], []
        for j in range(ncol):
            if rng.random() < 0.25 and i > 0:
                row.append(None)
                drow.append(None)
                continue
            qe = G.mv(mods, target - qrow[i] - qcol[j])
            # entries need that total charge: only possible when some block of the legs carries it
            al = S.allowed(rl, qe)
            if not np.any(al):
                row.append(None)
                drow.append(None)
                continue
            e, ed, _ = S.tensor(rl, ['p', 'p*'], S.case['dtypes'][(i + j) % 3], qt=qe)
            row.append(e)
            drow.append(ed)
        grid.append(row)
        dgrid.append(drow)
    if any(all(grid[i][j] is None for i in range(nrow)) for j in range(ncol)):
        R.stat('grid_outer:skipped')
        return
    qcr, qcc = rng.choice([1, -1]), rng.choice([1, -1])
    Lrow = npc.LegCharge.from_qflat(S.env.chinfo, [G.mv(mods, c * qcr) for c in qrow], qcr)
    want = np.zeros((nrow, ncol) + tuple(l.n for l in rl), dtype=complex)
    for i in range(nrow):
        for j in range(ncol):
            if dgrid[i][j] is not None:
                want[i, j] = dgrid[i][j]
    for bunch in (False, True):
        cond = 'qconj=%+d,bunch=%s,%s' % (qcc, bunch, 'qtotal=0' if not np.any(G.mv(mods, target)) else 'qtotal!=0')
        det = S.call('np_conserved.detect_grid_outer_legcharge', cond, npc.detect_grid_outer_legcharge, grid, [Lrow, None], qtotal=target, qconj=qcc, bunch=bunch)
        if len(det) != 2 or det[0] is not Lrow or not S.inv_leg(det[1], 'detect_grid_outer_legcharge', cond):
            if len(det) != 2 or det[0] is not Lrow:
                R.fail('C02', 'detect_grid_outer_legcharge', cond, 'legs', 'the given legs are not returned unchanged')
            continue
        Lcol = det[1]
        if Lcol.qconj != qcc or Lcol.ind_len != ncol:
            R.fail('C02', 'detect_grid_outer_legcharge', cond, 'leg-differs', 'qconj %d ind_len %d' % (Lcol.qconj, Lcol.ind_len))
            continue
        got = G.mv(mods, np.asarray(Lcol.to_qflat()).reshape(ncol, q) * Lcol.qconj)
        if not np.array_equal(got, G.mv(mods, np.array(qcol).reshape(ncol, q))):
            R.fail('C02', 'detect_grid_outer_legcharge', cond, 'leg-differs', 'charges*qconj %s, the grid needs %s' % (got.tolist(), np.array(qcol).tolist()))
            continue
        t = S.call('np_conserved.grid_outer', cond, npc.grid_outer, grid, [Lrow, Lcol], qtotal=target, grid_labels=['r', 'c'])
        if S.inv(t, 'grid_outer', cond, dense=want):
            S.qt_is(t, target, 'grid_outer', cond, 'requested')
            S.reuse(t, want, 'grid_outer', cond)


def item_linalg(S):
    """options of the factorizations: every returned tensor is consistent and has the documented total charge (exactness: C05)"""
    npc, rng, nrng, R = S.npc, S.rng, S.nrng, S.R
    X = S.X
    mods, q = S.mods, S.q
    zero = np.zeros(q, dtype=QT)
    rL, rR = X.drop_empty(S.rleg(0)), X.drop_empty(S.rleg(1))
    if rL.n == 0 or rR.n == 0:
        return
    dtn = S.case['dtypes'][0]
    dt = np.dtype(dtn)
    single = dt.itemsize // (2 if dt.kind == 'c' else 1) <= 4 and dt.kind != 'i'
    qt = X.pick_qtotal(rng, [rL, rR], mods)
    al = S.allowed([rL, rR], qt)
    Td = np.where(al, nrng.randint(1, 4, size=al.shape) * nrng.choice([-1, 1], size=al.shape) + (1j * nrng.randint(-2, 3, size=al.shape) if dt.kind == 'c' else 0), 0).astype(dt)
    L, Rg = S.leg(rL), S.leg(rR)
    T = npc.Array.from_ndarray(Td, [L, Rg], qtotal=qt, labels=['a', 'b'])
    if not S.inv(T, 'Array.from_ndarray', None, dense=Td):
        return
    if rng.random() < 0.5 and len(T._data) > 1:
        T._data, T._qdata, T._qdata_sorted = T._data[::-1], np.ascontiguousarray(T._qdata[::-1]), False
    # ---- svd: both entries of qtotal_LR given; cutoff; compute_uv=False
    qL = X.pick_qtotal(rng, [rL], mods)
    qR = G.mv(mods, qt - qL)
    for cutoff in (None, 0.5):
        cond = 'qtotal_LR=both,cutoff=%s' % cutoff
        U, s_, VH = S.call('np_conserved.svd', cond, npc.svd, T, cutoff=cutoff, qtotal_LR=[qL, qR], inner_labels=['i', 'i*'], inner_qconj=rng.choice([1, -1]))
        if S.inv(U, 'svd', cond, role='U') and S.inv(VH, 'svd', cond, role='VH'):
            S.qt_is(U, qL, 'svd', cond, 'qtotal_LR[0]')
            S.qt_is(VH, qR, 'svd', cond, 'qtotal_LR[1]')
            if cutoff is not None and (np.any(np.asarray(s_) <= cutoff) or U.shape[1] != len(s_) or VH.shape[0] != len(s_)):
                R.fail('C05', 'svd', cond, 'cutoff', 'singular values %s, shapes %s %s' % (np.asarray(s_).tolist(), U.shape, VH.shape))
            try:
                U.legs[1].test_contractible(VH.legs[0])
                rec = npc.tensordot(U.scale_axis(s_, 1), VH, axes=1)
                if S.inv(rec, 'svd->tensordot', cond, watch=False) and cutoff is None:
                    S.dense_is(rec, Td, 'svd->tensordot', cond, prop='C05', tol=2e-4 if single or dt.kind == 'i' else 1e-9)
            except ValueError:
                R.fail('C02', 'svd', cond, 'inner-legs-not-contractible', 'U.legs[1] and VH.legs[0]')
    s_only = S.call('np_conserved.svd', 'compute_uv=False', npc.svd, T, compute_uv=False)
    if not isinstance(s_only, np.ndarray):
        R.fail('C02', 'svd', 'compute_uv=False', 'not-an-ndarray', repr(type(s_only)))
    S.recheck_live('svd')
    # ---- qr / lq (cutoff, pos_diag)
    for fname in ('qr', 'lq'):
        for cutoff, pos in ((1e-8, True), (None, True), (1e-8, False)):
            mode = 'reduced' if cutoff is not None else rng.choice(['reduced', 'complete'])
            iq = rng.choice([1, -1])
            qQ = rng.choice([None, 'a.qtotal'])
            cond = 'cutoff=%s,pos_diag=%s,%s,qtotal_Q=%s' % (cutoff, pos, mode, qQ)
            kw = {'pos_diag_R' if fname == 'qr' else 'pos_diag_L': pos}
            A_, B_ = S.call('np_conserved.' + fname, cond, getattr(npc, fname), T, mode=mode, inner_labels=['i', 'i*'], cutoff=cutoff, qtotal_Q=None if qQ is None else qt, inner_qconj=iq, **kw)
            Q_, R_ = (A_, B_) if fname == 'qr' else (B_, A_)
            if S.inv(A_, fname, cond, role='first') and S.inv(B_, fname, cond, role='second'):
                S.qt_is(Q_, zero if qQ is None else qt, fname, cond, 'qtotal_Q')
                S.qt_is(R_, G.mv(mods, qt - np.asarray(Q_.qtotal)), fname, cond, 'a.qtotal = q.qtotal + r.qtotal')
                try:
                    A_.legs[1].test_contractible(B_.legs[0])
                    rec = npc.tensordot(A_, B_, axes=1)
                    if S.inv(rec, fname + '->tensordot', cond, watch=False):
                        S.dense_is(rec, Td, fname + '->tensordot', cond, prop='C05', tol=2e-4 if single or dt.kind == 'i' else 1e-9)
                except ValueError:
                    if mode == 'reduced':
                        R.fail('C02', fname, cond, 'inner-legs-not-contractible', 'legs[1] of the first and legs[0] of the second factor')
    if len(T._data) and dt.kind != 'i':
        T0 = T.copy(deep=True)
        T0._data[0] = np.zeros_like(T0._data[0])        # a stored block of zeros: no column survives the cutoff
        T0d = np.asarray(T0.to_ndarray())
        if S.inv(T0, 'tensor', 'stored-zero-block'):
            for fname in ('qr', 'lq'):
                cond = 'cutoff,stored-zero-block'
                A_, B_ = S.call('np_conserved.' + fname, cond, getattr(npc, fname), T0, inner_labels=['i', 'i*'], cutoff=1e-8)
                if S.inv(A_, fname, cond, role='first') and S.inv(B_, fname, cond, role='second'):
                    try:
                        A_.legs[1].test_contractible(B_.legs[0])
                        if A_.shape[1]:
                            rec = npc.tensordot(A_, B_, axes=1)
                            if S.inv(rec, fname + '->tensordot', cond, watch=False):
                                S.dense_is(rec, T0d, fname + '->tensordot', cond, prop='C05', tol=2e-4 if single else 1e-9)
                    except ValueError:
                        R.fail('C02', fname, cond, 'inner-legs-not-contractible', 'legs[1] of the first and legs[0] of the second factor')
    S.recheck_live('qr/lq')
    # ---- square matrices: eigh(UPLO, sort), eig(sort), pinv(cutoff), polar(cutoff, inner_labels), speigs, orthogonal_columns
    alsq = S.allowed([rL, rL.conj()], zero)
    Hd = np.where(alsq, nrng.randint(1, 4, size=alsq.shape) + (1j * nrng.randint(-2, 3, size=alsq.shape) if dt.kind == 'c' else 0), 0)
    Hd = (Hd + Hd.conj().T).astype(dt)
    H = npc.Array.from_ndarray(Hd, [L, L.conj()], labels=['v', 'v*'])
    if S.inv(H, 'Array.from_ndarray', None, dense=Hd):
        blocked = 'blocked' if rL.is_blocked() else 'not-blocked'
        for sort in ('m>', 'm<', '>', '<'):
            uplo = rng.choice(['L', 'U'])
            cond = '%s,UPLO=%s,sort=%s' % (blocked, uplo, sort)
            W, V = S.call('np_conserved.eigh', cond, npc.eigh, H, uplo, sort)
            if S.inv(V, 'eigh', cond):
                S.qt_is(V, zero, 'eigh', cond, '0')
                rec = npc.tensordot(V.scale_axis(W, 1), V.conj(), axes=[1, 1])
                if S.inv(rec, 'eigh->tensordot', cond, watch=False):
                    S.dense_is(rec, Hd, 'eigh->tensordot', cond, prop='C05', tol=2e-4 if single or dt.kind == 'i' else 1e-9)
            W2, V2 = S.call('np_conserved.eig', cond, npc.eig, H, sort)
            if S.inv(V2, 'eig', cond):
                S.qt_is(V2, zero, 'eig', cond, '0')
        P = S.call('np_conserved.pinv', 'cutoff', npc.pinv, T, 1e-6)
        if S.inv(P, 'pinv', 'cutoff'):
            S.qt_is(P, -qt, 'pinv', 'cutoff', 'negated')
        left = rng.random() < 0.5
        cond = 'cutoff,inner_labels,left=%s' % left
        U_, P_, s_ = S.call('np_conserved.polar', cond, npc.polar, H, 1e-6, left, ['k', 'k*'])
        if S.inv(U_, 'polar', cond, role='u') and S.inv(P_, 'polar', cond, role='p'):
            S.qt_is(P_, G.mv(mods, -np.asarray(U_.qtotal)), 'polar', cond, 'u.qtotal + p.qtotal = a.qtotal')
        # speigs: eigenvectors of a charge sector as tensors
        sq = X.signed_qflat(rL, mods)
        # the sector of the first and of the last index of the leg (the search for the block passes over the other blocks)
        for which_sec, sec in (('first', sq[0]), ('last', sq[-1])):
            sec = np.array(sec, dtype=QT).reshape(q)
            dim = int(np.sum(np.all(sq == sec[None, :], axis=1))) if q else rL.n
            if dt.kind == 'i' or single or (which_sec == 'last' and np.array_equal(sq[0], sq[-1])):
                continue
            cond = 'sector-of-the-%s-index,%s' % (which_sec, 'dim>=3' if dim >= 3 else 'dim<3')
            Hf = H.astype(np.result_type(dt, np.float64))
            W3, V3 = S.call('np_conserved.speigs', cond, npc.speigs, Hf, sec, 1, which='LM', **({'v0': np.ones(dim)} if dim >= 3 else {}))
            for v in V3:
                if S.inv(v, 'speigs', cond):
                    S.qt_is(v, sec, 'speigs', cond, 'charge_sector')
                    w = npc.tensordot(Hf, v, axes=1)
                    if S.inv(w, 'speigs->tensordot', cond, watch=False):
                        S.dense_is(w, complex(W3[0]) * np.asarray(v.to_ndarray()), 'speigs->tensordot', cond, prop='C05', tol=1e-7)
        sec = np.array(sq[rng.randrange(rL.n)], dtype=QT).reshape(q)
        if dt.kind != 'i' and not single:
            cond = 'block-of-the-sector-not-stored'
            H0 = npc.zeros([L, L.conj()], np.result_type(dt, np.float64), labels=['v', 'v*'])
            W4, V4 = S.call('np_conserved.speigs', cond, npc.speigs, H0, sec, 2, which='LM')
            for v in V4:
                if S.inv(v, 'speigs', cond):
                    S.qt_is(v, sec, 'speigs', cond, 'charge_sector')
    # orthogonal_columns: M x N isometry A (M >= N, full rank in every sector) from a qr
    if dt.kind != 'i':
        Qm, _ = npc.qr(T, mode='reduced', inner_labels=['i', 'i*'])
        if S.inv(Qm, 'qr', None) and Qm.shape[0] >= Qm.shape[1] and Qm.shape[1] > 0:
            for lab in (None, 'o'):
                cond = 'new_label=%s' % lab
                R.api('np_conserved.orthogonal_columns')
                try:
                    with warnings.catch_warnings():
                        warnings.simplefilter('ignore')
                        O = npc.orthogonal_columns(Qm, lab)
                except Exception as e:
                    R.fail('C05', 'orthogonal_columns', cond, 'raises-' + type(e).__name__, str(e)[:150])      # (F05.6: registered under C05)
                    continue
                if S.inv(O, 'orthogonal_columns', cond):
                    if O.get_leg_labels() != ['a', lab if lab is not None else 'i']:
                        R.fail('C02', 'orthogonal_columns', cond, 'labels', 'labels %s' % O.get_leg_labels())
                    ov = npc.tensordot(Qm.conj(), O, axes=[0, 0])
                    if S.inv(ov, 'orthogonal_columns->tensordot', cond, watch=False):
                        S.dense_is(ov, np.zeros(ov.shape), 'orthogonal_columns->tensordot', cond, prop='C05', tol=2e-4 if single else 1e-9)
    # detect_legcharge(cutoff)
    if np.count_nonzero(Td):
        cond = 'cutoff'
        ax = rng.randrange(2)
        lg = [L, Rg]
        lg[ax] = None
        qcn = rng.choice([1, -1])
        det = S.call('np_conserved.detect_legcharge', cond, npc.detect_legcharge, Td.astype(complex) + 1e-12, S.env.chinfo, lg, qt, qcn, 1e-6)
        if S.inv_leg(det[ax], 'detect_legcharge', cond):
            y = S.call('np_conserved.Array.from_ndarray', 'detected-leg', npc.Array.from_ndarray, Td, det, qtotal=qt)
            S.inv(y, 'detect_legcharge->from_ndarray', cond, dense=Td)


def item_pickle(S):
    """pickle / copy.copy / copy.deepcopy of tensors, legs, pipes, ChargeInfo; the legacy states of Array.__setstate__"""
    npc, rng, R = S.npc, S.rng, S.R
    rl = [S.rleg(0), S.rleg(1), S.rleg(2)]
    x, dense, qt = S.tensor(rl, ['a', 'b', None], S.case['dtypes'][1])
    if not S.inv(x, 'tensor', None, dense=dense):
        return
    c = x.combine_legs([0, 1], qconj=-1)
    for name, obj, dn in (('plain', x, dense), ('with-pipe', c, None)):
        if not S.inv(obj, 'tensor', name):
            continue
        for how, f in (('pickle', lambda o: pickle.loads(pickle.dumps(o, protocol=rng.choice([2, 4, 5])))), ('copy.deepcopy', copy.deepcopy), ('copy.copy', copy.copy)):
            cond = '%s,%s' % (how, name)
            y = S.call('np_conserved.Array.__setstate__', cond, f, obj)
            if S.inv(y, 'Array.__setstate__', cond, dense=dn, watch=(how != 'copy.copy')):
                S.qt_is(y, qt, 'Array.__setstate__', cond, 'unchanged')
                if y.get_leg_labels() != obj.get_leg_labels() or y.dtype != obj.dtype:
                    R.fail('C02', 'Array.__setstate__', cond, 'labels/dtype', '%s %s' % (y.get_leg_labels(), y.dtype))
                if how != 'copy.copy':
                    if how == 'pickle' and any(l.chinfo is not y.chinfo for l in y.legs):
                        R.fail('C02', 'Array.__setstate__', cond, 'chinfo-not-shared', 'legs of the unpickled tensor carry different ChargeInfo objects')
                    z = y + obj if how == 'copy.deepcopy' else y
                    S.inv(z, 'Array.__setstate__->add', cond, watch=False)
                    if name == 'with-pipe':
                        s = y.split_legs()
                        S.inv(s, 'Array.__setstate__->split_legs', cond, dense=dense, watch=False)
                    S.reuse(y, dn, 'Array.__setstate__', cond)
        # the state tuple of the compiled versions of TenPy 0.3.0 (documented import path)
        state_list = (list(obj._data), obj._qdata.copy(), obj._qdata_sorted, obj.chinfo, obj.dtype, list(obj._labels), list(obj.legs), obj.qtotal.copy(), obj.rank, obj.shape)
        # (labels were a dict {label: axis} in the old format)
        state_dict = state_list[:5] + ({l: i for i, l in enumerate(obj._labels) if l is not None},) + state_list[6:]
        for how, state in (('__setstate__', state_list), ('__pyx_unpickle_Array', state_list)):
            cond = 'legacy-tuple,%s,%s,%s' % (how, name, 'dict-labels' if state is state_dict else 'list-labels')
            R.api('np_conserved.Array.__setstate__')
            try:
                if how == '__setstate__':
                    y = npc.Array.__new__(npc.Array)
                    y.__setstate__(state)
                else:
                    import tenpy.linalg.np_conserved as mod
                    y = mod.__pyx_unpickle_Array(npc.Array, 0, state)
            except Exception as e:
                R.fail('C02', 'Array.__setstate__', 'legacy-tuple', 'raises-' + type(e).__name__, '%s: %s' % (how, str(e)[:150]))
                continue
            if not hasattr(y, '_labels'):
                R.fail('C02', 'Array.__setstate__', 'legacy-tuple', 'no-_labels', '%s(state tuple of the compiled TenPy 0.3.0, documented import path): the tensor has no _labels '
                       '(the state is assigned to an attribute `labels` that is no property): get_leg_labels / test_sanity / every labelled access raise AttributeError' % how)
                continue
            if S.inv(y, 'Array.__setstate__', 'legacy-tuple', dense=dn, watch=False):
                S.qt_is(y, qt, 'Array.__setstate__', cond, 'unchanged')
                if y.get_leg_labels() != obj.get_leg_labels():
                    R.fail('C02', 'Array.__setstate__', 'legacy-tuple', 'labels', '%s' % y.get_leg_labels())
                S.reuse(y, dn, 'Array.__setstate__', 'legacy-tuple')
    # legs / pipes / ChargeInfo
    for leg in list(c.legs) + [c.legs[0].conj(), x.legs[0]]:
        for how, f in (('pickle', lambda o: pickle.loads(pickle.dumps(o))), ('copy.deepcopy', copy.deepcopy), ('copy.copy', copy.copy)):
            cls = type(leg).__name__
            cond = '%s,%s' % (how, cls)
            y = S.call('charges.%s.__setstate__' % cls, cond, f, leg)
            if S.inv_leg(y, cls + '.__setstate__', cond):
                try:
                    leg.test_equal(y)
                except ValueError:
                    R.fail('C02', cls + '.__setstate__', cond, 'leg-differs', 'the copy is not equal to the original')
                if y.sorted != leg.sorted or y.bunched != leg.bunched:
                    R.fail('C02', cls + '.__setstate__', cond, 'flags', 'sorted / bunched %s %s, original %s %s' % (y.sorted, y.bunched, leg.sorted, leg.bunched))
                if how != 'copy.copy':
                    t = npc.zeros([y, y.conj()], qtotal=None)
                    S.inv(t, cls + '.__setstate__->zeros', cond, watch=False)
    ci = S.env.chinfo
    for how, f in (('pickle', lambda o: pickle.loads(pickle.dumps(o))), ('copy.deepcopy', copy.deepcopy)):
        R.api('charges.ChargeInfo.__setstate__')
        R.api('charges.ChargeInfo.__getstate__')
        y = f(ci)
        if not (y == ci) or (y != ci) or list(y.mod) != list(ci.mod) or list(y.names) != list(ci.names) or y.qnumber != ci.qnumber:
            R.fail('C02', 'ChargeInfo.__setstate__', how, 'differs', 'copy %r of %r' % (y, ci))
        try:
            y.test_sanity()
            l2 = npc.LegCharge.from_qind(y, x.legs[0].slices, x.legs[0].charges, x.legs[0].qconj)
            S.inv_leg(l2, 'ChargeInfo.__setstate__->from_qind', how)
            x.legs[0].test_equal(l2)
        except Exception as e:
            R.fail('C02', 'ChargeInfo.__setstate__', how, 'raises-' + type(e).__name__, str(e)[:150])
    # unequal ChargeInfo objects
    others = [npc.ChargeInfo(list(ci.mod) + [2], list(ci.names) + ['extra'])] + ([npc.ChargeInfo([m + 1 if m != 1 else 2 for m in ci.mod], list(ci.names))] if S.q else [])
    if S.q and all(ci.names):      # (documented: missing names are ignored in the comparison)
        others.append(npc.ChargeInfo(list(ci.mod), ['other' + n for n in ci.names]))
    for o2 in others:
        if (o2 == ci) or not (o2 != ci):
            R.fail('C02', 'ChargeInfo.__eq__', None, 'wrong-verdict', '%r == %r' % (o2, ci))
    R.api('charges.ChargeInfo.__eq__')


APIOPTS_ITEMS = (('constructors', item_constructors), ('charges', item_charges), ('storage', item_storage), ('pipes', item_pipes),
                 ('grid_outer', item_grid_outer), ('linalg', item_linalg), ('pickle', item_pickle))


def run_apiopts(case, R):
    S = Run(case, R)
    S.env.chinfo = S.npc.ChargeInfo(S.mods, case['names'])
    R.stat('nontrivial')
    R.stat('stratum:' + case.get('stratum', '-'))

    def body():
        for name, f in APIOPTS_ITEMS:
            S.live = []
            guarded_item(S, name, f)
    if case.get('optlevel3'):
        # every optimization level: the argument checks (and the tensors' own test_sanity) are switched off; the recomputation alone decides
        from tenpy.tools import optimization
        R.stat('optimization-level:skip_arg_checks')
        with optimization.temporary_level(optimization.OptimizationFlag.skip_arg_checks):
            body()
    else:
        body()


# ---------------------------------------------------------------------------------------------------------------------
# dipolar
# ---------------------------------------------------------------------------------------------------------------------

def ref_shift(mods, charges, dx, charge_idcs, dipole_idcs, dipole_dims, horizontal=False):
    """documented transformation of the dipole charges under a translation: p -> p + dx[dim] * q  (mod qmod of p)"""
    ch = np.array(charges, dtype=QT)
    for c, d, dim in zip(charge_idcs, dipole_idcs, dipole_dims):
        if horizontal and dim != 0:
            continue
        ch[..., d] = ch[..., d] + (dx if horizontal else dx[dim]) * np.array(charges, dtype=QT)[..., c]
    return G.mv(mods, ch)


def run_dipolar(case, R):
    S = Run(case, R)
    npc, rng = S.npc, S.rng
    import tenpy.linalg.charges as charges
    mods, q = S.mods, S.q
    args = (list(mods), list(case['names']), list(case['charge_idcs']), list(case['dipole_idcs']), list(case['dipole_dims']))
    R.op('DipolarChargeInfo')
    R.api('charges.DipolarChargeInfo')
    try:
        ci = charges.DipolarChargeInfo(*args)
        ci.test_sanity()
    except Exception as e:
        R.fail('C02', 'DipolarChargeInfo', None, 'raises-' + type(e).__name__, '%s for %s' % (str(e)[:150], args))
        return
    S.env.chinfo = ci
    R.stat('nontrivial')
    # copies of the ChargeInfo are equal to it, other structures are not
    for how, f in (('pickle', lambda o: pickle.loads(pickle.dumps(o))), ('copy.deepcopy', copy.deepcopy)):
        c2 = f(ci)
        if not (c2 == ci) or (c2 != ci) or list(c2.mod) != list(mods) or repr(c2) != repr(ci):
            R.fail('C02', 'DipolarChargeInfo.__setstate__', how, 'differs', '%r vs %r' % (c2, ci))
    if len(args[4]) >= 2 and all(mods[i] != 1 for i in args[3]):
        if charges.DipolarChargeInfo(args[0], args[1], args[2], args[3], args[4][::-1]) == ci:
            R.fail('C02', 'DipolarChargeInfo.__eq__', None, 'wrong-verdict', 'different dipole_dims compare equal')
    # fixed structures that differ in exactly one of charge_idcs / dipole_idcs / dipole_dims / mod
    fm, fn = [1, 1, 3, 3], ['N', 'M', 'Px', 'Py']
    variants = [charges.DipolarChargeInfo(fm, fn, [0, 0], [2, 3], [0, 1]), charges.DipolarChargeInfo(fm, fn, [1, 1], [2, 3], [0, 1]),
                charges.DipolarChargeInfo(fm, fn, [0, 0], [3, 2], [0, 1]), charges.DipolarChargeInfo(fm, fn, [0, 0], [2, 3], [1, 0]),
                charges.DipolarChargeInfo([1, 1, 3, 6], fn, [0, 0], [2, 3], [0, 1])]
    for i_, a_ in enumerate(variants):
        for j_, b_ in enumerate(variants):
            if (a_ == b_) != (i_ == j_) or (a_ != b_) != (i_ != j_):
                R.fail('C02', 'DipolarChargeInfo.__eq__', None, 'wrong-verdict', '%r == %r gives %s' % (a_, b_, a_ == b_))
    othermods = [m + 1 if m != 1 else 1 for m in mods]
    try:
        if othermods != list(mods) and charges.DipolarChargeInfo(othermods, args[1], args[2], args[3], args[4]) == ci:
            R.fail('C02', 'DipolarChargeInfo.__eq__', None, 'wrong-verdict', 'different mod compare equal')
    except ValueError:
        pass
    if charges.DipolarChargeInfo(args[0], ['n' + x for x in args[1]], args[2], args[3], args[4]) == ci:
        R.fail('C02', 'DipolarChargeInfo.__eq__', None, 'wrong-verdict', 'different names compare equal')
    if all(d == 0 for d in args[4]):
        R.api('charges.DipolarChargeInfo')
        c3 = charges.DipolarChargeInfo(args[0], args[1], args[2], args[3])      # dipole_dims defaults to the x-component
        if not (c3 == ci):
            R.fail('C02', 'DipolarChargeInfo.__eq__', 'dipole_dims=None', 'wrong-verdict', 'the default dipole_dims differ from [0, ...]')
    if len(mods) > len(args[3]) + 1 and mods[-1] == mods[args[3][-1]]:
        # the unrelated last charge as the dipole moment instead: another structure
        alt = list(args[3])
        alt[-1] = len(mods) - 1
        try:
            if charges.DipolarChargeInfo(args[0], args[1], args[2], alt, args[4]) == ci:
                R.fail('C02', 'DipolarChargeInfo.__eq__', None, 'wrong-verdict', 'different dipole_idcs compare equal')
        except ValueError:
            pass
    if len(args[2]) >= 1 and len(mods) > len(args[3]) + 1:
        alt = list(args[2])
        alt[-1] = len(mods) - 1
        try:
            if charges.DipolarChargeInfo(args[0], args[1], alt, args[3], args[4]) == ci:
                R.fail('C02', 'DipolarChargeInfo.__eq__', None, 'wrong-verdict', 'different charge_idcs compare equal')
        except ValueError:
            pass
    if ci == npc.ChargeInfo(list(mods), list(case['names'])):
        R.fail('C02', 'DipolarChargeInfo.__eq__', None, 'wrong-verdict', 'equal to a ChargeInfo without dipole structure')
    dx = list(case['dx'])
    dim = case['dim']
    rl = [S.rleg(0), S.rleg(1), S.rleg(2)][:rng.choice([2, 3])]
    labels = ['a', 'b', 'c'][:len(rl)]
    x, dense, qt = S.tensor(rl, labels, rng.choice(DTYPES))
    if not S.inv(x, 'tensor', None, dense=dense):
        return
    ia = (args[2], args[3], args[4])

    def check_shifted(y, opname, cond, horizontal, amount):
        if not S.inv(y, opname, cond, dense=dense, watch=False):
            return False
        S.qt_is(y, ref_shift(mods, qt, amount, *ia, horizontal=horizontal), opname, cond, 'shifted qtotal')
        for i, (l, r) in enumerate(zip(y.legs, rl)):
            got = np.asarray(l.to_qflat()).reshape(l.ind_len, q)
            if l.qconj != r.qconj or not np.array_equal(got, ref_shift(mods, r.qflat(), amount, *ia, horizontal=horizontal)):
                R.fail('C02', opname, cond, 'leg-differs', 'leg %d: charges per index %s, documented %s' % (i, got.tolist(), ref_shift(mods, r.qflat(), amount, *ia, horizontal=horizontal).tolist()))
                return False
        return True

    for horizontal in (False, True):
        name = 'shift_charges_horizontal' if horizontal else 'shift_charges'
        amount = dx[0] if horizontal else dx
        trivial = (amount == 0) if horizontal else not any(dx)
        R.op('Array.' + name, dx=amount)
        if not horizontal and dx[-1] != 0:
            # translation between sublattices: documented NotImplementedError; nothing is returned, the operand stays as it is
            R.api('np_conserved.Array.' + name)
            try:
                x.shift_charges(dx)
                R.fail('C02', 'Array.' + name, 'du!=0', 'no-error', 'documented NotImplementedError')
            except NotImplementedError:
                R.stat('dipolar:du!=0:NotImplementedError')
            except Exception as e:
                R.fail('C02', 'Array.' + name, 'du!=0', 'raises-' + type(e).__name__, str(e)[:150])
            S.recheck_live('Array.' + name, 'du!=0')
            continue
        R.stat('dipolar:%s:%s' % (name, 'trivial' if trivial else 'nontrivial'))
        # ChargeInfo level
        R.api('charges.DipolarChargeInfo.' + name)
        pool = np.array([rand_charge_row(rng, mods) for _ in range(4)], dtype=QT).reshape(4, q)
        pool = G.mv(mods, pool)
        before = pool.copy()
        got = getattr(ci, name)(pool, amount)
        if not np.array_equal(pool, before):
            R.fail('C02', 'DipolarChargeInfo.' + name, None, 'argument-mutated', 'documented: must not mutate its input')
        if not np.array_equal(np.asarray(got), ref_shift(mods, before, amount, *ia, horizontal=horizontal)) or np.asarray(got).dtype != QT:
            R.fail('C02', 'DipolarChargeInfo.' + name, None, 'wrong-charges', '%s -> %s, documented %s' % (before.tolist(), np.asarray(got).tolist(), ref_shift(mods, before, amount, *ia, horizontal=horizontal).tolist()))
        # leg level
        for l in x.legs[:2]:
            R.api('charges.LegCharge.apply_charge_mapping')
            l2 = l.apply_charge_mapping(getattr(ci, name), func_kwargs={'dx_0' if horizontal else 'dx': amount}) if rng.random() < 0.5 else \
                l.apply_charge_mapping(getattr(ci, name), (amount,))
            S.inv_leg(l2, 'LegCharge.apply_charge_mapping', name)
        # tensor level
        for inplace in (False, True):
            cond = 'inplace=%s,%s' % (inplace, 'trivial' if trivial else 'nontrivial')
            a = x.copy(deep=False)
            S.live.append((a, np.array(dense), mods))
            y = S.call('np_conserved.Array.' + name, cond, getattr(a, name), amount, inplace)
            if (inplace or trivial) and y is not a:
                R.fail('C02', 'Array.' + name, cond, 'not-the-same-instance', 'documented to return the instance itself')
            if not (inplace or trivial) and y is a:
                R.fail('C02', 'Array.' + name, cond, 'same-instance', 'inplace=False and a non-trivial mapping return the operand itself')
            if y is a:
                S.live = [t for t in S.live if t[0] is not a]
            if check_shifted(y, 'Array.' + name, cond, horizontal, amount):
                S.reuse(y, dense, 'Array.' + name, cond)
                # contraction with the conjugate of an equally shifted tensor; shifting back gives the original legs
                back = getattr(y, name)(-amount if horizontal else [-v for v in amount], False)
                if S.inv(back, 'Array.' + name + '->back', cond, dense=dense, watch=False):
                    S.qt_is(back, qt, 'Array.' + name + '->back', cond, 'original qtotal')
                    try:
                        for l, l0 in zip(back.legs, x.legs):
                            l.test_equal(l0)
                        z = back + x
                        S.inv(z, 'Array.' + name + '->back->add', cond, dense=2 * dense, watch=False)
                    except Exception as e:
                        R.fail('C02', 'Array.' + name + '->back', cond, 'raises-' + type(e).__name__, str(e)[:150])
                # pipes of shifted legs
                if y.rank >= 2 and not any(0 in np.diff(np.asarray(l.slices)).tolist() for l in y.legs):
                    c = y.combine_legs([0, 1])
                    if S.inv(c, 'Array.' + name + '->combine_legs', cond, watch=False):
                        c2 = getattr(c, name)(amount, False)
                        if S.inv(c2, 'Array.' + name + '(pipe)', cond, watch=False):
                            s2 = c2.split_legs()
                            S.inv(s2, 'Array.' + name + '(pipe)->split_legs', cond, dense=dense, watch=False)
            S.recheck_live('Array.' + name, cond)


# ---------------------------------------------------------------------------------------------------------------------
# legops: histories of leg-returning methods with their options
# ---------------------------------------------------------------------------------------------------------------------

LEGOPS = ('sort', 'bunch', 'project', 'extend', 'conj', 'flip_charges_qconj', 'copy', 'apply_charge_mapping', 'from_qflat', 'from_qind', 'from_qdict',
          'from_add_charge', 'from_drop_charge', 'from_change_charge', 'from_trivial', 'LegPipe', 'outer_conj', 'to_LegCharge')


def use_leg(S, leg, opname, cond, mods):
    """a returned leg as part of tensors: zeros / from_func / sort_legcharge / contraction with its conjugate (operations that trust the flags)"""
    npc = S.npc
    try:
        if isinstance(leg, npc.LegPipe) and len(mods) != S.q:
            return
        z = npc.zeros([leg, leg.conj()])
        S.inv(z, opname + '->zeros', cond, mods=mods, watch=False)
        f = npc.Array.from_func(np.ones, [leg, leg.conj()])
        if not S.inv(f, opname + '->from_func', cond, mods=mods, watch=False):
            return
        d = np.asarray(f.to_ndarray())
        perm, s = f.sort_legcharge(True, True)
        if S.inv(s, opname + '->sort_legcharge', cond, mods=mods, watch=False):
            if abs(float(np.sum(np.asarray(s.to_ndarray()))) - float(np.sum(d))) > 1e-9:
                S.R.fail('C01', opname + '->sort_legcharge', cond, 'wrong-values', 'sum of the entries changes')
        if not any(0 in np.diff(np.asarray(l.slices)).tolist() for l in f.legs) and leg.ind_len:
            t = npc.tensordot(f, f, axes=[[1], [0]])
            if S.inv(t, opname + '->tensordot', cond, mods=mods, watch=False):
                S.dense_is(t, d @ d, opname + '->tensordot', cond)
        g = f + f
        S.inv(g, opname + '->add', cond, mods=mods, watch=False, dense=2 * d)
        if isinstance(leg, npc.LegPipe) and leg.ind_len:
            sp = f.split_legs()
            S.inv(sp, opname + '->split_legs', cond, mods=mods, watch=False)
    except Exception as e:
        S.R.fail('C02', opname + '->later-operation', cond, 'raises-' + type(e).__name__, '%s\n%s' % (str(e)[:150], traceback.format_exc()[-500:]))


def run_legops(case, R):
    S = Run(case, R)
    npc, rng = S.npc, S.rng
    mods, q, names = S.mods, S.q, list(case['names'])
    ci = S.env.chinfo = npc.ChargeInfo(mods, names)
    R.stat('nontrivial')
    R.stat('stratum:' + case.get('stratum', '-'))
    pool = [S.leg(S.rleg(i)) for i in range(4)]
    cur, cmods, cci, cnames = pool[0], list(mods), ci, list(names)
    if not S.inv_leg(cur, 'LegCharge', None):
        return

    def signed(l, m):
        return G.mv(m, np.asarray(l.to_qflat()).reshape(l.ind_len, len(m)) * l.qconj)

    for step in range(case['nsteps']):
        name = rng.choice(LEGOPS)
        is_pipe = isinstance(cur, npc.LegPipe)
        foreign = cci is not ci
        n, nb = cur.ind_len, cur.block_number
        qf = np.asarray(cur.to_qflat()).reshape(n, len(cmods)).copy()
        sg = signed(cur, cmods)
        flags0 = (cur.sorted, cur.bunched, cur.qconj, np.asarray(cur.charges).copy(), np.asarray(cur.slices).copy())
        cond, new, want_qf, want_qc, nm = None, None, None, cur.qconj, cmods
        cls = 'LegPipe' if is_pipe else 'LegCharge'
        try:
            with warnings.catch_warnings():
                warnings.simplefilter('ignore')
                if name == 'sort':
                    bunch = rng.random() < 0.5
                    cond = 'bunch=%s' % bunch
                    perm, new = cur.sort(bunch=bunch) if rng.random() < 0.5 else cur.sort(bunch)
                    pf = cur.perm_flat_from_perm_qind(perm) if n else np.arange(0)
                    want_qf = qf[pf]
                    if not G.rows_sorted(np.asarray(new.charges)):
                        R.fail('C01', cls + '.sort', cond, 'not-sorted', 'charges %s' % np.asarray(new.charges).tolist())
                    if bunch and len({tuple(r) for r in np.asarray(new.charges).tolist()}) != new.block_number:
                        R.fail('C01', cls + '.sort', cond, 'not-blocked', 'charges %s' % np.asarray(new.charges).tolist())
                elif name == 'bunch':
                    idx, new = cur.bunch()
                    want_qf = qf
                    if not G.rows_bunched(np.asarray(new.charges)):
                        R.fail('C01', cls + '.bunch', cond, 'not-bunched', 'charges %s' % np.asarray(new.charges).tolist())
                elif name == 'project':
                    if not n:
                        continue
                    form = rng.choice(['bool', 'bool', 'int01', 'keep-all', 'single-block', 'drop-first-block', 'drop-last-block'])
                    mask = np.array([rng.random() < 0.6 for _ in range(n)], dtype=bool)
                    sl = np.asarray(cur.slices)
                    if form == 'keep-all':
                        mask[:] = True
                    elif form == 'single-block' and nb:
                        b = rng.randrange(nb)
                        mask[:] = False
                        mask[sl[b]:sl[b + 1]] = True
                    elif form == 'drop-first-block' and nb:
                        mask[:] = True
                        mask[sl[0]:sl[1]] = False
                    elif form == 'drop-last-block' and nb:
                        mask[:] = True
                        mask[sl[-2]:sl[-1]] = False
                    if not mask.any():
                        mask[rng.randrange(n)] = True
                    cond = form
                    arg = mask.astype(int) if form == 'int01' else mask      # (documented: 1D array(bool); 0 / 1 integers are converted)
                    map_qind, block_masks, new = cur.project(arg)
                    want_qf = qf[mask]
                elif name == 'extend':
                    form = rng.choice(['int', 'int:0', 'leg', 'leg-other-qconj'])
                    cond = form
                    if foreign and form.startswith('leg'):
                        form = cond = 'int'
                    if form.startswith('int'):
                        k = 0 if form == 'int:0' else rng.randint(1, 3)
                        new = cur.extend(k)
                        want_sg = np.concatenate([sg, np.zeros((k, len(cmods)), dtype=QT)])
                    else:
                        other = rng.choice(pool[1:])
                        if other.qconj != cur.qconj and form == 'leg':
                            other = other.flip_charges_qconj()
                        elif other.qconj == cur.qconj and form == 'leg-other-qconj':
                            other = other.flip_charges_qconj()
                        new = cur.extend(other)
                        want_sg = np.concatenate([sg, signed(other, cmods)])
                    if not np.array_equal(signed(new, cmods), want_sg):
                        R.fail('C01', cls + '.extend', cond, 'leg-differs', 'charges*qconj %s, documented %s' % (signed(new, cmods).tolist(), want_sg.tolist()))
                elif name == 'conj':
                    new = cur.conj()
                    want_qf, want_qc = qf, -cur.qconj
                elif name == 'flip_charges_qconj':
                    new = cur.flip_charges_qconj()
                    want_qf, want_qc = G.mv(cmods, -qf), -cur.qconj
                elif name == 'copy':
                    new = cur.copy()
                    want_qf = qf
                elif name == 'apply_charge_mapping':
                    form = rng.choice(['args', 'kwargs', 'plain'])
                    cond = form

                    def mapf(ch, fac=1, sign=1, _ci=cci):
                        return _ci.make_valid(np.asarray(ch) * (fac * sign))
                    new = cur.apply_charge_mapping(mapf, (-1,)) if form == 'args' else cur.apply_charge_mapping(mapf, func_kwargs={'sign': -1}) if form == 'kwargs' else \
                        cur.apply_charge_mapping(lambda ch, _ci=cci: _ci.make_valid(-np.asarray(ch)))
                    want_qf = G.mv(cmods, -qf)
                elif name == 'from_qflat':
                    if not n:
                        continue
                    qc = rng.choice([1, -1])
                    form = rng.choice(['ndarray', 'list'])
                    cond = 'qconj=%+d,%s' % (qc, form)
                    new = npc.LegCharge.from_qflat(cci, qf if form == 'ndarray' else [[int(v) for v in r] for r in qf], qc)
                    cls, want_qf, want_qc = 'LegCharge', qf, qc
                elif name == 'from_qind':
                    qc = rng.choice([1, -1])
                    cond = 'qconj=%+d' % qc
                    new = npc.LegCharge.from_qind(cci, [int(v) for v in cur.slices], [[int(v) for v in r] for r in np.asarray(cur.charges)] if nb else np.zeros((0, len(cmods)), dtype=QT), qc)
                    cls, want_qf, want_qc = 'LegCharge', qf, qc
                    if not np.array_equal(np.asarray(new.slices), np.asarray(cur.slices)):
                        R.fail('C02', 'LegCharge.from_qind', cond, 'slices', 'slices %s from %s' % (np.asarray(new.slices).tolist(), np.asarray(cur.slices).tolist()))
                elif name == 'from_qdict':
                    rows = [tuple(int(v) for v in r) for r in np.asarray(cur.charges)]
                    if not len(cmods) or len(set(rows)) != nb or not nb or 0 in np.diff(np.asarray(cur.slices)).tolist():
                        continue
                    qc = rng.choice([1, -1])
                    form = rng.choice(['slice', 'tuple'])
                    cond = 'qconj=%+d,%s' % (qc, form)
                    items = [(rows[b], slice(int(cur.slices[b]), int(cur.slices[b + 1])) if form == 'slice' else slice(int(cur.slices[b]), int(cur.slices[b + 1]))) for b in range(nb)]
                    rng.shuffle(items)
                    new = npc.LegCharge.from_qdict(cci, dict(items), qc)
                    cls, want_qf, want_qc = 'LegCharge', qf, qc
                elif name == 'from_add_charge':
                    if foreign or is_pipe:
                        continue
                    other = None
                    for cand in pool[1:]:
                        if cand.ind_len == n:
                            other = cand
                    given = rng.random() < 0.5
                    if other is None:
                        other = cur.apply_charge_mapping(lambda ch: ci.make_valid(2 * np.asarray(ch)))
                    if other.qconj != cur.qconj:
                        other = other.flip_charges_qconj()
                    nm = list(cmods) + list(mods)
                    nci = npc.ChargeInfo(nm, cnames + list(names)) if given else None
                    cond = 'chargeinfo=%s' % ('given' if given else 'None')
                    new = npc.LegCharge.from_add_charge([cur, other], nci)
                    cls = 'LegCharge'
                    want_qf = np.concatenate([qf, np.asarray(other.to_qflat()).reshape(n, q)], axis=1)
                    if given and new.chinfo is not nci:
                        R.fail('C02', 'LegCharge.from_add_charge', cond, 'chinfo', 'the leg does not carry the ChargeInfo that was handed in')
                elif name == 'from_drop_charge':
                    if not len(cmods):
                        continue
                    k = rng.randrange(len(cmods))
                    charge = rng.choice([k, k, cnames[k] if cnames[k] and cnames.count(cnames[k]) == 1 else k, None])
                    keep = [] if charge is None else [j for j in range(len(cmods)) if j != k]
                    nm = [cmods[j] for j in keep]
                    given = rng.random() < 0.5
                    nci = npc.ChargeInfo(nm, [cnames[j] for j in keep]) if given else None
                    cond = 'charge=%s,chargeinfo=%s' % ('None' if charge is None else 'name' if isinstance(charge, str) else 'int', 'given' if given else 'None')
                    new = npc.LegCharge.from_drop_charge(cur, charge, nci)
                    cls, want_qf = 'LegCharge', qf[:, keep]
                    if given and new.chinfo is not nci:
                        R.fail('C02', 'LegCharge.from_drop_charge', cond, 'chinfo', 'the leg does not carry the ChargeInfo that was handed in')
                elif name == 'from_change_charge':
                    if not len(cmods):
                        continue
                    k = rng.randrange(len(cmods))
                    m = cmods[k]
                    newmod = rng.choice([2, 3, 1] if m == 1 else [d for d in range(2, m + 1) if m % d == 0])
                    nm = list(cmods)
                    nm[k] = newmod
                    given = rng.random() < 0.5
                    nn = list(cnames)
                    nn[k] = 'chg'
                    nci = npc.ChargeInfo(nm, nn) if given else None
                    cond = 'new_name,chargeinfo=%s' % ('given' if given else 'None')
                    new = npc.LegCharge.from_change_charge(cur, cnames[k] if cnames[k] and cnames.count(cnames[k]) == 1 and rng.random() < 0.5 else k, newmod, 'chg', nci)
                    cls, want_qf = 'LegCharge', G.mv(nm, qf)
                    if list(new.chinfo.names)[k] != 'chg':
                        R.fail('C02', 'LegCharge.from_change_charge', cond, 'chinfo', 'name %r' % (list(new.chinfo.names)[k],))
                elif name == 'from_trivial':
                    qc = rng.choice([1, -1])
                    cond = 'qconj=%+d,%s' % (qc, 'chargeinfo' if len(cmods) else 'chargeinfo=None')
                    new = npc.LegCharge.from_trivial(max(n, 1), cci if (len(cmods) or rng.random() < 0.5) else None, qc)
                    cls, want_qf, want_qc = 'LegCharge', np.zeros((max(n, 1), len(cmods)), dtype=QT), qc
                elif name == 'LegPipe':
                    if foreign or n == 0 or n > 8:
                        continue
                    other = rng.choice(pool)
                    if other.ind_len == 0 or other.ind_len * n > 24:
                        continue
                    qc, so, bu = rng.choice([1, -1]), rng.random() < 0.7, rng.random() < 0.7
                    cond = 'qconj=%+d,sort=%s,bunch=%s%s' % (qc, so, bu, ',nested' if is_pipe else '')
                    new = npc.LegPipe([cur, other] if rng.random() < 0.5 else [other, cur], qc, so, bu)
                    cls = 'LegPipe'
                elif name in ('outer_conj', 'to_LegCharge'):
                    if not is_pipe:
                        continue
                    new = getattr(cur, name)()
                    if name == 'to_LegCharge':
                        want_qf = qf
                        if type(new) is not npc.LegCharge:
                            R.fail('C02', 'LegPipe.to_LegCharge', None, 'type', 'returns a %s' % type(new).__name__)
                    elif not np.array_equal(signed(new, cmods), sg) or new.qconj != -cur.qconj:
                        R.fail('C02', 'LegPipe.outer_conj', 'qconj=%+d' % cur.qconj, 'fusion-rule', 'charges*qconj change / qconj not flipped')
        except Exception as e:
            R.fail('C02', cls + '.' + name, cond, 'raises-' + type(e).__name__, '%s\n%s' % (str(e)[:150], traceback.format_exc()[-600:]))
            continue
        opname = ('LegCharge.' if name.startswith('from_') else '' if name == 'LegPipe' else cls + '.') + name
        R.op(opname, cond=cond)
        R.api('charges.' + opname)
        # the receiver is documented to be unchanged
        if cur.sorted != flags0[0] or cur.bunched != flags0[1] or cur.qconj != flags0[2] or not np.array_equal(np.asarray(cur.charges), flags0[3]) \
                or not np.array_equal(np.asarray(cur.slices), flags0[4]):
            R.fail('C02', opname, cond, 'receiver-changed', 'the leg the method was called on changed (legs are shared between tensors)')
            break
        if want_qf is not None:
            got = np.asarray(new.to_qflat()).reshape(new.ind_len, len(nm))
            if new.qconj != want_qc or got.shape != np.asarray(want_qf).shape or not np.array_equal(got, want_qf):
                R.fail('C01', opname, cond, 'leg-differs', '(qconj, charges per index) = (%d, %s), documented (%d, %s)' % (new.qconj, got.tolist(), want_qc, np.asarray(want_qf).tolist()))
                break
        if not S.inv_leg(new, opname, cond, mods=nm):
            break
        use_leg(S, new, opname, cond, nm)
        if nm != cmods or new.chinfo is not cci:
            cmods, cci, cnames = list(nm), new.chinfo, list(new.chinfo.names)
        cur = new
