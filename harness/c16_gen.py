"""Dense side of the C16 cases (pure numpy; imported by harness/c16.py and harness/impl/c16_impl.py so
that both build the same matrices from a spec).  No tenpy import here."""
import numpy as np


def random_leg_spec(rng, n=None):
    """rng: random.Random.  A charge structure for a leg of total dimension n (1..60)."""
    if n is None:
        n = rng.choice([1, 2, 3, 4, 5, 6, 8, 10, 14, 20, 30, 45, 60])
    kind = rng.choice(['none', 'u1', 'z2', 'z3', 'u1z2', 'u1', 'z2'])
    mods = {'none': [], 'u1': [1], 'z2': [2], 'z3': [3], 'u1z2': [1, 2]}[kind]
    nb_max = min(n, 6)
    nb = 1 if not mods else rng.randint(1, nb_max)
    # split n into nb positive sizes
    cuts = sorted(rng.sample(range(1, n), nb - 1)) if nb > 1 else []
    sizes = [b - a for a, b in zip([0] + cuts, cuts + [n])]
    charges = []
    for _ in sizes:
        ch = []
        for m in mods:
            ch.append(rng.randint(-2, 2) if m == 1 else rng.randrange(m))
        charges.append(ch)
    style = rng.random()
    if style < 0.5 and mods:
        # sorted, bunched (blocked) leg: distinct sorted charges
        uniq = sorted(set(tuple(c) for c in charges))
        charges = [list(c) for c in uniq]
        nb = len(charges)
        cuts = sorted(rng.sample(range(1, n), nb - 1)) if nb > 1 else []
        sizes = [b - a for a, b in zip([0] + cuts, cuts + [n])]
    return {'mods': mods, 'sizes': sizes, 'charges': charges, 'qconj': rng.choice([1, -1])}


def flat_charges(leg):
    out = []
    for s, c in zip(leg['sizes'], leg['charges']):
        out += [tuple(c)] * s
    return out


def sector_indices(leg, sector_block):
    fc = flat_charges(leg)
    q = tuple(leg['charges'][sector_block])
    return [i for i, c in enumerate(fc) if c == q]


def _rand(rs, shape, cplx):
    a = rs.standard_normal(shape)
    if cplx:
        a = a + 1j * rs.standard_normal(shape)
    return a


def _unitary(rs, m, cplx):
    q, r = np.linalg.qr(_rand(rs, (m, m), cplx))
    return q


def dense_operator(spec):
    """Charge-conserving n x n matrix from spec (keys: leg, seed, herm, cplx, spectrum)."""
    leg = spec['leg']
    rs = np.random.RandomState(spec['seed'] % (2 ** 31))
    fc = flat_charges(leg)
    n = len(fc)
    M = np.zeros((n, n), dtype=complex if spec['cplx'] else float)
    for q in sorted(set(fc)):
        I = [i for i, c in enumerate(fc) if c == q]
        m = len(I)
        sp = spec.get('spectrum')
        if spec['herm']:
            if sp in ('degenerate', 'lowrank', 'integer', 'clustered'):
                if sp == 'degenerate':       # extremal eigenvalues repeated
                    ev = rs.randint(-3, 4, size=m).astype(float)
                    k = min(m, 1 + rs.randint(1, 4))
                    ev[:k] = ev.min() - 1.0
                    if m > k + 1:
                        ev[-2:] = ev.max() + 1.0
                elif sp == 'lowrank':
                    ev = np.zeros(m)
                    k = max(1, m // 3)
                    ev[:k] = rs.standard_normal(k) * 2
                elif sp == 'integer':
                    ev = rs.randint(-4, 5, size=m).astype(float)
                else:
                    ev = rs.choice([-1.0, 0.5, 2.0], size=m) + 1e-3 * rs.standard_normal(m)
                Q = _unitary(rs, m, spec['cplx'])
                B = (Q * ev) @ Q.conj().T
                B = (B + B.conj().T) / 2
            else:
                A = _rand(rs, (m, m), spec['cplx'])
                B = (A + A.conj().T) / 2
        else:
            B = _rand(rs, (m, m), spec['cplx'])
            if sp == 'lowrank':
                k = max(1, m // 3)
                B = _rand(rs, (m, k), spec['cplx']) @ _rand(rs, (k, m), spec['cplx'])
            elif sp == 'normal':
                Q = _unitary(rs, m, True if spec['cplx'] else False)
                ev = rs.standard_normal(m) + (1j * rs.standard_normal(m) if spec['cplx'] else 0)
                B = (Q * ev) @ Q.conj().T
            B = B / max(1.0, np.sqrt(m) / 2)
        M[np.ix_(I, I)] = B
    return M


def start_vector(spec, M):
    """Start vector in the charge sector of block spec['sector']; kinds: random, few (combination of few
    eigenvectors of the sector block -> invariant subspace -> early exit), basis (a unit vector)."""
    leg = spec['leg']
    rs = np.random.RandomState((spec['seed'] * 7 + 13) % (2 ** 31))
    I = sector_indices(leg, spec['sector'])
    n = M.shape[0]
    m = len(I)
    v = np.zeros(n, dtype=M.dtype)
    kind = spec.get('start', 'random')
    if kind == 'few' and spec['herm'] and m >= 2:
        w, V = np.linalg.eigh(M[np.ix_(I, I)])
        k = min(m, spec.get('few', 2))
        cols = rs.choice(m, size=k, replace=False)
        c = rs.standard_normal(k) + 0.5
        x = V[:, cols] @ c
    elif kind == 'eigvec' and m >= 1:
        # an eigenvector of a general block (invariant subspace of dimension 1; real part for real operators)
        w, V = np.linalg.eig(M[np.ix_(I, I)])
        x = V[:, rs.randint(m)]
        if not spec['cplx']:
            x = x.real if np.linalg.norm(x.real) > 0.1 else x.imag
        x = np.asarray(x, dtype=M.dtype)
    elif kind == 'basis':
        x = np.zeros(m, dtype=M.dtype)
        x[rs.randint(m)] = 1.0
    else:
        x = _rand(rs, (m,), spec['cplx'])
    x = x * spec.get('scale', 1.0)
    v[I] = x
    return v


def extra_vectors(spec, M, count, tag=1):
    """further random vectors in the same sector (ortho_vecs, rhs, ...)."""
    leg = spec['leg']
    rs = np.random.RandomState((spec['seed'] * 31 + 101 * tag) % (2 ** 31))
    I = sector_indices(leg, spec['sector'])
    out = []
    for _ in range(count):
        v = np.zeros(M.shape[0], dtype=M.dtype)
        v[I] = _rand(rs, (len(I),), spec['cplx'])
        out.append(v)
    return out


def enc(a):
    """numpy array -> JSON (nested lists of [re, im])."""
    a = np.asarray(a)
    if a.ndim == 0:
        return [float(np.real(a)), float(np.imag(a))]
    return [enc(x) for x in a]


def dec(x):
    a = np.array(x, dtype=float)
    if a.size == 0:
        return np.zeros(a.shape[:-1] if a.ndim > 1 else (0,), dtype=complex)
    return a[..., 0] + 1j * a[..., 1]


# ------------------------------------------------------------------------------ wrapper trees (coverage audit)
# tree := ['leaf', seed_offset, herm]
#       | ['sum', tree, tree]
#       | ['shift', tree, [re, im]]
#       | ['boost', tree, [[re, im], ...], tag, cplx_vecs, [scale, ...]]          orig + sum_i b_i |v_i><v_i|   (v_i as given, NOT normalised)
#       | ['ortho', tree, count, tag, cplx_vecs, dependent, [scale, ...]]         P orig P,  P = 1 - projector on span(o_i)
def pair_indices(spec, spec2):
    """flat (row-major) indices i_a * n_b + i_b of the two-leg vectors theta[a, b] with the total charge of (sector of spec, sector of spec2)"""
    fa, fb = flat_charges(spec['leg']), flat_charges(spec2['leg'])
    mods = spec['leg']['mods']
    ja, jb = spec['leg']['qconj'], spec2['leg']['qconj']

    def tot(a, b):
        return tuple(((ja * u + jb * v) % mm) if mm > 1 else (ja * u + jb * v) for u, v, mm in zip(a, b, mods))
    want = tot(tuple(spec['leg']['charges'][spec['sector']]), tuple(spec2['leg']['charges'][spec2['sector']]))
    nb = len(fb)
    return [i * nb + j for i, a in enumerate(fa) for j, b in enumerate(fb) if tot(a, b) == want]


def tree_vectors(spec, count, tag, cplx, scales=None, spec2=None):
    """`count` vectors in the charge sector of spec (full-space numpy vectors); real or complex entries independent of the operator dtype.
    With spec2: flattened two-leg vectors theta[a, b] in the sector of the pair."""
    rs = np.random.RandomState((spec['seed'] * 31 + 101 * tag + 7) % (2 ** 31))
    if spec2 is not None:
        I = pair_indices(spec, spec2)
        n = sum(spec['leg']['sizes']) * sum(spec2['leg']['sizes'])
        out = []
        for i in range(count):
            v = np.zeros(n, dtype=complex if cplx else float)
            v[I] = _rand(rs, (len(I),), cplx)
            if scales:
                v = v * scales[i % len(scales)]
            out.append(v)
        return out
    I = sector_indices(spec['leg'], spec['sector'])
    n = sum(spec['leg']['sizes'])
    out = []
    for i in range(count):
        v = np.zeros(n, dtype=complex if cplx else float)
        v[I] = _rand(rs, (len(I),), cplx)
        if scales:
            v = v * scales[i % len(scales)]
        out.append(v)
    return out


def tree_ortho_vectors(spec, tree, spec2=None):
    ovs = tree_vectors(spec, tree[2], tree[3], tree[4], tree[6] if len(tree) > 6 else None, spec2)
    if tree[5] and len(ovs) > 1:
        ovs[1] = 2.0 * ovs[0]
    return ovs


def projector(ovs, n):
    if not ovs:
        return np.eye(n)
    O = np.array(ovs).T
    U, sv, _ = np.linalg.svd(O, full_matrices=False)
    U = U[:, sv > 1e-10 * max(1e-300, sv[0])]
    return np.eye(n) - U @ U.conj().T


def tree_dense(spec, tree, spec2=None):
    """dense matrix of the operator a wrapper tree stands for, written from the class documentation.
    With spec2 the leaves are MA (x) 1 + 1 (x) MB acting on flattened two-leg vectors theta[a, b]."""
    kind = tree[0]
    if kind == 'leaf':
        MA = dense_operator(dict(spec, seed=spec['seed'] + tree[1], herm=bool(tree[2])))
        if spec2 is None:
            return MA
        MB = dense_operator(dict(spec2, seed=spec2['seed'] + tree[1], herm=bool(tree[2])))
        return np.kron(MA, np.eye(MB.shape[0])) + np.kron(np.eye(MA.shape[0]), MB)
    A = tree_dense(spec, tree[1], spec2)
    n = A.shape[0]
    if kind == 'sum':
        return A + tree_dense(spec, tree[2], spec2)
    if kind == 'shift':
        s = complex(*tree[2])
        return A + (s if s.imag != 0 else s.real) * np.eye(n)
    if kind == 'boost':
        vs = tree_vectors(spec, len(tree[2]), tree[3], tree[4], tree[5] if len(tree) > 5 else None, spec2)
        out = A.astype(complex)
        for b, v in zip(tree[2], vs):
            out = out + complex(*b) * np.outer(v, v.conj())
        return out
    if kind == 'ortho':
        P = projector(tree_ortho_vectors(spec, tree, spec2), n)
        return P @ A @ P
    raise ValueError(kind)


def tree_first_leaf(tree):
    while tree[0] != 'leaf':
        tree = tree[1]
    return tree


def tree_kinds(tree, out=None):
    out = [] if out is None else out
    out.append(tree[0])
    if tree[0] != 'leaf':
        tree_kinds(tree[1], out)
        if tree[0] == 'sum':
            tree_kinds(tree[2], out)
    return out
