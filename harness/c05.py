"""C05 - matrix factorisations are exact, structured and charge-compatible.

proof gate (coq/Props/C05.v: charge bookkeeping of svd / qr for every blocked charge structure, request and kept ranks)
+ correspondence (inner leg and total charges of svd/qr/lq against Model/Factor.v, fed with the ranks the dense oracle finds)
+ dense numpy oracles for every routine (the numeric clauses are oracle-only, see tools/manifest/C05.py).
"""
import common

F10A = 'C05:svd(full_matrices=True):missing-blocks:not-unitary'
F10B = 'C05:svd(full_matrices=True):qtotal_L-or-qtotal_R!=0:charge-rule'
FPOLAR = 'C05:polar(left=True):p=W.s^2.W^dagger'
FSPEIGS = 'C05:speigs:charge-sector-without-stored-block:TypeError'
FSPEIGS2 = 'C05:speigs:real-input:complex-eigenvector-in-float64-Array'
FQR = 'C05:qr(pos_diag_R=True):zero-on-R-diagonal:NaN'

FINT_SVD = 'C05:svd:integer-dtype-input:factors-truncated-to-int'
FINT_QR = 'C05:qr:integer-dtype-input:float-blocks-in-int-Array'
FSPEIGS3 = 'C05:speigs(return_eigenvectors=False):k>=d-1:all-d-eigenvalues-returned'

MODS = [[], [1], [1], [2], [3], [1, 2], [1, 1]]
SURGERY = ['keep', 'keep', 'keep', 'zero', 'rankdef', 'drop', 'rank1']
LAYOUTS = ['C', 'C', 'C', 'F', 'view']


def rand_leg(rng, mods, maxb=3, sizes=(1, 2, 3), lo=-1, hi=1, blocked=None):
    b = rng.randint(1, maxb)
    ch = [[rng.randint(lo, hi) for _ in mods] for _ in range(b)]
    if blocked:
        seen = []
        for c in ch:
            if c not in seen:
                seen.append(c)
        ch = seen
        b = len(ch)
    return [[rng.choice(sizes) for _ in range(b)], ch, rng.choice([1, -1])]


def rand_dtype(rng, ints=0.06):
    r = rng.random()
    if r < ints:
        return 'i8'
    return 'f8' if r < 0.6 else 'c16' if r < 0.88 else 'f4' if r < 0.95 else 'c8'


def storage(rng, c, ints=0.06):
    """representation variants of the same matrix: dtype, order of the stored blocks, memory layout of the blocks"""
    c['dtype'] = rand_dtype(rng, ints)
    c['complex'] = c['dtype'] in ('c16', 'c8')
    c['shuffle'] = rng.random() < 0.3
    c['layout'] = rng.choice(LAYOUTS)
    return c


def rand_matrix(rng, seed, square=False, hermitian=False, ints=0.06):
    mods = rng.choice(MODS)
    r = rng.random()
    case = {'seed': seed, 'mods': mods}
    if square and rng.random() < 0.3:
        # two-site operator: square matrix over a LegPipe and its conjugate
        case['legs'] = [rand_leg(rng, mods, maxb=2, sizes=(1, 2)) for _ in range(2)]
        case['pipe_square'] = True
        case['hermitian'] = hermitian
        case['qtotal_block'] = [0]
    elif square:
        case['legs'] = [rand_leg(rng, mods, maxb=4, sizes=(1, 2, 3, 5), blocked=rng.random() < 0.5)]
        case['square'] = True
        case['hermitian'] = hermitian
        case['qtotal_block'] = [0]
    elif r < 0.5:      # direct rank-2, legs mostly not blocked / not sorted
        case['legs'] = [rand_leg(rng, mods, maxb=4, blocked=rng.random() < 0.3), rand_leg(rng, mods, maxb=4, blocked=rng.random() < 0.3)]
        case['qtotal_block'] = [rng.randrange(4), rng.randrange(4)]
    else:              # rank 3-4 tensor combined into a matrix
        rank = rng.choice([3, 3, 4])
        case['legs'] = [rand_leg(rng, mods, maxb=2, sizes=(1, 2)) for _ in range(rank)]
        axes = list(range(rank))
        rng.shuffle(axes)
        k = rng.randint(1, rank - 1)
        case['combine'] = [axes[:k], axes[k:]]
        case['pipe_qconj'] = [rng.choice([1, -1]), rng.choice([1, -1])]
        case['qtotal_block'] = [rng.randrange(3) for _ in range(rank)]
    if rng.random() < 0.55:
        case['surgery'] = [rng.choice(SURGERY) for _ in range(rng.randint(1, 4))]
    else:
        case['surgery'] = []
    if rng.random() < 0.15:
        case['drop_first_last'] = rng.choice([['first'], ['last'], ['first', 'last']])
    return storage(rng, case, ints)


# option spaces as documented in the docstrings of the anchored functions (the check draws from these lists; the i-th case of a
# stream takes the (i mod len)-th entry, so that every documented value occurs whatever the seed is)
SVD_CUTOFF = [None, None, 0.0, 1e-9, 2.5, 7.0, 'tie']
SVD_QTOTAL_LR = [[None, None], [None, None], ['a', None], [None, 'a'], ['zero', None], [None, 'zero'], ['minus', None], [None, 'minus'],
                 ['minus', 'rest'], ['a', 'rest'], ['zero', 'rest'], ['a', 'both'], ['zero', 'both'], ['minus', 'both']]
LABELS = [[None, None], ['x', 'y'], [None, 'y'], ['x', None]]
QR_CUTOFF = [None, None, None, 1e-11, 1e-8, 0.5, 3.3]
QR_QTOTAL_Q = [None, None, 'a', 'one', 'zero']
EIG_SORT = [None, 'm>', 'm<', '>', '<']
SPEIGS_WHICH = ['LM', 'SM', 'LR', 'SR', 'LI', 'SI']
SPEIGS_RET = ['vectors', 'vectors', 'kw_false', 'args', 'args_false']
PINV_CUTOFF = [None, 1e-9, 1e-9, 1e-12, 2.5]
POLAR_CUTOFF = [None, None, 0.0, 1e-9, 2.5]


def svd_case(rng, seed, i=None):
    c = rand_matrix(rng, seed)
    i = rng.randrange(10 ** 6) if i is None else i
    full = i % 4 == 3
    o = {'full_matrices': full, 'inner_qconj': rng.choice([1, -1]),
         'inner_labels': LABELS[i % len(LABELS)],
         'qtotal_LR': SVD_QTOTAL_LR[(i // 3) % len(SVD_QTOTAL_LR)], 'q_as_list': rng.random() < 0.3, 'uv_all_opts': rng.random() < 0.5}
    if not full:
        o['cutoff'] = SVD_CUTOFF[(i // 4) % len(SVD_CUTOFF)]
    c['opts'] = o
    return c


def qr_case(rng, seed, i=None):
    c = rand_matrix(rng, seed)
    i = rng.randrange(10 ** 6) if i is None else i
    mode = ['reduced', 'reduced', 'complete'][i % 3]
    o = {'mode': mode, 'inner_qconj': rng.choice([1, -1]), 'inner_labels': LABELS[(i // 3) % len(LABELS)],
         'qtotal_Q': QR_QTOTAL_Q[(i // 2) % len(QR_QTOTAL_Q)], 'q_as_list': rng.random() < 0.3, 'pos_diag': rng.random() < 0.5, 'lq': rng.random() < 0.4}
    if mode == 'reduced':
        # cutoff is documented for the 'reduced' mode only ("might reduce K of the 'reduced' mode even further")
        o['cutoff'] = QR_CUTOFF[(i // 3) % len(QR_CUTOFF)]
    c['opts'] = o
    return c


def eig_case(rng, seed, i=None):
    i = rng.randrange(10 ** 6) if i is None else i
    herm = i % 2 == 0
    c = rand_matrix(rng, seed, square=True, hermitian=herm, ints=0.05)
    c['opts'] = {'sort': EIG_SORT[(i // 2) % len(EIG_SORT)], 'UPLO': rng.choice(['L', 'U']),
                 # speigs: sector (index into the blocked leg), k relative to the sector size (d-2: ARPACK; d-1, d: dense; d+1: trimmed) or absolute
                 'sector': rng.choice(['largest', 'largest', 0, 1, 2, 3]), 'k': rng.choice([1, 2]),
                 'k_rel': rng.choice([None, None, -3, -2, -1, 0, 1]), 'which': SPEIGS_WHICH[(i // 3) % len(SPEIGS_WHICH)],
                 'ret': SPEIGS_RET[(i // 5) % len(SPEIGS_RET)], 'sector_as_list': rng.random() < 0.5}
    if herm and rng.random() < 0.5:
        c['uplo_garbage'] = True
    return c


def pinv_case(rng, seed, i=None):
    c = rand_matrix(rng, seed)
    i = rng.randrange(10 ** 6) if i is None else i
    c['opts'] = {'pinv_cutoff': PINV_CUTOFF[i % len(PINV_CUTOFF)], 'polar_cutoff': POLAR_CUTOFF[(i // 2) % len(POLAR_CUTOFF)],
                 'inner_labels': [None, ['x', 'y'], None, ['x', 'x']][(i // 3) % 4]}
    return c


def ortho_case(rng, seed, i=None):
    mods = rng.choice(MODS)
    i = rng.randrange(10 ** 6) if i is None else i
    L = rand_leg(rng, mods, maxb=4, sizes=(1, 2, 3, 4), blocked=rng.random() < 0.6)
    shape = ['tall'] * 8 + ['square', 'wide']
    shape = shape[i % len(shape)]
    qR = -L[2] if rng.random() < 0.7 else L[2]
    qtot = [rng.randint(-1, 1) for _ in mods] if rng.random() < 0.4 else [0 for _ in mods]
    Rs, Rc = [], []
    seen = []
    for s, ch in zip(L[0], L[1]):
        key = [x if m == 1 else x % m for m, x in zip(mods, ch)]
        if key in seen or (shape == 'tall' and rng.random() < 0.25):
            continue
        seen.append(key)
        r = s if shape != 'tall' else rng.randint(0, s)
        if shape == 'wide':
            r = s + 1
        if r > 0:
            Rs.append(r)
            # charge of the column sector that pairs with the row sector `ch`: qL*cL + qR*cR = qtot
            Rc.append([qR * (t - L[2] * x) for t, x in zip(qtot, ch)])
    if not Rs:
        Rs, Rc = [1], [[qR * (t - L[2] * x) for t, x in zip(qtot, L[1][0])]]
    if shape != 'tall':
        # square / wide: the column leg pairs with every row index, so the row leg has to be blocked
        if len(seen) != len(L[0]):
            keep = []
            seen2 = []
            for k, ch in enumerate(L[1]):
                key = [x if m == 1 else x % m for m, x in zip(mods, ch)]
                if key not in seen2:
                    seen2.append(key)
                    keep.append(k)
            L = [[L[0][k] for k in keep], [L[1][k] for k in keep], L[2]]
    if rng.random() < 0.3 and max(Rs) >= 2:     # right leg not blocked: a column sector split into two blocks of equal charge
        k = rng.choice([j for j, x in enumerate(Rs) if x >= 2])
        Rs[k] -= 1
        Rs.append(1)
        Rc.append(Rc[k])
    R = [Rs, Rc, qR]
    if rng.random() < 0.4 and len(Rs) > 1:     # unsorted / permuted right leg
        perm = list(range(len(Rs)))
        rng.shuffle(perm)
        R = [[Rs[k] for k in perm], [Rc[k] for k in perm], qR]
    c = {'seed': seed, 'mods': mods, 'legs': [L, R], 'qtotal_block': [0, 0], 'qtotal_explicit': qtot,
         'surgery': [], 'opts': {'new_label': rng.choice([None, 'new'])}}
    storage(rng, c, ints=0.05)
    if c['dtype'] in ('f4', 'c8'):
        c['dtype'] = 'c16' if c['complex'] else 'f8'
    return c


REJECT_ITEMS = ['svd:rank3', 'svd:full_matrices+cutoff', 'svd:full_matrices+compute_uv=False', 'svd:qtotal_LR-inconsistent', 'polar:rank3',
                'polar:cutoff<0', 'pinv:cutoff=0', 'pinv:cutoff<0', 'qr:rank3', 'lq:rank3', 'orthogonal_columns:rank3', 'orthogonal_columns:M<N',
                'expm:non-square', 'expm:qtotal!=0', 'expm:not-contractible', 'speigs:non-square', 'speigs:qtotal!=0', 'speigs:sector-not-in-leg',
                'norm:unknown-type', 'tools.speigs:non-square', 'tools.speigsh:non-square'] + \
    [f + ':' + w for f in ('eigh', 'eig', 'eigvalsh', 'eigvals') for w in ('non-square', 'rank3', 'qtotal!=0', 'not-contractible')]
NORM_ORDS = ['None', 'inf', '-inf', 0, 1, 2, 3]


def aux_cases(rng, base, n):
    """dense helpers, npc.norm, rejected requests and retry branches; n scales the random part"""
    out = []
    k = 0

    def seed():
        nonlocal k
        k += 1
        return base + k
    # svd_robust.svd: every documented option, both drivers, failing gesdd
    for i in range(n):
        o = {'full_matrices': i % 2 == 0, 'compute_uv': i % 5 != 4, 'overwrite_a': i % 3 == 0, 'check_finite': i % 7 != 6,
             'lapack_driver': ['gesdd', 'gesdd', 'gesvd', 'gesdd', 'bad'][i % 5] if i % 11 else 'gesdd', 'warn': i % 4 != 1, 'fail_gesdd': i % 3 == 1,
             'defaults': i % 13 == 12}
        out.append({'what': 'svd_robust', 'seed': seed(), 'M': rng.randint(1, 5), 'N': rng.randint(1, 5), 'r': rng.randint(0, 5),
                    'dtype': ['f8', 'c16', 'f8', 'f4', 'c8', 'i8'][i % 6], 'layout': LAYOUTS[(i // 2) % len(LAYOUTS)], 'opts': o})
    # qr_li / rq_li
    for i in range(2 * n):
        out.append({'what': ['qr_li', 'rq_li'][i % 2], 'seed': seed(), 'M': rng.randint(1, 6), 'N': rng.randint(1, 6),
                    'r': [0, 1, 2, 6, 6][(i // 2) % 5] if i % 3 else rng.randint(0, 6), 'dtype': ['f8', 'c16'][(i // 2) % 2],
                    'layout': LAYOUTS[(i // 4) % len(LAYOUTS)], 'opts': {'cutoff': [None, 1e-8, 1e-11, 0.5, 3.3][(i // 2) % 5]}})
    # tools.math.speigs / speigsh
    for i in range(2 * n):
        herm = i % 2 == 1
        out.append({'what': 'speigsh' if herm else 'speigs', 'seed': seed(), 'd': rng.randint(1, 7), 'dtype': ['f8', 'c16'][(i // 2) % 2],
                    'opts': {'k_rel': [-3, -2, -1, 0, 1, -4][(i // 2) % 6], 'which': (['LM', 'SM', 'LA', 'SA'] if herm else SPEIGS_WHICH)[(i // 2) % (4 if herm else 6)],
                             'ret': SPEIGS_RET[(i // 3) % len(SPEIGS_RET)], 'operator': (i // 2) % 3 == 2}})
    # npc.norm
    for i in range(n):
        c = rand_matrix(rng, seed(), ints=0.25)
        c['what'] = 'norm'
        c['opts'] = {'arg': ['Array', 'Array', 'ndarray', 'list'][i % 4], 'ord': NORM_ORDS[(i // 4) % len(NORM_ORDS)], 'convert_to_float': i % 5 != 4}
        if c['dtype'] == 'i8' and not c['opts']['convert_to_float'] and c['opts']['ord'] not in ('inf', '-inf', 0):
            c['opts']['convert_to_float'] = True       # integer overflow / integer powers are what convert_to_float is for
        out.append(c)
    # requests the routines have to reject
    for i, item in enumerate(REJECT_ITEMS * max(1, n // 40)):
        out.append({'what': 'reject', 'seed': seed(), 'mods': [1], 'square': True, 'hermitian': False, 'dtype': 'f8', 'complex': False, 'surgery': [],
                    'layout': 'C', 'qtotal_block': [0], 'legs': [[[2, 1, 2], [[0], [1], [-1]], rng.choice([1, -1])]],
                    'opts': {'item': item, 'absent_sector': [5]}})
    # NaN from LAPACK: retry with gesvd / ValueError
    for i in range(max(6, n // 4)):
        c = rand_matrix(rng, seed())
        c['what'] = 'svd_nan'
        c['dtype'], c['complex'] = ('f8', False) if i % 2 else ('c16', True)
        c['surgery'] = [m for m in c['surgery'] if m in ('keep', 'drop')]
        c['opts'] = {'mode': ['retry', 'retry', 'both', 'S'][i % 4], 'block': i // 4, 'full_matrices': i % 8 == 1}
        out.append(c)
    return out


# ------------------------------------------------------------------------------------------------
# Coq literals
# ------------------------------------------------------------------------------------------------

def zl(xs):
    return '(@nil Z)' if not xs else '[' + '; '.join('(%d)' % x for x in xs) + ']'


def blocks_lit(bl):
    return '(@nil (Z * list Z))' if not bl else '[' + '; '.join('((%d), %s)' % (s, zl(c)) for s, c in bl) + ']'


def leg_lit(l):
    return '(%s, (%d))' % (blocks_lit(l[0]), l[1])


def qdata_lit(qd):
    return '(@nil (nat * nat))' if not qd else '[' + '; '.join('(%d%%nat, %d%%nat)' % (a, b) for a, b in qd) + ']'


def oz(q):
    return '(@None (list Z))' if q is None else '(Some %s)' % zl(q)


def svd_lit(case, r):
    b = r['blocked']
    return '(%s, %s, %s, %s, %s, %s, %s, %s, (%d), (%s, %s, %s))' % (
        zl(case['mods']), leg_lit(b['legL']), leg_lit(b['legR']), zl(b['qtotal']), qdata_lit(b['qdata']), zl(r['nums']),
        oz(r['qreq'][0]), oz(r['qreq'][1]), case['opts']['inner_qconj'],
        leg_lit(r['V']['inner']), zl(r['U']['qtotal']), zl(r['V']['qtotal']))


def qr_lit(case, r):
    b = r['blocked']
    ks = [k if k is not None else -1 for k in r['ks']]
    return '(%s, %s, %s, %s, %s, %s, %s, %s, (%d), (%s, %s, %s))' % (
        zl(case['mods']), leg_lit(b['legL']), leg_lit(b['legR']), zl(b['qtotal']), qdata_lit(b['qdata']), zl(ks),
        'true' if case['opts']['mode'] == 'complete' else 'false', oz(r['qtq']), case['opts']['inner_qconj'],
        leg_lit(r['R']['inner']), zl(r['Q']['qtotal']), zl(r['R']['qtotal']))


def lq_lit(case, r):
    """Model/FactorCase2.v check_lq_case: the blocked structure of a itself (lq_charges transposes)"""
    b = r['blocked_a']
    return '((%s, %s, %s, %s, %s, %s, %s, %s, (%d), (%s, %s, %s)) : lq_case_t)' % (
        zl(case['mods']), leg_lit(b['legL']), leg_lit(b['legR']), zl(b['qtotal']), qdata_lit(b['qdata']), zl(r['ks_a']),
        'true' if case['opts']['mode'] == 'complete' else 'false', oz(r['qtq']), case['opts']['inner_qconj'],
        leg_lit(r['R']['inner']), zl(r['Q']['qtotal']), zl(r['R']['qtotal']))


def zm(rows):
    return '[' + '; '.join(zl(r) for r in rows) + ']'


def nl(xs):
    return '[' + '; '.join('%d%%nat' % x for x in xs) + ']'


def ents_lit(es):
    return '[' + '; '.join('(%d%%nat, %d%%nat, %s)' % (i, j, zm(m)) for i, j, m in es) + ']'


def plan_case(rng, seed, what):
    if what == 'eig':
        c = rand_matrix(rng, seed, square=True, hermitian=rng.random() < 0.5)
        c['opts'] = {}
    else:
        c = rand_matrix(rng, seed)
        if what == 'posdiag':
            c['opts'] = {'mode': rng.choice(['reduced', 'reduced', 'complete']), 'inner_qconj': rng.choice([1, -1]),
                         'zero_rate': rng.choice([0.0, 0.0, 0.0, 0.15])}
        else:
            c['opts'] = {'full_matrices': rng.random() < 0.25, 'inner_qconj': rng.choice([1, -1])}
    c['surgery'] = [m for m in c['surgery'] if m in ('keep', 'drop')]      # values come from the stub; only the block structure matters
    c['dtype'], c['complex'] = 'f8', False
    c.pop('uplo_garbage', None)
    c['plan'] = what
    return c


def plan_lits(case, r):
    """(checker, literal) pairs of Model/FactorCase2.v for one 'plan' result"""
    what = case['plan']
    b = r['blocked']
    if what == 'eig':
        eigs = '[' + '; '.join('(%s, %s)' % (zl(w), zm(v)) for w, v in r['eigs']) + ']'
        return [('check_eig_case', '((%s, %s, %s, (%s, %s)) : eig_case_t)' % (
            leg_lit(b['legL']), qdata_lit(b['qdata']), eigs, ents_lit(r['resv']), zl(r['resw'])))]
    if what == 'posdiag':
        out = []
        for k in r['blocks']:
            o = 'None' if k['out'] is None else '(Some (%s, %s))' % (zm(k['out'][0]), zm(k['out'][1]))
            out.append(('check_posdiag_case', '((%d%%nat, %d%%nat, %d%%nat, %s, %s, %s) : posdiag_case_t)' % (
                k['M'], k['P'], k['N'], zm(k['Q']), zm(k['R']), o)))
        if 'qfill' in r:
            f = r['qfill']
            out.append(('check_qr_fill_case', '((%s, %s, (%s, %s)) : qr_fill_case_t)' % (
                nl(f['rs']), nl(f['rows']), qdata_lit(f['qd']), '[' + '; '.join(zm(m) for m in f['extra']) + ']')))
        return out
    if what == 'svdasm':
        if 'raised' in r:
            return []
        fs = '[' + '; '.join('(%d%%nat, %d%%nat, (%d%%nat, %s, %s, %s))' % (i, j, n, zm(U), zl(S), zm(V)) for i, j, n, U, S, V in r['fs']) + ']'
        out = [('check_svd_dense_case', '((%s, %s, %s, %s, (%s, %s, %s, %s)) : svd_dense_case_t)' % (
            nl(r['rs']), nl(r['cs']), fs, 'true' if case['opts']['full_matrices'] else 'false',
            ents_lit(r['U']), zl(r['S']), ents_lit(r['V']), nl(r['ns'])))]
        if case['opts']['full_matrices']:
            out.append(('check_svd_vfull_case', '((%s, %s, %s) : svd_vfull_case_t)' % (nl(r['cs']), fs, ents_lit(r['V']))))
        return out
    return []


PLAN_IMPORTS = ['Base.Prelude', 'Model.ChargeL', 'Model.Leg', 'Model.Factor', 'Model.FactorCase', 'Model.Factor2', 'Model.FactorDense',
                'Model.FactorDense2', 'Model.FactorDense3', 'Model.FactorCase2', 'Model.FactorCase3']


LINECOV = {'executable': {}, 'hit': {}}


def run_chunks(kind, cases, config='py', n=None):
    n = n or common.NPROC
    chunks = [cases[i::n] for i in range(n)]
    res = common.run_impl_parallel('c05_impl.py', [{'kind': kind, 'cases': ch} for ch in chunks if ch], config=config, optimize0=True)
    out = [None] * len(cases)
    k = 0
    for i, ch in enumerate(chunks):
        if not ch:
            continue
        r, err = res[k]
        k += 1
        if err:
            return None, err
        lc = r.get('linecov')
        if lc:
            for key, lines in lc['executable'].items():
                LINECOV['executable'][key] = lines
            for key, lines in lc['hit'].items():
                LINECOV['hit'].setdefault(key, set()).update(lines)
        for j, x in enumerate(r['results']):
            out[i + j * n] = x
    return out, None


def match_key(key):
    """known-finding keys for the structural conditions named in DESIGN section 8 (F10) and the pos_diag NaN"""
    intd = key.endswith(':integer-dtype')
    base = key[:-len(':integer-dtype')] if intd else key
    if base.startswith('svd-full:'):
        what, _, cond = base[len('svd-full:'):].partition(':')
        if what in ('U-unitary', 'V-unitary') and cond.startswith('missing-blocks'):
            return F10A
        if what in ('U-charge-rule', 'VH-charge-rule') and cond.endswith('+qtotal_LR!=0'):
            return F10B
    if intd:
        head = key.split(':')[0]
        if head in ('svd', 'svd-full', 'pinv', 'polar'):
            return FINT_SVD
        if head in ('qr', 'lq', 'ortho'):
            return FINT_QR
    if key == 'polar:reconstruct:left:p=a.a^dagger':
        return FPOLAR
    if key == 'speigs:raises:missing-sector-block':
        return FSPEIGS
    if key in ('speigs:eigenpair:real-Array-dtype-with-complex-data', 'speigs:structure:real-Array-dtype-with-complex-data'):
        return FSPEIGS2
    if key in ('qr:nan:pos_diag+singular-R-diagonal', 'lq:nan:pos_diag+singular-R-diagonal'):
        return FQR
    if key in ('speigs:count:return_eigenvectors=False:dense-branch', 'speigsh:count:return_eigenvectors=False:dense-branch'):
        return FSPEIGS3
    return None


# ------------------------------------------------------------------------------------------------
# coverage table: public names of the anchored modules x documented options / explicit branches
# ------------------------------------------------------------------------------------------------

M_NPC, M_SVD, M_MATH = 'tenpy.linalg.np_conserved', 'tenpy.linalg.svd_robust', 'tenpy.tools.math'
NOT_C05 = 'not a factorisation routine (construction / contraction / charge detection: properties C01-C04)'
# every public name of the anchored modules is either covered (signature + option classes below) or excluded with a reason
PUBLIC = {
    M_NPC: {
        'covered': ['svd', 'polar', 'pinv', 'norm', 'eigh', 'eig', 'eigvalsh', 'eigvals', 'speigs', 'expm', 'qr', 'lq', 'orthogonal_columns'],
        'excluded': {n: NOT_C05 for n in ['QCUTOFF', 'ChargeInfo', 'DipolarChargeInfo', 'LegCharge', 'LegPipe', 'Array', 'zeros', 'ones', 'eye_like', 'diag',
                                         'concatenate', 'grid_concat', 'grid_outer', 'detect_grid_outer_legcharge', 'detect_qtotal', 'detect_legcharge',
                                         'trace', 'outer', 'inner', 'tensordot', 'to_iterable_arrays']}},
    M_SVD: {'covered': ['svd'], 'excluded': {}},
    M_MATH: {'covered': ['qr_li', 'rq_li', 'speigs', 'speigsh', 'matvec_to_array'],
             'excluded': {n: 'number theory / entropy helper, no matrix factorisation' for n in ['LeviCivita3', 'entropy', 'gcd', 'gcd_array', 'lcm', 'perm_sign']}},
}
# parameters of the covered functions (compared with inspect.signature of the code under test) -> (stream, tag prefix, required classes)
SIGNATURES = {
    M_NPC + ':svd': {'a': ('svd', 'dtype=', ['f8', 'c16', 'f4', 'c8', 'i8']), 'full_matrices': ('svd', 'full_matrices=', ['True', 'False']),
                     'compute_uv': ('svd', 'compute_uv=', ['False', 'False+opts']), 'cutoff': ('svd', 'cutoff=', ['None', '0.0', 'tiny', 'large', 'tie-with-singular-value']),
                     'qtotal_LR': ('svd', 'qtotal_LR=', ['default', 'L', 'R', 'L+R']), 'inner_labels': None, 'inner_qconj': ('svd', 'inner_qconj=', ['1', '-1'])},
    M_NPC + ':polar': {'a': ('pinv', 'dtype=', ['f8', 'c16']), 'cutoff': ('pinv', 'polar:left=False,cutoff=', ['default', '0.0', 'tiny', 'large']),
                       'left': ('pinv', 'polar:left=', ['False', 'True']), 'inner_labels': None},
    M_NPC + ':pinv': {'a': ('pinv', 'dtype=', ['f8', 'c16']), 'cutoff': ('pinv', 'pinv:cutoff=', ['default', 'tiny', 'large'])},
    M_NPC + ':norm': {'a': ('aux', 'norm:arg=', ['Array', 'ndarray', 'list']), 'ord': ('aux', 'norm:ord=', [str(x) for x in NORM_ORDS]),
                      'convert_to_float': ('aux', 'norm:convert_to_float=', ['True', 'False'])},
    M_NPC + ':eigh': {'a': ('eig', 'hermitian=', ['True']), 'UPLO': ('eig', 'UPLO=', ['L', 'U', 'L+other-triangle-garbage', 'U+other-triangle-garbage']),
                      'sort': ('eig', 'sort=', [str(x) for x in EIG_SORT])},
    M_NPC + ':eigvalsh': {'a': ('eig', 'hermitian=', ['True']), 'UPLO': ('eig', 'UPLO=', ['L', 'U']), 'sort': ('eig', 'sort=', [str(x) for x in EIG_SORT])},
    M_NPC + ':eig': {'a': ('eig', 'hermitian=', ['False']), 'sort': ('eig', 'sort=', [str(x) for x in EIG_SORT])},
    M_NPC + ':eigvals': {'a': ('eig', 'hermitian=', ['False']), 'sort': ('eig', 'sort=', [str(x) for x in EIG_SORT])},
    M_NPC + ':speigs': {'a': ('eig', 'speigs:', ['block', 'no-block']), 'charge_sector': ('eig', 'speigs:', ['block', 'no-block']),
                        'k': ('eig', 'speigs:k', ['>d']), 'args': ('eig', 'speigs:*ret=', ['args', 'args_false']),
                        'kwargs': ('eig', 'speigs:*ret=', ['vectors', 'kw_false'])},
    M_NPC + ':expm': {'a': ('eig', 'expm', [''])},
    M_NPC + ':qr': {'a': ('qr', 'dtype=', ['f8', 'c16', 'f4', 'c8', 'i8']), 'mode': ('qr', 'mode=', ['reduced', 'complete']), 'inner_labels': None,
                    'cutoff': ('qr', 'cutoff=', ['None', 'tiny', 'large']), 'pos_diag_R': ('qr', 'pos_diag=', ['True', 'False']),
                    'qtotal_Q': ('qr', 'qtotal_Q=', ['None', '0', '!=0']), 'inner_qconj': ('qr', 'inner_qconj=', ['1', '-1'])},
    M_NPC + ':lq': {'a': ('qr', 'lq=', ['True']), 'mode': ('qr', 'mode=', ['reduced', 'complete']), 'inner_labels': None,
                    'cutoff': ('qr', 'cutoff=', ['None', 'tiny', 'large']), 'pos_diag_L': ('qr', 'pos_diag=', ['True', 'False']),
                    'qtotal_Q': ('qr', 'qtotal_Q=', ['None', '0', '!=0']), 'inner_qconj': ('qr', 'inner_qconj=', ['1', '-1'])},
    M_NPC + ':orthogonal_columns': {'a': ('ortho', '', ['M==N:empty-result', 'M<N:raises', 'first-row-sector-without-block', 'last-row-sector-without-block',
                                                        'middle-row-sector-without-block', 'square-block(no-orthogonal-column)', 'qtotal_a=!=0',
                                                        'right_qconj=left', 'right_qconj=-left']),
                                    'new_label': ('ortho', 'new_label=', ['True', 'False'])},
    M_SVD + ':svd': {'a': ('aux', 'svd_robust:dtype=', ['f8', 'c16', 'f4', 'c8', 'i8']), 'full_matrices': ('aux', 'svd_robust:full_matrices=', ['True', 'False']),
                     'compute_uv': ('aux', 'svd_robust:compute_uv=', ['True', 'False']), 'overwrite_a': ('aux', 'svd_robust:overwrite_a=', ['True', 'False']),
                     'check_finite': ('aux', 'svd_robust:check_finite=', ['True', 'False']), 'lapack_driver': ('aux', 'svd_robust:lapack_driver=', ['gesdd', 'gesvd', 'bad']),
                     'warn': ('aux', 'svd_robust:warn=', ['True', 'False'])},
    M_MATH + ':qr_li': {'A': ('aux', 'qr_li:', ['zero-matrix', 'rank-deficient', 'full-rank', 'shape=M<N', 'shape=M>N', 'shape=M==N', 'layout=F', 'layout=view']),
                        'cutoff': ('aux', 'qr_li:cutoff=', ['default', 'tiny', 'large'])},
    M_MATH + ':rq_li': {'A': ('aux', 'rq_li:', ['zero-matrix', 'rank-deficient', 'full-rank', 'shape=M<N', 'shape=M>N', 'shape=M==N', 'layout=F', 'layout=view']),
                        'cutoff': ('aux', 'rq_li:cutoff=', ['default', 'tiny', 'large'])},
    M_MATH + ':speigs': {'A': ('aux', 'speigs:A=', ['ndarray', 'operator']), 'k': ('aux', 'speigs:', ['arpack', 'dense', 'k>d']),
                         'args': ('aux', 'speigs:ret=', ['args', 'args_false']), 'kwargs': ('aux', 'speigs:ret=', ['vectors', 'kw_false'])},
    M_MATH + ':speigsh': {'A': ('aux', 'speigsh:A=', ['ndarray', 'operator']), 'k': ('aux', 'speigsh:', ['arpack', 'dense', 'k>d']),
                          'args': ('aux', 'speigsh:ret=', ['args', 'args_false']), 'kwargs': ('aux', 'speigsh:ret=', ['vectors', 'kw_false'])},
    M_MATH + ':matvec_to_array': {'H': ('aux', 'speigs:A=', ['operator'])},
}
# structural classes of the quantifier / explicit branches of the bodies that every run has to reach (stream -> tags)
REQUIRED_TAGS = {
    'svd': ['piped=', 'piped=0', 'piped=1', 'piped=01', 'layout=F', 'layout=view', 'qdata_sorted=False', 'qtotal_a=!=0', 'one-sided-or-missing-sector',
            'cutoff-drops-values', 'cutoff-drops-whole-block', 'raises-RuntimeError-no-singular-values', 'legs_are_pipes=LegPipe'],
    'qr': ['piped=', 'piped=0', 'piped=1', 'piped=01', 'layout=F', 'layout=view', 'qdata_sorted=False', 'qtotal_a=!=0', 'row-sector-without-block',
           'first-row-sector-without-block', 'last-row-sector-without-block', 'rank-deficient-block', 'cutoff-reduces-K', 'cutoff-keeps-all', 'lq=True', 'lq=False'],
    'eig': ['piped=', 'piped=01', 'layout=F', 'layout=view', 'qdata_sorted=False', 'legs_are_pipes=LegPipe', 'sector-without-block', 'dtype=i8', 'dtype=c16', 'dtype=f4'],
    'pinv': ['piped=', 'piped=0', 'piped=1', 'piped=01', 'layout=F', 'qdata_sorted=False', 'qtotal_a=!=0', 'pinv:drops-singular-values'],
    'ortho': ['piped=', 'piped=0', 'piped=1', 'piped=01', 'layout=F', 'qdata_sorted=False', 'dtype=c16'],
    'aux': ['svd_robust:gesdd-fails=True', 'svd_nan:retry', 'svd_nan:both', 'svd_nan:S', 'svd_nan:retry,full_matrices'] + ['reject:' + x for x in REJECT_ITEMS],
}
def forced_cases():
    """deterministic cases (independent of the seed) which force the structural classes of REQUIRED_TAGS / SIGNATURES"""
    Lb, Rb = [[1, 2, 3], [[0], [1], [2]], 1], [[1, 2, 2], [[0], [1], [2]], -1]
    Lu, Ru = [[1, 2, 1], [[0], [1], [0]], 1], [[2, 1, 1], [[1], [0], [1]], -1]
    structs = [(Lb, Rb), (Lu, Rb), (Lb, Ru), (Lu, Ru)]
    variants = [{}, {'layout': 'F', 'shuffle': True, 'qtotal_block': [1, 0]}, {'layout': 'view', 'drop_first_last': ['first', 'last']},
                {'surgery': ['zero', 'keep', 'rankdef']}, {'surgery': ['zero']}, {'surgery': ['rankdef']}]
    dts = ['f8', 'c16', 'f4', 'c8', 'i8', 'f8']
    out = {'svd': [], 'qr': [], 'eig': [], 'pinv': [], 'ortho': []}
    n = 0

    def mk(L, R, var, dt, **kw):
        nonlocal n
        n += 1
        c = {'seed': 900000 + n, 'mods': [1], 'legs': [L, R], 'qtotal_block': [0, 0], 'surgery': [], 'shuffle': False, 'layout': 'C',
             'dtype': dt, 'complex': dt in ('c16', 'c8')}
        c.update(var)
        c.update(kw)
        return c
    pipe = {'legs': [[[1, 2], [[0], [1]], 1], [[2, 1], [[0], [1]], 1], [[2, 2], [[0], [1]], -1]], 'combine': [[0, 1], [2]], 'pipe_qconj': [1, -1],
            'qtotal_block': [0, 0, 0]}
    for si, (L, R) in enumerate(structs):
        for vi, var in enumerate(variants):
            for ci, cut in enumerate([None, 'tie', 7.0, 0.0]):
                i = si * 24 + vi * 4 + ci
                c = mk(L, R, var, dts[(vi + ci) % 6] if cut is None else 'f8')
                c['opts'] = {'full_matrices': False, 'inner_qconj': [1, -1][i % 2], 'inner_labels': LABELS[i % 4], 'qtotal_LR': SVD_QTOTAL_LR[i % len(SVD_QTOTAL_LR)],
                             'q_as_list': i % 3 == 0, 'uv_all_opts': i % 2 == 0, 'cutoff': cut}
                out['svd'].append(c)
            for mi, (mode, cut) in enumerate([('reduced', None), ('reduced', 1e-8), ('reduced', 3.3), ('complete', None)]):
                i = si * 24 + vi * 4 + mi
                c = mk(L, R, var, dts[(vi + mi) % 6] if cut is None else 'f8')
                c['opts'] = {'mode': mode, 'inner_qconj': [1, -1][i % 2], 'inner_labels': LABELS[i % 4], 'qtotal_Q': QR_QTOTAL_Q[i % len(QR_QTOTAL_Q)],
                             'q_as_list': i % 3 == 0, 'pos_diag': i % 2 == 0, 'lq': (i // 2) % 2 == 0, 'cutoff': cut}
                out['qr'].append(c)
            c = mk(L, R, var, dts[vi % 4])
            c['opts'] = {'pinv_cutoff': [None, 1e-9, 2.5][vi % 3], 'polar_cutoff': POLAR_CUTOFF[(si + vi) % len(POLAR_CUTOFF)], 'inner_labels': [None, ['x', 'y']][vi % 2]}
            out['pinv'].append(c)
    for k, c0 in enumerate([dict(pipe), dict(pipe, layout='F', shuffle=True)]):
        c = dict({'seed': 910000 + k, 'mods': [1], 'surgery': [], 'shuffle': False, 'layout': 'C', 'dtype': 'f8', 'complex': False}, **c0)
        out['svd'].append(dict(c, opts={'full_matrices': False, 'inner_qconj': 1, 'inner_labels': [None, None], 'qtotal_LR': [None, None]}))
        out['svd'].append(dict(c, opts={'full_matrices': True, 'inner_qconj': 1, 'inner_labels': [None, None], 'qtotal_LR': [None, None]}))
        out['qr'].append(dict(c, opts={'mode': 'reduced', 'inner_qconj': 1, 'inner_labels': [None, None], 'qtotal_Q': None, 'pos_diag': True, 'lq': False}))
    # square matrices: blocked / unblocked leg, LegPipe legs; hermitian or not; dtypes; missing sectors; every speigs mode
    Sb, Su = [[1, 2, 3], [[0], [1], [2]], 1], [[1, 2, 1, 3], [[0], [1], [0], [1]], 1]
    P2 = [[[1, 2], [[0], [1]], 1], [[2, 1], [[0], [1]], -1]]
    i = 0
    for sq in ({'legs': [Sb], 'square': True}, {'legs': [Su], 'square': True}, {'legs': P2, 'pipe_square': True}):
        for var in ({}, {'layout': 'F', 'shuffle': True}, {'layout': 'view', 'drop_first_last': ['first', 'last']}, {'surgery': ['drop', 'keep', 'rankdef']}):
            for herm in (True, False):
                for kr in (-3, -1, 1):
                    i += 1
                    c = {'seed': 920000 + i, 'mods': [1], 'qtotal_block': [0], 'surgery': [], 'shuffle': False, 'layout': 'C', 'hermitian': herm,
                         'dtype': ['f8', 'c16', 'f4', 'i8', 'c8'][i % 5]}
                    c['complex'] = c['dtype'] in ('c16', 'c8')
                    c.update(sq)
                    c.update(var)
                    c['opts'] = {'sort': EIG_SORT[i % 5], 'UPLO': ['L', 'U'][i % 2], 'sector': [0, 'largest', 2][i % 3], 'k': 1, 'k_rel': kr,
                                 'which': SPEIGS_WHICH[i % 6], 'ret': SPEIGS_RET[i % 5], 'sector_as_list': i % 2 == 0}
                    if herm and i % 4 < 2:
                        c['uplo_garbage'] = True
                    out['eig'].append(c)
    # orthogonal_columns: (left leg, right leg) with missing first / middle / last row sector, square block, unblocked legs, charged
    OL = [[2, 3, 2], [[0], [1], [2]], 1]
    OLu = [[2, 1, 2], [[1], [0], [1]], 1]
    rights = [[[1, 2], [[0], [1]], -1], [[1, 1], [[1], [2]], -1], [[1, 1], [[0], [2]], -1], [[2, 1], [[0], [1]], -1], [[2, 1], [[1], [0]], -1],
              [[1, 2], [[0], [-1]], 1], [[2, 3, 2], [[0], [1], [2]], -1], [[3, 3, 3], [[0], [1], [2]], -1],
              [[1, 1], [[0], [0]], -1], [[1, 1, 1], [[1], [0], [1]], -1]]
    for k, R in enumerate(rights):
        for L in (OL, OLu):
            if L is OLu and k in (1, 2, 6, 7):
                continue
            for qt in ([0], [1]):
                Rq = [R[0], [[x[0] + R[2] * qt[0]] for x in R[1]], R[2]] if qt[0] else R
                c = mk(L, Rq, variants[k % 3] if k % 3 != 1 else {'layout': 'F', 'shuffle': True}, ['f8', 'c16'][k % 2])
                c.pop('qtotal_block', None)
                c.update({'qtotal_block': [0, 0], 'qtotal_explicit': qt, 'opts': {'new_label': [None, 'new'][k % 2]}})
                c.pop('drop_first_last', None)
                out['ortho'].append(c)
    return out


FORCED = forced_cases()

# unreached source lines of the anchored functions which are accepted (function -> stripped source text -> reason)
LINE_EXCLUDED = {}


def coverage_tables(ctx, tags, refl):
    """evidence tables + correspondence failures for holes; tags: stream -> tag -> count"""
    table = {}
    holes = []
    # 1. public names (by reflection on the code under test)
    for mod, spec in PUBLIC.items():
        r = refl.get(mod)
        if r is None:
            holes.append('module %s could not be inspected' % mod)
            continue
        names = set(r['all']) | set(n for n in r['functions'] if not n.startswith('_'))
        for n in sorted(names):
            if n in spec['covered']:
                continue
            if n in spec['excluded']:
                table.setdefault('excluded_names', {})[mod + ':' + n] = spec['excluded'][n]
                continue
            holes.append('public name %s.%s is neither covered by the check nor classified as outside the property' % (mod, n))
        for n in spec['covered']:
            key = mod + ':' + n
            sig = r['functions'].get(n)
            if sig is None:
                holes.append('covered function %s.%s no longer exists' % (mod, n))
                continue
            want = SIGNATURES[key]
            have = [p[0] for p in sig]
            if sorted(have) != sorted(want):
                holes.append('signature of %s is %s, the option table of the check knows %s' % (key, have, sorted(want)))
            row = {}
            for par, how in want.items():
                if how is None:
                    row[par] = 'labels: drawn from %s, compared on every result' % LABELS
                    continue
                stream, prefix, classes = how
                got = {}
                for cl in classes:
                    if prefix.startswith('speigs:*'):
                        cnt = sum(v for t, v in tags.get(stream, {}).items() if t.startswith('speigs:') and t.endswith(prefix[len('speigs:*'):] + cl))
                    elif prefix == 'speigs:' and stream == 'eig':
                        cnt = sum(v for t, v in tags.get(stream, {}).items() if t.startswith('speigs:' + cl + ','))
                    else:
                        cnt = sum(v for t, v in tags.get(stream, {}).items() if t == prefix + cl or (cl and t.startswith(prefix + cl + ',')))
                    got[cl if cl else 'called'] = cnt
                    if cnt == 0:
                        holes.append('option class %s(%s: %s) was not reached by stream %s' % (key, par, cl, stream))
                row[par] = got
            table.setdefault('options', {})[key] = row
    # 2. structural classes / branches
    for stream, req in REQUIRED_TAGS.items():
        for t in req:
            cnt = tags.get(stream, {}).get(t, 0)
            table.setdefault('structure', {}).setdefault(stream, {})[t if t != 'piped=' else 'piped=(none)'] = cnt
            if cnt == 0:
                holes.append('structural class %r was not reached by stream %s' % (t, stream))
    # 3. line coverage of the anchored functions measured in the runner processes
    src = {}
    lines_tab = {}
    import os
    for key, exe in sorted(LINECOV['executable'].items()):
        mod, fn = key.split(':')
        if exe is None:
            holes.append('anchored function %s not found for line coverage' % key)
            continue
        hit = LINECOV['hit'].get(key, set())
        path = os.path.join(common.REPO, mod.replace('.', '/') + '.py')
        if path not in src:
            src[path] = open(path).read().split('\n')
        miss = []
        for l in exe:
            if l in hit:
                continue
            text = src[path][l - 1].strip()
            reason = LINE_EXCLUDED.get(key, {}).get(text)
            miss.append([l, text, reason or 'NOT REACHED'])
            if reason is None:
                holes.append('line %d of %s is never executed by the check: %s' % (l, key, text))
        lines_tab[key] = {'executable': len(exe), 'hit': len([l for l in exe if l in hit]), 'unreached': miss}
    if not LINECOV['executable']:
        holes.append('no line coverage was recorded (sys.monitoring unavailable?)')
    table['lines'] = lines_tab
    opts = table.get('options', {})
    table['summary'] = {
        'covered_functions': len(opts), 'parameters': sum(len(v) for v in opts.values()),
        'option_classes': sum(len(x) for v in opts.values() for x in v.values() if isinstance(x, dict)),
        'option_classes_reached': sum(1 for v in opts.values() for x in v.values() if isinstance(x, dict) for n in x.values() if n > 0),
        'structural_classes': sum(len(v) for v in table.get('structure', {}).values()),
        'structural_classes_reached': sum(1 for v in table.get('structure', {}).values() for n in v.values() if n > 0),
        'executable_lines': sum(v['executable'] for v in lines_tab.values()), 'lines_hit': sum(v['hit'] for v in lines_tab.values()),
        'excluded_public_names': len(table.get('excluded_names', {})),
        'before_this_audit': {'option_classes_reached': 109, 'structural_classes_reached': 36, 'lines_hit': 367,
                              'note': 'HEAD version of the check, lines measured with the same tracer (700/700/350/300/300/270 cases)'}}
    ctx.cov['coverage_table'] = table
    ctx.cov['tags'] = {st: dict(sorted(t.items())) for st, t in tags.items()}
    for h in holes[:12]:
        ctx.fail('correspondence', 'coverage hole: ' + h, None)
    return holes


def main(ctx):
    rng = ctx.rng
    ctx.proof = common.check_proofs('C05', extra_targets=['Model/FactorCase.vo', 'Model/FactorCase2.vo', 'Model/FactorCase3.vo'])
    boost = 1 if ctx.proof.ok else 3
    base = ctx.seed * 1000003
    streams = [
        ('svd', [svd_case(rng, base + i, i) for i in range(ctx.pick(760, 4500) * boost)]),
        ('qr', [qr_case(rng, base + 100000 + i, i) for i in range(ctx.pick(760, 4500) * boost)]),
        ('eig', [eig_case(rng, base + 200000 + i, i) for i in range(ctx.pick(400, 2200) * boost)]),
        ('pinv', [pinv_case(rng, base + 300000 + i, i) for i in range(ctx.pick(320, 2000) * boost)]),
        ('ortho', [ortho_case(rng, base + 400000 + i, i) for i in range(ctx.pick(320, 2000) * boost)]),
        # the code around the per-block LAPACK calls with stubbed integer-valued LAPACK results (tie of eig_plan, pos_diag, svd assembly)
        ('plan', [plan_case(rng, base + 500000 + i, w) for w in ('eig', 'posdiag', 'svdasm') for i in range(ctx.pick(90, 600) * boost)]),
        # dense helpers, norm, rejected requests, LAPACK failure branches
        ('aux', aux_cases(rng, base + 600000, ctx.pick(60, 400) * boost)),
    ]
    ctx.cov['traces_validated_against_impl'] = 0
    hist = {}
    tags = {}
    import time
    refl, err = common.run_impl('c05_impl.py', {'kind': 'reflect'}, config='py', optimize0=True)
    if err:
        ctx.fail('correspondence', 'reflection runner failed: %s' % err[-600:], None)
        refl = {'reflect': {}}
    for kind, cases in streams:
        t_stream = time.time()
        ctx.cov.setdefault('timings_s', {})[kind] = None
        cases = [c['case'] for c in common.corpus_cases('C05') if c.get('stream') == kind] + FORCED.get(kind, []) + cases
        res, err = run_chunks(kind, cases, n=4 if kind == 'plan' else None)     # plan cases are tiny: few interpreter starts
        if err:
            ctx.fail('correspondence', '%s runner failed: %s' % (kind, err[-600:]), None)
            continue
        lits, lit_idx = [], []
        lq_lits, lq_idx = [], []
        plan = {}
        for i, (case, r) in enumerate(zip(cases, res)):
            if 'runner_error' in r:
                ctx.fail('oracle', '%s raised on a valid matrix: %s' % (kind, r['runner_error'][-500:]), {'stream': kind, 'case': case},
                         match_key='C05:%s-raises' % kind)
                continue
            for key, text in r['problems']:
                ctx.fail('oracle', text + '  [' + key + ']', {'stream': kind, 'case': case}, match_key=match_key(key))
            for t in r.get('cov', []):
                tags.setdefault(kind, {})[t] = tags.setdefault(kind, {}).get(t, 0) + 1
            nontriv = r.get('stored_blocks', 0) > 1 and not r.get('skip')
            tag = kind + ':' + ','.join(sorted(set(case.get('surgery') or ['plain'])))
            hist[tag] = hist.get(tag, 0) + 1
            ctx.count(kind, case, nontrivial=nontriv, sample={'case': case, 'structure': {k: r[k] for k in ('blocked', 'nums', 'ks', 'U', 'V', 'Q', 'R') if k in r}})
            if kind == 'svd' and 'U' in r and not case['opts']['full_matrices'] and not r.get('ambiguous_cutoff'):
                lits.append(svd_lit(case, r))
                lit_idx.append(i)
            if kind == 'qr' and 'Q' in r and not any(k is None for k in r['ks']):
                lits.append(qr_lit(case, r))
                lit_idx.append(i)
                if case['opts'].get('lq') and 'blocked_a' in r:
                    lq_lits.append(lq_lit(case, r))
                    lq_idx.append(i)
            if kind == 'plan':
                if r.get('order_ok') is False or r.get('legs_ok') is False or r.get('inner_contractible') is False \
                        or (r.get('raised') and not r.get('all_zero')) or any(not k['shapes_ok'] for k in r.get('blocks', [])):
                    ctx.fail('correspondence', 'plan stream (%s): the stubbed LAPACK calls are not one per stored block in _data order / result '
                             'legs unexpected: %s' % (case['plan'], {k: r.get(k) for k in ('order_ok', 'legs_ok', 'raised', 'inner_contractible')}),
                             {'stream': kind, 'case': case})
                    continue
                for chk, lit in plan_lits(case, r):
                    plan.setdefault(chk, ([], []))
                    if len(plan[chk][0]) < 400:
                        plan[chk][0].append(lit)
                        plan[chk][1].append(i)
        if lits:
            checker = 'check_svd_case' if kind == 'svd' else 'check_qr_case'
            bad, err = common.coq_failing_indices('cases_c05_' + kind, ['Base.Prelude', 'Model.ChargeL', 'Model.Leg', 'Model.Factor', 'Model.FactorCase'],
                                                  checker, lits, shard=250)
            if err:
                ctx.fail('correspondence', '%s model evaluation failed: %s' % (kind, err[-600:]), None)
            for b in bad[:5]:
                i = lit_idx[b]
                ctx.fail('correspondence', 'Model/Factor.v and %s disagree on the inner leg / total charges' % kind,
                         {'stream': kind, 'case': cases[i], 'impl': res[i]})
            ctx.cov['traces_validated_against_impl'] += len(lits)
        if lq_lits:
            plan['check_lq_case'] = (lq_lits, lq_idx)
        from concurrent.futures import ThreadPoolExecutor
        with ThreadPoolExecutor(max_workers=6) as ex:          # one coqc per checker and shard; the checkers run side by side
            futs = {chk: ex.submit(common.coq_failing_indices, 'cases_c05_' + chk, PLAN_IMPORTS, chk, pl, shard=100)
                    for chk, (pl, pidx) in plan.items()}
        for chk, (pl, pidx) in sorted(plan.items()):
            bad, err = futs[chk].result()
            if err:
                ctx.fail('correspondence', '%s model evaluation failed: %s' % (chk, err[-600:]), None)
            for b in bad[:5]:
                i = pidx[b]
                ctx.fail('correspondence', 'Model/Factor2.v / FactorDense.v (%s) and the code disagree' % chk,
                         {'stream': kind, 'case': cases[i], 'impl': res[i]})
            ctx.cov['traces_validated_against_impl'] += len(pl)
            ctx.cov.setdefault('plan_traces', {})[chk] = len(pl)
        ctx.cov['timings_s'][kind] = round(time.time() - t_stream, 1)
    ctx.cov['input_distribution'] = hist
    holes = coverage_tables(ctx, tags, refl.get('reflect', {}))
    ctx.cov['coverage_holes'] = holes
    ctx.assumptions += [
        'C05 coverage audit: public names / signatures of np_conserved (factorisation part), svd_robust and tools.math are read by reflection from the '
        'code under test and compared with the option table of the check; line coverage of the anchored functions is measured with sys.monitoring in '
        'every runner process; an unreached option class, structural class or source line is a correspondence failure',
        'C05 exclusions: qr(mode=\'complete\', cutoff=...) (cutoff is documented for the reduced mode only), numpy qr modes other than the two documented ones, '
        'npc.norm(ord=\'fro\') for Arrays (raises although listed in the table of the docstring; norm is not part of the property statement), '
        'the claim "diagonal entries larger than cutoff" of tools.math.qr_li (holds for the pivoted intermediate R only), default absolute cutoffs '
        '1e-15 / 1e-16 of pinv / polar on rank deficient input (rounding noise above the cutoff is kept by design: compared only when the '
        'cutoff lies in a gap of the spectrum), single precision inputs with cutoffs below their rounding noise',
        'C05 ownership: the returned Arrays must not share _data / _qdata memory with the input Array and the input must be bitwise unchanged '
        '(entries, _qdata, _qdata_sorted, qtotal, labels, legs) after every call',
        'C05: only the charge/leg bookkeeping of svd and qr/lq is proved (Model/Factor.v); LAPACK results, reconstruction, isometry, triangularity, '
        'eigenpairs, Moore-Penrose identities, expm, polar, orthogonal_columns, speigs are checked by dense numpy oracles only (tolerance 1e-10*norm)',
        'C05 correspondence: the ranks kept per block are those the documentation promises (numpy SVD of the block, values > cutoff; min(M,N) for qr); '
        'cutoffs are chosen far from singular values of the integer-valued test matrices',
    ]
    return ctx.finish(RULE, 'theorems of coq/Props/C05.v on the charge plan of svd/qr for all blocked structures, requests and kept ranks; plan tied to '
                      'np_conserved.svd/qr/lq by vm_compute comparison of inner legs and total charges; numeric clauses by dense oracle')


RULE = ('random rank-2 Arrays: direct (mostly non-blocked, unsorted legs), rank 3-4 tensors after random combine_legs, square matrices over LegPipes; dtypes '
        'float64/complex128/float32/complex64/int64; stored blocks in random order (_qdata not sorted), C / Fortran / strided block memory; block surgery '
        '(zero, rank-deficient, rank-1, dropped blocks, first/last sector without block); one-sided sectors; non-zero qtotal; the documented option lists of '
        'svd (full_matrices, compute_uv, cutoff incl. a cutoff equal to a singular value, qtotal_LR incl. both entries, inner_qconj, labels), qr/lq (mode, '
        'cutoff small/large, pos_diag, qtotal_Q, inner_qconj), eigh/eig/eigvalsh/eigvals (sort, UPLO with garbage in the other triangle), expm, speigs '
        '(sector, k around the sector size, which, return_eigenvectors by keyword/position), pinv/polar (cutoff, left), orthogonal_columns (M>N, M==N, M<N, '
        'charged, either qconj), npc.norm, svd_robust.svd, tools.math.qr_li/rq_li/speigs/speigsh, rejected requests and the LAPACK retry branches; every '
        'result is used again in npc operations, after a deep copy, and the input is compared bitwise; non-trivial = more than one stored block.')
