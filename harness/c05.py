"""C05 - matrix factorisations are exact, structured and charge-compatible.

proof gate (coq/Props/C05.v: charge bookkeeping of svd / qr for every blocked charge structure, request and kept ranks)
+ correspondence (inner leg and total charges of svd/qr/lq against Model/Factor.v, fed with the ranks the dense oracle finds)
+ dense numpy oracles for every routine (the numeric clauses are oracle-only, see tools/manifest/C05.py).
"""
import common

F10A = 'C05:svd(full_matrices=True):missing-blocks:not-unitary'
F10B = 'C05:svd(full_matrices=True):qtotal_L-or-qtotal_R!=0:charge-rule'
FPOLAR = 'C05:polar(left=True):p=W.s^2.W^dagger'
FSPEIGS = 'C05:speigs:charge-sector-without-stored-block:TypeError'
FSPEIGS2 = 'C05:speigs:real-input:complex-eigenvector-in-float64-Array'
FQR = 'C05:qr(pos_diag_R=True):zero-on-R-diagonal:NaN'

MODS = [[], [1], [1], [2], [3], [1, 2], [1, 1]]


def rand_leg(rng, mods, maxb=3, sizes=(1, 2, 3), lo=-1, hi=1, blocked=None):
    b = rng.randint(1, maxb)
    ch = [[rng.randint(lo, hi) for _ in mods] for _ in range(b)]
    if blocked:
        seen = []
        for c in ch:
            if c not in seen:
                seen.append(c)
        ch = seen
        b = len(ch)
    return [[rng.choice(sizes) for _ in range(b)], ch, rng.choice([1, -1])]


def rand_matrix(rng, seed, square=False, hermitian=False):
    mods = rng.choice(MODS)
    r = rng.random()
    case = {'seed': seed, 'mods': mods, 'complex': rng.random() < 0.3}
    if square:
        case['legs'] = [rand_leg(rng, mods, maxb=4, sizes=(1, 2, 3, 5), blocked=rng.random() < 0.5)]
        case['square'] = True
        case['hermitian'] = hermitian
        case['qtotal_block'] = [0]
    elif r < 0.5:      # direct rank-2, legs mostly not blocked / not sorted
        case['legs'] = [rand_leg(rng, mods, maxb=4, blocked=rng.random() < 0.3), rand_leg(rng, mods, maxb=4, blocked=rng.random() < 0.3)]
        case['qtotal_block'] = [rng.randrange(4), rng.randrange(4)]
    else:              # rank 3-4 tensor combined into a matrix
        rank = rng.choice([3, 3, 4])
        case['legs'] = [rand_leg(rng, mods, maxb=2, sizes=(1, 2)) for _ in range(rank)]
        axes = list(range(rank))
        rng.shuffle(axes)
        k = rng.randint(1, rank - 1)
        case['combine'] = [axes[:k], axes[k:]]
        case['pipe_qconj'] = [rng.choice([1, -1]), rng.choice([1, -1])]
        case['qtotal_block'] = [rng.randrange(3) for _ in range(rank)]
    modes = ['keep', 'keep', 'keep', 'zero', 'rankdef', 'drop', 'rank1']
    if rng.random() < 0.55:
        case['surgery'] = [rng.choice(modes) for _ in range(rng.randint(1, 4))]
    else:
        case['surgery'] = []
    return case


def svd_case(rng, seed):
    c = rand_matrix(rng, seed)
    full = rng.random() < 0.25
    o = {'full_matrices': full, 'inner_qconj': rng.choice([1, -1]),
         'inner_labels': rng.choice([[None, None], ['x', 'y'], [None, 'y']]),
         'qtotal_LR': rng.choice([[None, None], [None, None], ['a', None], [None, 'a'], ['zero', None], [None, 'zero'],
                                  ['minus', None], [None, 'minus'], ['minus', 'rest'], ['a', 'rest'], ['zero', 'rest']])}
    if not full:
        o['cutoff'] = rng.choice([None, None, 0.0, 1e-9, 2.5, 7.0])
    c['opts'] = o
    return c


def qr_case(rng, seed):
    c = rand_matrix(rng, seed)
    mode = rng.choice(['reduced', 'reduced', 'complete'])
    o = {'mode': mode, 'inner_qconj': rng.choice([1, -1]), 'inner_labels': rng.choice([[None, None], ['x', 'y']]),
         'qtotal_Q': rng.choice([None, None, 'a', 'one']), 'pos_diag': rng.random() < 0.5, 'lq': rng.random() < 0.4}
    if mode == 'reduced' and rng.random() < 0.3:
        o['cutoff'] = 1e-8
    c['opts'] = o
    return c


def eig_case(rng, seed):
    herm = rng.random() < 0.5
    c = rand_matrix(rng, seed, square=True, hermitian=herm)
    c['surgery'] = [m for m in c['surgery'] if m != 'rankdef' or True]
    c['opts'] = {'sort': rng.choice([None, 'm>', 'm<', '>', '<']), 'UPLO': rng.choice(['L', 'U']), 'k': rng.choice([1, 2])}
    return c


def ortho_case(rng, seed):
    mods = rng.choice(MODS)
    L = rand_leg(rng, mods, maxb=4, sizes=(1, 2, 3, 4), blocked=rng.random() < 0.6)
    Rs, Rc = [], []
    seen = []
    for s, ch in zip(L[0], L[1]):
        key = [x if m == 1 else x % m for m, x in zip(mods, ch)]
        if key in seen or rng.random() < 0.25:
            continue
        seen.append(key)
        r = rng.randint(0, s)
        if r > 0:
            Rs.append(r)
            Rc.append(ch)
    if not Rs:
        Rs, Rc = [1], [L[1][0]]
    R = [Rs, Rc, -L[2]]
    if rng.random() < 0.4 and len(Rs) > 1:     # unsorted / permuted right leg
        perm = list(range(len(Rs)))
        rng.shuffle(perm)
        R = [[Rs[i] for i in perm], [Rc[i] for i in perm], -L[2]]
    return {'seed': seed, 'mods': mods, 'legs': [L, R], 'qtotal_block': [0, 0], 'zero_qtotal': True, 'complex': rng.random() < 0.3,
            'surgery': [], 'opts': {'new_label': rng.choice([None, 'new'])}}


# ------------------------------------------------------------------------------------------------
# Coq literals
# ------------------------------------------------------------------------------------------------

def zl(xs):
    return '(@nil Z)' if not xs else '[' + '; '.join('(%d)' % x for x in xs) + ']'


def blocks_lit(bl):
    return '(@nil (Z * list Z))' if not bl else '[' + '; '.join('((%d), %s)' % (s, zl(c)) for s, c in bl) + ']'


def leg_lit(l):
    return '(%s, (%d))' % (blocks_lit(l[0]), l[1])


def qdata_lit(qd):
    return '(@nil (nat * nat))' if not qd else '[' + '; '.join('(%d%%nat, %d%%nat)' % (a, b) for a, b in qd) + ']'


def oz(q):
    return '(@None (list Z))' if q is None else '(Some %s)' % zl(q)


def svd_lit(case, r):
    b = r['blocked']
    return '(%s, %s, %s, %s, %s, %s, %s, %s, (%d), (%s, %s, %s))' % (
        zl(case['mods']), leg_lit(b['legL']), leg_lit(b['legR']), zl(b['qtotal']), qdata_lit(b['qdata']), zl(r['nums']),
        oz(r['qreq'][0]), oz(r['qreq'][1]), case['opts']['inner_qconj'],
        leg_lit(r['V']['inner']), zl(r['U']['qtotal']), zl(r['V']['qtotal']))


def qr_lit(case, r):
    b = r['blocked']
    ks = [k if k is not None else -1 for k in r['ks']]
    return '(%s, %s, %s, %s, %s, %s, %s, %s, (%d), (%s, %s, %s))' % (
        zl(case['mods']), leg_lit(b['legL']), leg_lit(b['legR']), zl(b['qtotal']), qdata_lit(b['qdata']), zl(ks),
        'true' if case['opts']['mode'] == 'complete' else 'false', oz(r['qtq']), case['opts']['inner_qconj'],
        leg_lit(r['R']['inner']), zl(r['Q']['qtotal']), zl(r['R']['qtotal']))


def lq_lit(case, r):
    """Model/FactorCase2.v check_lq_case: the blocked structure of a itself (lq_charges transposes)"""
    b = r['blocked_a']
    return '((%s, %s, %s, %s, %s, %s, %s, %s, (%d), (%s, %s, %s)) : lq_case_t)' % (
        zl(case['mods']), leg_lit(b['legL']), leg_lit(b['legR']), zl(b['qtotal']), qdata_lit(b['qdata']), zl(r['ks_a']),
        'true' if case['opts']['mode'] == 'complete' else 'false', oz(r['qtq']), case['opts']['inner_qconj'],
        leg_lit(r['R']['inner']), zl(r['Q']['qtotal']), zl(r['R']['qtotal']))


def zm(rows):
    return '[' + '; '.join(zl(r) for r in rows) + ']'


def nl(xs):
    return '[' + '; '.join('%d%%nat' % x for x in xs) + ']'


def ents_lit(es):
    return '[' + '; '.join('(%d%%nat, %d%%nat, %s)' % (i, j, zm(m)) for i, j, m in es) + ']'


def plan_case(rng, seed, what):
    if what == 'eig':
        c = rand_matrix(rng, seed, square=True, hermitian=rng.random() < 0.5)
        c['opts'] = {}
    else:
        c = rand_matrix(rng, seed)
        if what == 'posdiag':
            c['opts'] = {'mode': rng.choice(['reduced', 'reduced', 'complete']), 'inner_qconj': rng.choice([1, -1]),
                         'zero_rate': rng.choice([0.0, 0.0, 0.0, 0.15])}
        else:
            c['opts'] = {'full_matrices': rng.random() < 0.25, 'inner_qconj': rng.choice([1, -1])}
    c['surgery'] = [m for m in c['surgery'] if m in ('keep', 'drop')]      # values come from the stub; only the block structure matters
    c['plan'] = what
    return c


def plan_lits(case, r):
    """(checker, literal) pairs of Model/FactorCase2.v for one 'plan' result"""
    what = case['plan']
    b = r['blocked']
    if what == 'eig':
        eigs = '[' + '; '.join('(%s, %s)' % (zl(w), zm(v)) for w, v in r['eigs']) + ']'
        return [('check_eig_case', '((%s, %s, %s, (%s, %s)) : eig_case_t)' % (
            leg_lit(b['legL']), qdata_lit(b['qdata']), eigs, ents_lit(r['resv']), zl(r['resw'])))]
    if what == 'posdiag':
        out = []
        for k in r['blocks']:
            o = 'None' if k['out'] is None else '(Some (%s, %s))' % (zm(k['out'][0]), zm(k['out'][1]))
            out.append(('check_posdiag_case', '((%d%%nat, %d%%nat, %d%%nat, %s, %s, %s) : posdiag_case_t)' % (
                k['M'], k['P'], k['N'], zm(k['Q']), zm(k['R']), o)))
        if 'qfill' in r:
            f = r['qfill']
            out.append(('check_qr_fill_case', '((%s, %s, (%s, %s)) : qr_fill_case_t)' % (
                nl(f['rs']), nl(f['rows']), qdata_lit(f['qd']), '[' + '; '.join(zm(m) for m in f['extra']) + ']')))
        return out
    if what == 'svdasm':
        if 'raised' in r:
            return []
        fs = '[' + '; '.join('(%d%%nat, %d%%nat, (%d%%nat, %s, %s, %s))' % (i, j, n, zm(U), zl(S), zm(V)) for i, j, n, U, S, V in r['fs']) + ']'
        out = [('check_svd_dense_case', '((%s, %s, %s, %s, (%s, %s, %s, %s)) : svd_dense_case_t)' % (
            nl(r['rs']), nl(r['cs']), fs, 'true' if case['opts']['full_matrices'] else 'false',
            ents_lit(r['U']), zl(r['S']), ents_lit(r['V']), nl(r['ns'])))]
        if case['opts']['full_matrices']:
            out.append(('check_svd_vfull_case', '((%s, %s, %s) : svd_vfull_case_t)' % (nl(r['cs']), fs, ents_lit(r['V']))))
        return out
    return []


PLAN_IMPORTS = ['Base.Prelude', 'Model.ChargeL', 'Model.Leg', 'Model.Factor', 'Model.FactorCase', 'Model.Factor2', 'Model.FactorDense',
                'Model.FactorDense2', 'Model.FactorDense3', 'Model.FactorCase2', 'Model.FactorCase3']


def run_chunks(kind, cases, config='py', n=None):
    n = n or common.NPROC
    chunks = [cases[i::n] for i in range(n)]
    res = common.run_impl_parallel('c05_impl.py', [{'kind': kind, 'cases': ch} for ch in chunks if ch], config=config, optimize0=True)
    out = [None] * len(cases)
    k = 0
    for i, ch in enumerate(chunks):
        if not ch:
            continue
        r, err = res[k]
        k += 1
        if err:
            return None, err
        for j, x in enumerate(r):
            out[i + j * n] = x
    return out, None


def match_key(key):
    """known-finding keys for the structural conditions named in DESIGN section 8 (F10) and the pos_diag NaN"""
    if key.startswith('svd-full:'):
        what, _, cond = key[len('svd-full:'):].partition(':')
        if what in ('U-unitary', 'V-unitary') and cond.startswith('missing-blocks'):
            return F10A
        if what in ('U-charge-rule', 'VH-charge-rule') and cond.endswith('+qtotal_LR!=0'):
            return F10B
    if key == 'polar:reconstruct:left:p=a.a^dagger':
        return FPOLAR
    if key == 'speigs:raises:missing-sector-block':
        return FSPEIGS
    if key in ('speigs:eigenpair:real-Array-dtype-with-complex-data', 'speigs:structure:real-Array-dtype-with-complex-data'):
        return FSPEIGS2
    if key in ('qr:nan:pos_diag+singular-R-diagonal', 'lq:nan:pos_diag+singular-R-diagonal'):
        return FQR
    return None


def main(ctx):
    rng = ctx.rng
    ctx.proof = common.check_proofs('C05', extra_targets=['Model/FactorCase.vo', 'Model/FactorCase2.vo', 'Model/FactorCase3.vo'])
    boost = 1 if ctx.proof.ok else 3
    base = ctx.seed * 1000003
    streams = [
        ('svd', [svd_case(rng, base + i) for i in range(ctx.pick(700, 4500) * boost)]),
        ('qr', [qr_case(rng, base + 100000 + i) for i in range(ctx.pick(700, 4500) * boost)]),
        ('eig', [eig_case(rng, base + 200000 + i) for i in range(ctx.pick(350, 2200) * boost)]),
        ('pinv', [rand_matrix(rng, base + 300000 + i) for i in range(ctx.pick(300, 2000) * boost)]),
        ('ortho', [ortho_case(rng, base + 400000 + i) for i in range(ctx.pick(300, 2000) * boost)]),
        # the code around the per-block LAPACK calls with stubbed integer-valued LAPACK results (tie of eig_plan, pos_diag, svd assembly)
        ('plan', [plan_case(rng, base + 500000 + i, w) for w in ('eig', 'posdiag', 'svdasm') for i in range(ctx.pick(90, 600) * boost)]),
    ]
    ctx.cov['traces_validated_against_impl'] = 0
    hist = {}
    import time
    for kind, cases in streams:
        t_stream = time.time()
        ctx.cov.setdefault('timings_s', {})[kind] = None
        cases = [c['case'] for c in common.corpus_cases('C05') if c.get('stream') == kind] + cases
        res, err = run_chunks(kind, cases, n=4 if kind == 'plan' else None)     # plan cases are tiny: few interpreter starts
        if err:
            ctx.fail('correspondence', '%s runner failed: %s' % (kind, err[-600:]), None)
            continue
        lits, lit_idx = [], []
        lq_lits, lq_idx = [], []
        plan = {}
        for i, (case, r) in enumerate(zip(cases, res)):
            if 'runner_error' in r:
                ctx.fail('oracle', '%s raised on a valid matrix: %s' % (kind, r['runner_error'][-500:]), {'stream': kind, 'case': case},
                         match_key='C05:%s-raises' % kind)
                continue
            for key, text in r['problems']:
                ctx.fail('oracle', text + '  [' + key + ']', {'stream': kind, 'case': case}, match_key=match_key(key))
            nontriv = r.get('stored_blocks', 0) > 1 and not r.get('skip')
            tag = kind + ':' + ','.join(sorted(set(case.get('surgery') or ['plain'])))
            hist[tag] = hist.get(tag, 0) + 1
            ctx.count(kind, case, nontrivial=nontriv, sample={'case': case, 'structure': {k: r[k] for k in ('blocked', 'nums', 'ks', 'U', 'V', 'Q', 'R') if k in r}})
            if kind == 'svd' and 'U' in r and not case['opts']['full_matrices']:
                lits.append(svd_lit(case, r))
                lit_idx.append(i)
            if kind == 'qr' and 'Q' in r and not any(k is None for k in r['ks']):
                lits.append(qr_lit(case, r))
                lit_idx.append(i)
                if case['opts'].get('lq') and 'blocked_a' in r:
                    lq_lits.append(lq_lit(case, r))
                    lq_idx.append(i)
            if kind == 'plan':
                if r.get('order_ok') is False or r.get('legs_ok') is False or r.get('inner_contractible') is False \
                        or (r.get('raised') and not r.get('all_zero')) or any(not k['shapes_ok'] for k in r.get('blocks', [])):
                    ctx.fail('correspondence', 'plan stream (%s): the stubbed LAPACK calls are not one per stored block in _data order / result '
                             'legs unexpected: %s' % (case['plan'], {k: r.get(k) for k in ('order_ok', 'legs_ok', 'raised', 'inner_contractible')}),
                             {'stream': kind, 'case': case})
                    continue
                for chk, lit in plan_lits(case, r):
                    plan.setdefault(chk, ([], []))
                    if len(plan[chk][0]) < 400:
                        plan[chk][0].append(lit)
                        plan[chk][1].append(i)
        if lits:
            checker = 'check_svd_case' if kind == 'svd' else 'check_qr_case'
            bad, err = common.coq_failing_indices('cases_c05_' + kind, ['Base.Prelude', 'Model.ChargeL', 'Model.Leg', 'Model.Factor', 'Model.FactorCase'],
                                                  checker, lits, shard=250)
            if err:
                ctx.fail('correspondence', '%s model evaluation failed: %s' % (kind, err[-600:]), None)
            for b in bad[:5]:
                i = lit_idx[b]
                ctx.fail('correspondence', 'Model/Factor.v and %s disagree on the inner leg / total charges' % kind,
                         {'stream': kind, 'case': cases[i], 'impl': res[i]})
            ctx.cov['traces_validated_against_impl'] += len(lits)
        if lq_lits:
            plan['check_lq_case'] = (lq_lits, lq_idx)
        from concurrent.futures import ThreadPoolExecutor
        with ThreadPoolExecutor(max_workers=6) as ex:          # one coqc per checker and shard; the checkers run side by side
            futs = {chk: ex.submit(common.coq_failing_indices, 'cases_c05_' + chk, PLAN_IMPORTS, chk, pl, shard=100)
                    for chk, (pl, pidx) in plan.items()}
        for chk, (pl, pidx) in sorted(plan.items()):
            bad, err = futs[chk].result()
            if err:
                ctx.fail('correspondence', '%s model evaluation failed: %s' % (chk, err[-600:]), None)
            for b in bad[:5]:
                i = pidx[b]
                ctx.fail('correspondence', 'Model/Factor2.v / FactorDense.v (%s) and the code disagree' % chk,
                         {'stream': kind, 'case': cases[i], 'impl': res[i]})
            ctx.cov['traces_validated_against_impl'] += len(pl)
            ctx.cov.setdefault('plan_traces', {})[chk] = len(pl)
        ctx.cov['timings_s'][kind] = round(time.time() - t_stream, 1)
    ctx.cov['input_distribution'] = hist
    ctx.assumptions += [
        'C05: only the charge/leg bookkeeping of svd and qr/lq is proved (Model/Factor.v); LAPACK results, reconstruction, isometry, triangularity, '
        'eigenpairs, Moore-Penrose identities, expm, polar, orthogonal_columns, speigs are checked by dense numpy oracles only (tolerance 1e-10*norm)',
        'C05 correspondence: the ranks kept per block are those the documentation promises (numpy SVD of the block, values > cutoff; min(M,N) for qr); '
        'cutoffs are chosen far from singular values of the integer-valued test matrices',
    ]
    return ctx.finish(RULE, 'theorems of coq/Props/C05.v on the charge plan of svd/qr for all blocked structures, requests and kept ranks; plan tied to '
                      'np_conserved.svd/qr/lq by vm_compute comparison of inner legs and total charges; numeric clauses by dense oracle')


RULE = ('random rank-2 Arrays: direct (mostly non-blocked, unsorted legs) or rank 3-4 tensors after random combine_legs; integer/complex entries; block surgery '
        '(zero, rank-deficient, rank-1, dropped blocks); one-sided sectors arise from the random charges; non-zero qtotal; all option combinations of '
        'svd (full_matrices, cutoff, qtotal_LR, inner_qconj, labels), qr/lq (mode, cutoff, pos_diag, qtotal_Q, inner_qconj), eig/eigh/eigvals(h) (sort, UPLO), '
        'expm, speigs, pinv, polar, orthogonal_columns; non-trivial = more than one stored block.')
