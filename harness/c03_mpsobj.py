"""C03, stream `mps-object`: whole-object fingerprints of every live MPS / MPO around every public call.

Generator + judge; the runner is harness/impl/c03_mpsobj_impl.py (docstring there says what is called and what is fingerprinted).
The quantifier of the property ("all histories in which ... an MPS keeps a second live reference while any operation runs on the
other reference") is reached at the level of the MPS OBJECT here: the lists _B / _S / form / sites, the stored tensors with their
charge data (qtotal, the charges of every leg), norm, bc and segment_boundaries of BOTH operands of every two-MPS function and of the
receiver of every public query found by reflection - on finite, infinite and segment states (segments with and without boundary
unitaries), with Sz / parity / no charge conservation, and with partner states in the same sector and gauge, in another total-charge
sector and in another charge gauge (different outermost virtual legs -> MPS._gauge_compatible_vL_vR has to re-gauge a shallow copy).
Oracle rule (property text): a call that is not documented in-place changes NO part of any live object; a documented in-place
method called on a deep copy changes no part of the source nor of any other live object."""
import random

import common

TWO_MPS_GROUPS = ('overlap', 'add', 'MPSEnvironment', 'TransferMatrix', 'overlap_translate_finite', 'gauge_compatible', 'MPOEnvironment')


def gen_case(rng, k=None):
    """k: running number of the case; the kinds (3 boundary conditions x Sz, Sz, parity, none) are stratified over k so that
    every run - whatever the seed - contains every kind, in particular Sz segments WITH boundary unitaries"""
    if k is None:
        k = rng.randrange(24)
    bc = ['finite', 'segment', 'infinite'][k % 3]
    model, conserve = [('xxz', 'Sz'), (rng.choice(['xxz', 'tfi']), 'parity'), ('xxz', 'Sz'), (rng.choice(['xxz', 'tfi']), None)][(k // 3) % 4]
    c = {'bc': bc, 'model': model, 'conserve': conserve, 'chi': rng.choice([4, 6, 8]), 'seed': rng.randrange(10 ** 6),
         'entangle': rng.random() < 0.85}
    if bc == 'finite':
        c['L0'] = rng.choice([4, 5, 6])
    elif bc == 'infinite':
        c['L0'] = 4
    else:
        if rng.random() < 0.7:
            c['background_bc'] = 'finite'
            c['L0'] = rng.choice([7, 8, 9])
            c['first'] = rng.choice([1, 2])
            c['last'] = min(c['first'] + rng.choice([3, 4]), c['L0'] - 2)
        else:
            c['background_bc'] = 'infinite'
            c['L0'] = 4
            c['first'] = rng.choice([0, 1, 2])
            c['last'] = c['first'] + rng.choice([3, 4, 5])
        # which of the segment states get boundary unitaries (canonical_form() of a segment sets segment_boundaries)
        c['canonicalize'] = [n for n, p in (('psi', 1.0 if (k // 12) % 2 == 0 else 0.6), ('same', 0.5), ('sector', 0.3), ('gauged', 0.3))
                             if rng.random() < p]
    L0 = c['L0']
    inf = bc == 'infinite' or c.get('background_bc') == 'infinite'
    if inf:
        # the unit cell must be charge neutral: as many up as down
        st = [1] * (L0 // 2) + [0] * (L0 - L0 // 2)
        rng.shuffle(st)
    else:
        st = [rng.randrange(2) for _ in range(L0)]
        if rng.random() < 0.5:
            st = ([1, 0] * L0)[:L0]
    c['state'] = st
    c['flip'] = rng.randrange(L0)
    c['gauge_q'] = 1 if conserve == 'parity' else rng.choice([1, 2, -2, 3])
    if conserve and rng.random() < 0.25:
        c['chargeL'] = [rng.choice([1, -1, 2]) if conserve == 'Sz' else 1]      # psi itself in a non-default gauge
    sf = rng.choice([None, None, None, 'A', 'C', 'mixed'])
    if sf is not None:
        Lx = L0 if bc != 'segment' else c['last'] - c['first'] + 1
        c['store_form'] = [rng.choice(['A', 'B', 'C', 'Th', 'B']) for _ in range(Lx)] if sf == 'mixed' else sf
    return c


def describe(c):
    return '%s MPS (%s, conserve=%s, L0=%d%s%s)' % (
        c['bc'], c['model'], c['conserve'], c['L0'],
        ', sites %d..%d of a %s state, canonical_form() on %s' % (c['first'], c['last'], c.get('background_bc'), c.get('canonicalize'))
        if c['bc'] == 'segment' else '', ', stored in %s' % (c['store_form'],) if c.get('store_form') else '')


IMPORTS = ['Base.Prelude', 'Model.StoreMpsObj']


def natl(xs):
    return '[' + '; '.join('%d%%nat' % x for x in xs) + ']' if xs else '(@nil nat)'


def cb(x):
    return 'true' if x else 'false'


def judge(ctx, cfg, c, r, stat):
    info = {'stream': 'mps-object', 'config': cfg, 'case': c}
    for rec in r['calls']:
        o = rec.get('obs')
        if not o or ('error' in rec and o['kind'] == 'gc'):
            continue
        if o['kind'] == 'gc':       # -> Model/StoreMpsObj.v check_gauge_compatible
            lit = '(%s, %d%%nat, %s, (%s, %s, %s))' % (cb(o['need']), o['L'], natl(o['replaced']), cb(o['same_obj']), cb(o['same_list']),
                                                      cb(o['b_unchanged']))
            stat['gc'].append((lit, cfg, c, rec))
        else:                       # -> check_query_list
            stat['ql'].append(('(%d%%nat, %s, %d%%nat)' % (o['L'], cb(o['bnd']), o['len_after']), cfg, c, rec))
    differ = r.get('outer_legs_differ', {})
    bnd = r.get('boundaries', {})
    for rec in r['calls']:
        g = rec['group']
        s = stat['groups'].setdefault(g, [0, 0])
        s[1 if 'error' in rec else 0] += 1
        if 'error' not in rec and rec.get('partner') and differ.get(rec['partner']):
            stat['two_mps_calls_ok_with_different_outer_legs'] += 1
        if 'error' not in rec and bnd.get('psi') and 'recv' not in rec:
            stat['calls_ok_on_segment_with_boundaries'] += 1
        for obj, parts in sorted(rec['changed'].items()):
            role = {'psi': 'the MPS psi', 'H': 'the MPO H', 'background': 'the state the segment was extracted from'}.get(
                obj, 'the partner state `%s`' % obj)
            if 'recv' in rec:
                what = ('[%s] %s: the documented in-place method ran on a DEEP copy c of psi, but changed %s (parts %s) - %s' % (
                    cfg, rec['call'], role, parts, describe(c)))
                key = 'C03:mps-object:%s:inplace-on-deep-copy-changed-%s' % (g, 'source' if obj == 'psi' else 'bystander')
            else:
                what = ('[%s] %s is not an in-place function but changed %s: parts %s of the object differ afterwards (whole-object '
                        'fingerprint: list identities/lengths, identity, dense values, dtype, labels, qtotal, leg charges of every stored tensor, S, form, '
                        'norm, segment_boundaries, sites) - %s; outer legs of the partners differ: %s, boundaries set: %s%s' % (
                            cfg, rec['call'], role, parts, describe(c), differ, bnd,
                            '; the call raised ' + rec['error'] if 'error' in rec else ''))
                key = 'C03:mps-object:%s:%s-changed' % (g, 'psi' if obj == 'psi' else 'H' if obj == 'H' else 'partner')
            ctx.fail('oracle', what + ' [%s]' % key, dict(info, call=rec['call'], changed=rec['changed']), match_key=key)


def start(ctx, mult=1):
    """generate the cases and start the runners in the background (they run next to the other streams); -> handle"""
    from concurrent.futures import ThreadPoolExecutor
    if ctx.replay_in:
        import json
        doc = (json.load(open(ctx.replay_in)).get('input') or {})
        if doc.get('stream') != 'mps-object':
            return None
        parts = [(doc.get('config', 'py'), [doc['case']])]
    else:
        rng = random.Random(ctx.seed * 7919 + 303)          # own seeded stream: the cases of the other streams stay as they were
        cases = [gen_case(rng, k) for k in range(ctx.pick(24, 168) * mult)]
        # configurations alternate in blocks of 12 consecutive cases (= all kinds): with >= 48 cases both see every kind; with 24
        # the seed decides which configuration gets which half
        flip = ctx.seed % 2
        parts = [('py', [c for k, c in enumerate(cases) if (k // 12 + flip) % 2 == 0]), ('cy', [c for k, c in enumerate(cases) if (k // 12 + flip) % 2 == 1])]
    jobs = []
    ex = ThreadPoolExecutor(max_workers=8)
    for cfg, part in parts:
        nchunk = max(1, min(4, len(part) // 3))
        for k in range(nchunk):
            ch = part[k::nchunk]
            jobs.append((cfg, ch, ex.submit(common.run_impl, 'c03_impl.py', {'cases': [['mpsobj', c] for c in ch]}, cfg)))
    return {'jobs': jobs, 'ex': ex}


def finish(ctx, handle):
    if handle is None:
        return
    stat = {'groups': {}, 'two_mps_calls_ok_with_different_outer_legs': 0, 'calls_ok_on_segment_with_boundaries': 0, 'gc': [], 'ql': []}
    coverage = {}
    kinds = {}
    for cfg, chunk, fut in handle['jobs']:
        r, err = fut.result()
        if err or r['info'].get('have_cython') != (cfg == 'cy'):
            ctx.fail('correspondence', 'mps-object runner failed (%s): %s' % (cfg, (err or str(r['info']))[-600:]), None)
            continue
        for c, x in zip(chunk, r['results']):
            info = {'stream': 'mps-object', 'config': cfg, 'case': c}
            if not isinstance(x, dict) or 'calls' not in x:
                ctx.fail('correspondence', 'mps-object runner failed (%s) on %s: %s' % (cfg, describe(c), str(x)[-600:]), info)
                continue
            nontriv = any(x['outer_legs_differ'].values()) or any(x['boundaries'].values())
            ctx.count('mps-object-' + cfg, c, nontrivial=nontriv,
                      sample={'case': c, 'partners': x['partners'], 'outer_legs_differ': x['outer_legs_differ'], 'boundaries': x['boundaries'],
                              'calls': len(x['calls']), 'errors': sum(1 for rec in x['calls'] if 'error' in rec)})
            kk = '%s/%s/%s' % (x['bc'], c['conserve'], 'boundaries' if x['boundaries'].get('psi') else 'plain')
            kinds[kk] = kinds.get(kk, 0) + 1
            for n, v in x['coverage'].items():
                coverage.setdefault(n, v)
                if v == 'UNCOVERED' and n not in stat.setdefault('uncovered', []):
                    stat['uncovered'].append(n)
            judge(ctx, cfg, c, x, stat)
    handle['ex'].shutdown()
    # ---- correspondence with the container layer of the store model (Model/StoreMpsObj.v)
    for name, checker, rows, text in (
            ('cases_c03_gc', 'check_gauge_compatible', stat['gc'],
             'res = a._gauge_compatible_vL_vR(b): the model (shallow copy of the object, OWN list, item assignments) predicts res is b iff the '
             'outer legs agree, res._B is never the list b._B when they differ, and b._B keeps its items'),
            ('cases_c03_ql', 'check_query_list', stat['ql'],
             'get_total_charge: the model (tensors = self._B + [U, V], a new list) predicts len(psi._B) unchanged')):
        if not rows:
            continue
        bad, err = common.coq_failing_indices(name, IMPORTS, checker, [x[0] for x in rows])
        if err:
            ctx.fail('correspondence', 'model evaluation failed (mps-object, %s): %s' % (checker, err[-600:]), None)
        for b in bad[:4]:
            lit, cfg, c, rec = rows[b]
            ctx.fail('correspondence', '[%s] Model/StoreMpsObj.v and the code disagree on %s - %s; observed %s' % (cfg, rec['call'], text, rec['obs']),
                     {'stream': 'mps-object', 'config': cfg, 'case': c, 'call': rec['call']})
    ctx.cov['mps_object_gauge_compatible_observations_checked_against_model'] = {
        'total': len(stat['gc']), 'need_gauge': sum(1 for x in stat['gc'] if x[3]['obs']['need'])}
    ctx.cov['mps_object_get_total_charge_observations_checked_against_model'] = {
        'total': len(stat['ql']), 'with_boundaries': sum(1 for x in stat['ql'] if x[3]['obs']['bnd'])}
    ctx.cov['mps_object_public_interface_coverage'] = coverage        # every public name of the MPS class found by reflection
    ctx.cov['mps_object_calls_by_group_ok_error'] = {k: {'ok': v[0], 'raised': v[1]} for k, v in sorted(stat['groups'].items())}
    ctx.cov['mps_object_case_kinds'] = kinds
    ctx.cov['mps_object_two_mps_calls_ok_with_different_outer_legs'] = stat['two_mps_calls_ok_with_different_outer_legs']
    ctx.cov['mps_object_calls_ok_on_segment_with_boundaries'] = stat['calls_ok_on_segment_with_boundaries']
    for n in stat.get('uncovered', []):
        ctx.notes.append('mps-object: public method MPS.%s is neither classified as documented in-place nor has argument variants in '
                         'harness/impl/c03_mpsobj_impl.py (not exercised)' % n)
    if not ctx.replay_in and (stat['two_mps_calls_ok_with_different_outer_legs'] == 0 or stat['calls_ok_on_segment_with_boundaries'] == 0):
        ctx.fail('correspondence', 'mps-object: the generators no longer reach two-MPS calls with different outer virtual legs (%d) / '
                 'segments with boundaries (%d)' % (stat['two_mps_calls_ok_with_different_outer_legs'],
                                                    stat['calls_ok_on_segment_with_boundaries']), None)


RULE = ('mps-object: 24 (thorough 168) cases, half per configuration, kinds stratified (every block of 12 = {finite, segment, infinite} x {Sz, '
        'parity, Sz, none}): main MPS psi finite (L 4-6) / infinite (L 4) / segment (4-6 sites of a '
        'finite L 7-9 or infinite L 4 background; canonical_form() sets the boundary unitaries on psi in 80 % and on partners in 30-50 %), XXZ '
        'with Sz / parity / no conservation or TFI with parity / none, TEBD-entangled (85 %) or product, chi 4-8, optionally stored in '
        'A / C / mixed forms or in a non-default charge gauge (chargeL); partners: same sector+gauge, another total-charge sector (one spin '
        'flipped), another charge gauge (gauge_total_charge(qtotal=q) / chargeL=q for infinite; for segments also a boundary-free copy with '
        'shifted right leg), the background state.  Calls (random order): every public non-in-place method and property of the MPS class '
        'found by reflection with 1-4 argument variants, 10 two-MPS functions x every partner x both operand orders, 9 MPO functions, then '
        'every documented in-place method on a fresh deep copy.  After EVERY call all live objects are fingerprinted as wholes from their '
        '__dict__; non-trivial = a partner with different outer legs or a state with segment boundaries.')
