"""C01 coverage audit: the public operations / options of tenpy.linalg.np_conserved that the programs of harness/npc_gen.py did not reach.

Imported by npc_gen.ProgramRunner for programs with the key `ext` (so the default programs of C01 / C02 are unchanged):
  * further operations (registered in npc_gen.OPS with the attribute ext = True): unary / binary block-wise functions with extra arguments, matvec,
    ==, get_block, iteration over the blocks, add_charge, apply_charge_mapping, the constructors from_ndarray_trivial / from_func / from_func_square /
    from_ndarray with its options, detect_qtotal / detect_legcharge, grid_concat of the pieces of a tensor (1D / 2D / 3D grids, different legs);
  * check_accessors: the second accessors of a result (get_leg_index / get_leg / has_label / get_leg_indices / shape / size / ndim / rank / iteration
    over stored blocks) against the reference tensor;
  * foreign_followup: a result over ANOTHER ChargeInfo (drop_charge / change_charge / add_charge / from_ndarray_trivial) is used as the operand of
    further generated operations (own environment over the new charges), so that its legs / charges are read again;
  * reflect_api / coverage tables: the public names and documented parameters of np_conserved by reflection, classified.
"""
import inspect
import itertools
import random

import numpy as np

import npc_gen as G
from npc_gen import (OPS, QT, ExpectError, OracleFail, RLeg, RTensor, allowed_mask, api, ax_index, axarg, block_combos, dec_scalar, dec_vec, enc_scalar,
                     enc_vec, lab_drop_dup, leg_from_qflat, leg_from_spec, mk_leg, mv, pick_slot, project_leg, rand_charge, rand_values, small, _npc)


def ext_op(name, weight=1.0, chain=False, needs_aux=False):
    def deco(cls):
        cls.name, cls.weight, cls.ext, cls.chain, cls.needs_aux = name, weight, True, chain, needs_aux
        OPS[name] = cls
        return cls
    return deco


def value_class(v):
    """class of an argument value for the option table"""
    if v is None:
        return 'None'
    if isinstance(v, bool):
        return str(v)
    if isinstance(v, (int, np.integer)):
        return 'int<0' if v < 0 else 'int'
    if isinstance(v, float):
        return 'float=0' if v == 0 else 'float'
    if isinstance(v, complex):
        return 'complex'
    if isinstance(v, str):
        return v if len(v) <= 24 else 'str'
    if isinstance(v, (list, tuple)):
        kinds = sorted({'str' if isinstance(x, str) else 'None' if x is None else 'bool' if isinstance(x, bool) else 'int<0' if isinstance(x, int) and x < 0 else
                        'int' if isinstance(x, int) else type(x).__name__ for x in v})
        return 'list[%s]' % ','.join(kinds)
    return type(v).__name__


# =========================================================================================
# second accessors of a result
# =========================================================================================

def check_accessors(R, T, x, opname, cond, mods):
    """documented accessors of the Array x against the reference tensor T (labels / legs through get_leg_index, get_leg_indices, get_leg, has_label;
    shape, rank, ndim, size; the stored blocks through iteration: every block at its slices, nothing else non-zero)"""
    try:
        msgs = []
        if tuple(x.shape) != T.shape or x.rank != T.rank or x.ndim != T.rank:
            msgs.append('shape/rank/ndim = %s/%s/%s for a tensor of shape %s' % (x.shape, x.rank, x.ndim, T.shape))
        for i, lab in enumerate(T.labels):
            if lab is None:
                continue
            if x.get_leg_index(lab) != i or not x.has_label(lab) or x.get_leg(lab) is not x.legs[i]:
                msgs.append('get_leg_index(%r) = %s, has_label %s; the label belongs to leg %d' % (lab, x.get_leg_index(lab), x.has_label(lab), i))
        if T.rank:
            if list(x.get_leg_indices([-1, 0])) != [T.rank - 1, 0] or x.get_leg_index(-T.rank) != 0:
                msgs.append('get_leg_indices([-1, 0]) = %s' % (list(x.get_leg_indices([-1, 0])),))
        if x.has_label('#no-such-label#'):
            msgs.append("has_label('#no-such-label#') is True")
        R.stat('api:Array.get_leg_index')
        R.stat('api:Array.get_leg_indices')
        R.stat('api:Array.get_leg')
        R.stat('api:Array.has_label')
        R.stat('api:Array.ndim')
        if T.dense.size <= 400:
            D = np.zeros(T.shape, dtype=complex)
            seen = set()
            n = nent = 0
            for block, slices, charges, qindices in x:
                n += 1
                nent += int(np.asarray(block).size)
                key = tuple(int(q) for q in qindices)
                if key in seen:
                    msgs.append('iteration yields block %s twice' % (key,))
                seen.add(key)
                D[tuple(slices)] += block
                for l, c, sl in zip(T.legs, charges, slices):
                    if sl.start < sl.stop and not np.array_equal(mv(mods, np.asarray(c).reshape(-1)), mv(mods, l.qflat()[sl.start] * l.qconj)):
                        msgs.append('iteration: charges %s of block %s are not the (signed) charges of the legs at its slices' % (c, key))
            if n != x.stored_blocks or nent != int(x.size):
                msgs.append('stored_blocks / size = %s / %s, iteration yields %d blocks with %d entries' % (x.stored_blocks, x.size, n, nent))
            if not np.array_equal(D, T.dense):
                msgs.append('the blocks yielded by iteration, placed at their slices, differ from the dense form')
            R.stat('api:Array.__iter__')
            R.stat('api:Array.stored_blocks')
            R.stat('api:Array.size')
        for m in msgs[:2]:
            R.fail('C01', opname, cond, 'accessor-differs', '%s: %s' % (opname, m))
    except Exception as e:
        R.fail('C01', opname, cond, 'accessor-raises', '%s: an accessor of the result raises %s: %s' % (opname, type(e).__name__, str(e)[:120]))


# =========================================================================================
# continuation on a result over another ChargeInfo
# =========================================================================================

FOLLOW_OPS = {'conj': 2.0, 'tensordot': 4.0, 'inner': 2.0, 'add': 2.0, 'combine_legs': 4.0, 'split_legs': 4.0, 'sort_legcharge': 2.0, 'gauge_total_charge': 2.0,
              'transpose': 1.0, 'getitem': 2.0, 'trace': 1.0, 'as_completely_blocked': 1.0, 'outer': 0.7, 'squeeze': 1.0, 'concatenate': 1.0, 'iproject': 1.0,
              'scale_axis': 0.7, 'setitem': 1.0, 'permute': 1.0, 'charges': 0.5, 'construct': 1.0}


def foreign_followup(R, o, r, T, mods, names, opname):
    """use the result r (reference T, charges `mods`) of operation o as operand of up to three further operations in an environment of its own;
    the operations are stored in o['follow'] (replayed literally when present)"""
    msg = G.adopt_structure(T, r, len(mods))
    if msg:
        return
    chinfo = r.chinfo
    if list(chinfo.mod) != list(mods):
        return
    sub = G.Env(list(mods), list(names) if names is not None else [str(n) for n in chinfo.names], R.env.maxrank)
    sub.chinfo, sub.config, sub.ext, sub.xr, sub.api_hook = chinfo, R.env.config, True, R.env.xr, R.env.api_hook
    sub.rich, sub.sparse_values, sub.stat_hook, sub.p_missing = R.env.rich, None, R.env.stat_hook, R.env.p_missing
    sub.pool = [l.plain() for l in T.legs if l.n <= 6] or [RLeg([0, 1], np.zeros((1, len(mods)), dtype=QT), 1, len(mods))]
    sub.slots = [G.Slot(r, T, sub.new_group())]
    saved, R.env, R.in_follow = R.env, sub, True
    R.stat('follow:' + opname)
    try:
        explicit = o.get('follow')
        ops = []
        if explicit is None:
            o['follow'] = ops       # (recorded even when empty: a replay must not generate a continuation of its own)
        names_, weights = list(FOLLOW_OPS), list(FOLLOW_OPS.values())
        n = len(explicit) if explicit is not None else sub.xr.choice([1, 2, 2, 3])
        for k in range(n):
            if not sub.slots or sub.slots[0] is None:
                break
            if explicit is not None:
                fo = explicit[k]
            else:
                fo = None
                if k == 0 and sub.xr.random() < 0.35:
                    fo = {'op': 'conj', 'a': 0, 'inplace': False, 'complex_conj': True}
                rr = random.Random(sub.xr.randrange(1 << 30))
                empty = any(0 in l.sizes() for s_ in sub.slots for l in s_.ref.legs)
                for _ in range(30):
                    if fo is not None:
                        break
                    nm = rr.choices(names_, weights)[0]
                    if empty and nm in ('tensordot', 'inner'):
                        continue        # registered finding F42 (size-0 charge blocks in tensordot / inner) is met by the programs proper
                    fo = OPS[nm].gen(rr, sub, malformed=False)
                if fo is None:
                    break
            ops.append(fo)
            R.stat('follow-op:' + fo['op'])
            R.do_step(fo)
            sub.slots = [s_ for s_ in sub.slots if s_ is not None]
    finally:
        R.env, R.in_follow = saved, False


# =========================================================================================
# further operations
# =========================================================================================

def _imag(t):
    return np.imag(t) if np.iscomplexobj(t) else np.zeros_like(t)       # (np.imag of a real array is a read-only array)


def _lincomb(a, b, alpha, beta=1):
    return alpha * a + beta * b


def _times(a, k, add=0):
    return a * k + add * a


UNARY = {   # name -> (function on ndarray blocks, args, kwargs, allowed for complex entries); func(0) = 0 as the doc string requires
    'real': (np.real, (), {}, True), 'imag': (_imag, (), {}, True), 'conj': (np.conj, (), {}, True), 'negative': (np.negative, (), {}, True),
    'abs': (np.abs, (), {}, False), 'square': (np.square, (), {}, True), 'multiply-arg': (np.multiply, (2,), {}, True),
    'round-kw': (np.round, (), {'decimals': 0}, False), 'clip-args': (np.clip, (-1, 2), {}, False), 'times-arg-kw': (_times, (3,), {'add': -1}, True),
}


@ext_op('unary', 2.0, chain=True)
class OpUnary:
    """Array.unary_blockwise / iunary_blockwise(func, *args, **kwargs): the dense form is func applied to the dense form"""
    @staticmethod
    def gen(rng, env, malformed=False):
        if malformed:
            return None
        a = pick_slot(rng, env, small)
        if a is None:
            return None
        cplx = getattr(env.slots[a].ref, 'kind', 'f') == 'c'
        f = rng.choice([k for k, v in UNARY.items() if v[3] or not cplx])
        if f == 'square' and env.slots[a].ref.maxabs() > 1000:
            f = 'negative'
        return {'op': 'unary', 'a': a, 'kind': rng.choice(['unary_blockwise', 'iunary_blockwise']), 'func': f}

    @staticmethod
    def ref(env, o, aux):
        A = env.slots[o['a']].ref
        f, args, kw, _ = UNARY[o['func']]
        T = A.copy()
        T.dense = np.asarray(f(A.dense if getattr(A, 'kind', 'f') == 'c' else A.dense.real, *args, **kw)).astype(complex)
        if o['kind'] == 'iunary_blockwise':
            env.slots[o['a']].ref = T
            return {'inplace': o['a'], 'qtotal_rule': 'same'}
        return {'new': [T], 'alias': True, 'qtotal_rule': 'same'}

    @staticmethod
    def run(env, o):
        x = env.slots[o['a']].impl
        f, args, kw, _ = UNARY[o['func']]
        api(env, 'Array.' + o['kind'], func=o['func'], args=bool(args), kwargs=bool(kw))
        if o['kind'] == 'iunary_blockwise':
            x.iunary_blockwise(f, *args, **kw)
            return {'inplace': True}
        return {'new': [x.unary_blockwise(f, *args, **kw)]}


BINARY = {  # func(0, 0) = 0
    'maximum': (np.maximum, (), {}, False), 'minimum': (np.minimum, (), {}, False), 'multiply': (np.multiply, (), {}, True),
    'lincomb-args': (_lincomb, (2,), {}, True), 'lincomb-args-kw': (_lincomb, (-1,), {'beta': 3}, True), 'add-kw': (np.add, (), {'dtype': 'complex128'}, True),
}


@ext_op('blockwise', 2.5, chain=True)
class OpBlockwise:
    """Array.binary_blockwise / ibinary_blockwise(func, other, *args, **kwargs)"""
    @staticmethod
    def gen(rng, env, malformed=False):
        o = OPS['add'].gen(rng, env, malformed=malformed)
        if o is None or not small(env.slots[o['a']]) or not small(env.slots[o['b']]):
            return None
        cplx = any(getattr(env.slots[i].ref, 'kind', 'f') == 'c' for i in (o['a'], o['b']))
        o2 = {'op': 'blockwise', 'a': o['a'], 'b': o['b'], 'kind': rng.choice(['binary_blockwise', 'ibinary_blockwise']),
              'func': rng.choice([k for k, v in BINARY.items() if v[3] or not cplx])}
        if o.get('cond') == 'labels-permuted':
            o2['cond'] = 'labels-permuted'
        if malformed:
            o2['malformed'] = o['malformed']
        return o2

    @staticmethod
    def ref(env, o, aux):
        A = env.slots[o['a']].ref
        B, _ = G._align_other(A, env.slots[o['b']].ref)
        if A.rank != B.rank or not all(x.equal(y, env.mods) for x, y in zip(A.legs, B.legs)) or not np.array_equal(A.qtotal, B.qtotal):
            raise ExpectError('ValueError')
        f, args, kw, _ = BINARY[o['func']]
        real = getattr(A, 'kind', 'f') != 'c' and getattr(env.slots[o['b']].ref, 'kind', 'f') != 'c'
        T = A.copy()
        T.dense = np.asarray(f(A.dense.real if real else A.dense, B.dense.real if real else B.dense, *args, **kw)).astype(complex)
        if o['kind'] == 'ibinary_blockwise':
            env.slots[o['a']].ref = T
            return {'inplace': o['a'], 'qtotal_rule': 'same'}
        return {'new': [T], 'qtotal_rule': 'same'}

    @staticmethod
    def run(env, o):
        x, y = env.slots[o['a']].impl, env.slots[o['b']].impl
        f, args, kw, _ = BINARY[o['func']]
        api(env, 'Array.' + o['kind'], func=o['func'], args=bool(args), kwargs=bool(kw))
        if o['kind'] == 'ibinary_blockwise':
            x.ibinary_blockwise(f, y, *args, **kw)
            return {'inplace': True}
        return {'new': [x.binary_blockwise(f, y, *args, **kw)]}


@ext_op('matvec', 1.5, chain=True)
class OpMatvec:
    """Array.matvec(other) = tensordot(self, other, axes=1) with a freshly created vector on the conjugate of the last leg"""
    @staticmethod
    def gen(rng, env, malformed=False):
        if malformed:
            return None
        a = pick_slot(rng, env, lambda s: small(s) and all(0 not in l.sizes() for l in s.ref.legs))    # (size-0 blocks: registered finding F42 of tensordot)
        if a is None:
            return None
        A = env.slots[a].ref
        l = A.legs[-1].conj().plain()
        qt = G.pick_qtotal(rng, env, [l])
        V = RTensor(np.zeros(l.n), [l], [None], qt)
        cplx = rng.random() < 0.3
        vals = rand_values(rng, (l.n,), cplx) * allowed_mask(V, env.mods)
        return {'op': 'matvec', 'a': a, 'leg': l.spec(), 'qtotal': [int(c) for c in qt], 'values': enc_vec(vals), 'dtype': 'complex128' if cplx else rng.choice(['float64', 'int64']),
                'label': rng.choice([None, 'v', A.labels[0]])}

    @staticmethod
    def ref(env, o, aux):
        A = env.slots[o['a']].ref
        v = dec_vec(o['values'])
        D = np.tensordot(A.dense, v, 1)
        if D.ndim == 0:
            return {'scalar': complex(D)}
        return {'new': [RTensor(D, A.legs[:-1], lab_drop_dup(A.labels[:-1], []), mv(env.mods, A.qtotal + np.array(o['qtotal'], dtype=QT).reshape(env.q)))],
                'qtotal_rule': 'sum'}

    @staticmethod
    def run(env, o):
        npc = _npc()
        x = env.slots[o['a']].impl
        v = dec_vec(o['values'])
        if o['dtype'] != 'complex128':
            v = v.real
        vec = npc.Array.from_ndarray(v, [mk_leg(env, o['leg'])], o['dtype'], o['qtotal'], labels=[o['label']])
        api(env, 'Array.matvec')
        r = x.matvec(vec)
        return {'new': [r]} if isinstance(r, npc.Array) else {'scalar': r}


@ext_op('eq', 1.0)
class OpEq:
    """a == b (documented: all entries agree up to eps = 1e-14; False for different qtotal)"""
    @staticmethod
    def gen(rng, env, malformed=False):
        if malformed:
            return None
        a = pick_slot(rng, env)
        A = env.slots[a].ref
        kind = rng.choice(['slot', 'slot', 'copy', 'perturbed', 'tiny', 'self', 'other-qtotal'])
        if kind == 'other-qtotal' and env.q == 0:
            kind = 'copy'
        o = {'op': 'eq', 'a': a, 'kind': kind, 'eps': rng.choice([None, None, 1e-2, 1e-20])}
        if kind == 'slot':
            cands = []
            for b, s in enumerate(env.slots):
                B, _ = G._align_other(A, s.ref)
                if B.rank == A.rank and all(x.equal(y, env.mods) for x, y in zip(A.legs, B.legs)):
                    cands.append(b)
            o['b'] = rng.choice(cands)
        elif kind in ('perturbed', 'tiny'):
            pos = np.argwhere(allowed_mask(A, env.mods))
            if not len(pos):
                return None
            o['pos'] = [int(v) for v in pos[rng.randrange(len(pos))]]
        return o

    @staticmethod
    def ref(env, o, aux):
        A = env.slots[o['a']].ref
        k = o['kind']
        if k == 'slot':
            B, _ = G._align_other(A, env.slots[o['b']].ref)
            if o['a'] == o['b']:
                return {'scalar': 1 + 0j}       # the same object
            if not np.array_equal(A.qtotal, B.qtotal):
                return {'scalar': 0j}
            return {'scalar': complex(bool(np.max(np.abs(A.dense - B.dense), initial=0.0) < (o.get('eps') or 1e-14)))}
        if k == 'self':
            return {'scalar': 1 + 0j}
        if k == 'other-qtotal':
            return {'scalar': 0j}       # documented: arrays of different total charge are not equal
        # copy: difference 0; perturbed: one entry differs by 1e-3; tiny: by at most 1e-16
        diff = {'copy': 0.0, 'perturbed': 1e-3, 'tiny': 1e-16}[k]
        if k == 'tiny' and o.get('eps') == 1e-20:
            return {'scalar': None}     # (whether 1e-16 survives the addition depends on the entry: not compared)
        return {'scalar': complex(diff < (o.get('eps') or 1e-14))}

    @staticmethod
    def run(env, o):
        x = env.slots[o['a']].impl
        k = o['kind']
        api(env, 'Array.__eq__', other=k, eps=o.get('eps'))
        if k == 'slot':
            y = env.slots[o['b']].impl
        elif k == 'self':
            y = x
        elif k == 'other-qtotal':
            qt = np.array(x.qtotal).copy()
            qt[0] += 1
            y = _npc().zeros(x.legs, x.dtype, x.chinfo.make_valid(qt), x.get_leg_labels())
        else:
            y = x.copy(deep=True)
            if k in ('perturbed', 'tiny'):
                pos = tuple(o['pos'])
                if y.dtype.kind not in 'fc':
                    y = y.astype(np.float64)
                y[pos if len(pos) > 1 else pos[0]] = y[pos if len(pos) > 1 else pos[0]] + (1e-3 if k == 'perturbed' else 1e-16)
        if o.get('eps') is not None:
            return {'scalar': bool(x.__eq__(y, o['eps']))}
        return {'scalar': bool(x == y)}


@ext_op('get_block', 1.5, chain=True)
class OpGetBlock:
    """Array.get_block(qindices, insert): the block as it stands in the dense form, None for a block that is not stored (insert=False), a new zero block
    that belongs to the tensor (insert=True): values written into the returned block are values of the tensor"""
    @staticmethod
    def gen(rng, env, malformed=False):
        a = pick_slot(rng, env)
        A = env.slots[a].ref
        al = allowed_mask(A, env.mods)
        good, bad = [], []
        for c in block_combos(A.legs):
            sl = tuple(slice(int(l.slices[b]), int(l.slices[b + 1])) for l, b in zip(A.legs, c))
            if al[sl].size == 0:
                continue
            (good if al[sl].all() else bad).append(c)
        cands = bad if malformed else good
        if not cands:
            return None
        c = rng.choice(cands)
        o = {'op': 'get_block', 'a': a, 'qindices': [int(v) for v in c], 'insert': rng.random() < 0.5}
        if malformed:
            o['malformed'] = 'incompatible-charge-block'
            return o
        if rng.random() < 0.6:
            shape = [A.legs[k].sizes()[b] for k, b in enumerate(c)]
            o['write'] = enc_vec(rand_values(rng, shape, getattr(A, 'kind', 'f') == 'c'))
        return o

    @staticmethod
    def ref(env, o, aux):
        A = env.slots[o['a']].ref
        c = o['qindices']
        sl = tuple(slice(int(l.slices[b]), int(l.slices[b + 1])) for l, b in zip(A.legs, c))
        if not allowed_mask(A, env.mods)[sl].all():
            raise ExpectError('IndexError')
        want = A.dense[sl]
        if aux['block'] is None:
            if o['insert'] or np.any(want != 0):
                raise OracleFail('get_block(%s, insert=%s) returned None; the dense form has %s there' % (c, o['insert'], 'non-zero entries' if np.any(want != 0) else 'zeros'))
        elif not np.array_equal(dec_vec(aux['block']).astype(complex), want):
            raise OracleFail('get_block(%s): the returned block differs from the dense form at its slices' % (c,))
        T = A.copy()
        if 'write' in o and aux['block'] is not None:
            T.dense[sl] = dec_vec(o['write'])
        env.slots[o['a']].ref = T
        return {'inplace': o['a'], 'qtotal_rule': 'same'}

    @staticmethod
    def run(env, o):
        x = env.slots[o['a']].impl
        api(env, 'Array.get_block', insert=o['insert'])
        blk = x.get_block(np.array(o['qindices'], dtype=np.intp), insert=o['insert'])
        aux = {'block': None if blk is None else enc_vec(np.array(blk))}
        if blk is not None and 'write' in o:
            w = dec_vec(o['write'])
            blk[...] = w if blk.dtype.kind == 'c' else w.real
        return {'inplace': True, 'aux': aux}


OpGetBlock.needs_aux = True


def _mapfunc(charges, k, mods=()):
    r = np.array(charges, dtype=QT) * k
    for j, m in enumerate(mods):
        if m != 1:
            r[..., j] = np.mod(r[..., j], m)
    return r


@ext_op('apply_charge_mapping', 1.5, chain=True)
class OpChargeMapping:
    """Array.apply_charge_mapping(map_func, func_args, func_kwargs, inplace) with the homomorphisms q -> k*q of the charge group"""
    @staticmethod
    def gen(rng, env, malformed=False):
        if malformed or env.q == 0:
            return None
        return {'op': 'apply_charge_mapping', 'a': pick_slot(rng, env), 'k': rng.choice([-1, -1, 2, 3, 0, 1]), 'inplace': rng.random() < 0.4,
                'call': rng.choice(['args', 'kwargs', 'closure'])}

    @staticmethod
    def mapped_leg(env, l, k):
        sub = None if l.sub is None else [OpChargeMapping.mapped_leg(env, s, k) for s in l.sub]
        return RLeg(l.slices, mv(env.mods, l.charges * k), l.qconj, env.q, sub, l.pmap)

    @staticmethod
    def ref(env, o, aux):
        A = env.slots[o['a']].ref
        T = A.copy()
        T.legs = [OpChargeMapping.mapped_leg(env, l, o['k']) for l in A.legs]
        T.qtotal = mv(env.mods, A.qtotal * o['k'])
        if hasattr(A, 'kind'):
            T.kind = A.kind
        if o['inplace']:
            env.slots[o['a']].ref = T
            return {'inplace': o['a'], 'qtotal_rule': 'mapped'}
        return {'new': [T], 'alias': True, 'qtotal_rule': 'mapped'}

    @staticmethod
    def run(env, o):
        x = env.slots[o['a']].impl
        k, mods = o['k'], tuple(env.mods)
        api(env, 'Array.apply_charge_mapping', func_args=o['call'] == 'args', func_kwargs=o['call'] != 'closure', inplace=o['inplace'])
        if o['call'] == 'args':
            r = x.apply_charge_mapping(_mapfunc, (k, mods), inplace=o['inplace'])
        elif o['call'] == 'kwargs':
            r = x.apply_charge_mapping(_mapfunc, (k,), {'mods': mods}, o['inplace'])
        else:
            r = x.apply_charge_mapping(lambda c: _mapfunc(c, k, mods), inplace=o['inplace'])
        if o['inplace']:
            if r is not x:
                raise AssertionError('apply_charge_mapping(inplace=True) did not return the instance')
            return {'inplace': True}
        return {'new': [r]}


@ext_op('add_charge', 1.5)
class OpAddCharge:
    """Array.add_charge(add_legs, chinfo, qtotal): one more charge k * (first charge) [or 0 without charges] shifted on the first leg; the result lives
    over the combined ChargeInfo and is continued by foreign_followup"""
    @staticmethod
    def gen(rng, env, malformed=False):
        if malformed:
            return None
        a = pick_slot(rng, env, lambda s: all(l.n > 0 for l in s.ref.legs))
        if a is None:
            return None
        A = env.slots[a].ref
        if env.q:
            m = env.mods[0]
            m2 = rng.choice([1, 2, 3, 4]) if m == 1 else rng.choice([d for d in range(2, m + 1) if m % d == 0])
            k = rng.choice([1, 1, -1, 2, 0])
        else:
            m2, k = rng.choice([1, 2, 3]), 0
        shift = rng.randint(-1, 2)
        o = {'op': 'add_charge', 'a': a, 'mod2': m2, 'k': k, 'shift': shift, 'name2': rng.choice(['', 'X']), 'split': rng.random() < 0.4,
             'qtotal': rng.choice(['given', 'given', 'detect']), 'chinfo': rng.random() < 0.4}
        if o['qtotal'] == 'detect':
            if not np.any(A.dense != 0):
                o['qtotal'] = 'given'       # (nothing to detect from)
            else:
                o['cond'] = 'qtotal-detect'
        return o

    @staticmethod
    def second(env, o, A):
        """charges of the added legs per index and the added total charge"""
        m2, k = o['mod2'], o['k']
        qfs = []
        for i, l in enumerate(A.legs):
            base = l.qflat()[:, 0] * k if env.q else np.zeros(l.n, dtype=QT)
            if i == 0:
                base = base + o['shift']
            qfs.append(mv([m2], base.reshape(l.n, 1)))
        qt = (int(A.qtotal[0]) * k if env.q else 0) + o['shift'] * A.legs[0].qconj
        return qfs, mv([m2], np.array([qt], dtype=QT))

    @staticmethod
    def ref(env, o, aux):
        A = env.slots[o['a']].ref
        qfs, qt2 = OpAddCharge.second(env, o, A)
        mods = list(env.mods) + [o['mod2']]
        legs = []
        for l, qf in zip(A.legs, qfs):
            full = np.concatenate([l.qflat(), qf], axis=1)
            legs.append(leg_from_qflat(full, l.qconj, len(mods), bunch=False))
        T = RTensor(A.dense, legs, A.labels, np.concatenate([A.qtotal, qt2]))
        return {'new': [T], 'foreign_mods': mods, 'foreign_names': list(env.names) + [o['name2']], 'qtotal_rule': 'extended'}

    @staticmethod
    def run(env, o):
        npc = _npc()
        x = env.slots[o['a']].impl
        A = env.slots[o['a']].ref
        ci2 = npc.ChargeInfo([o['mod2']], [o['name2']])
        qfs, qt2 = OpAddCharge.second(env, o, A)
        add_legs = []
        for l, qf in zip(A.legs, qfs):
            lg = npc.LegCharge.from_qflat(ci2, qf, l.qconj)
            add_legs.append(lg if o['split'] else lg.bunch()[1])
        chinfo = npc.ChargeInfo.add([x.chinfo, ci2]) if o['chinfo'] else None
        api(env, 'Array.add_charge', chinfo='given' if o['chinfo'] else None, qtotal=o['qtotal'])
        return {'new': [x.add_charge(add_legs, chinfo, [int(c) for c in qt2] if o['qtotal'] == 'given' else None)]}


def _block_fill(shape, c=1, offset=0):
    """a function of the shape only (the order in which the blocks are filled is not documented)"""
    n = int(np.prod(shape))
    return (np.arange(n, dtype=float).reshape(shape) % 5 + offset) * c


def _block_fill_kw(c=1, size=None, offset=0):
    return _block_fill(size, c, offset)


@ext_op('construct2', 3.0, chain=True)
class OpConstruct2:
    """constructors: from_ndarray_trivial, from_func (func_args / func_kwargs / shape_kw / dtype=None), from_func_square, from_ndarray with dtype=None /
    qtotal=None (detect_qtotal) / cutoff / raise_wrong_sector / warn_wrong_sector, detect_legcharge followed by from_ndarray"""
    KINDS = ['from_ndarray_trivial', 'from_func', 'from_func', 'from_func_square', 'from_ndarray_opts', 'from_ndarray_opts', 'detect_legcharge', 'detect_qtotal']

    @staticmethod
    def gen(rng, env, malformed=False):
        kind = rng.choice(OpConstruct2.KINDS)
        if malformed and kind != 'from_ndarray_opts':
            return None
        labs = lambda r: rng.sample(G.LABEL_POOL, r) if rng.random() < 0.5 else None      # noqa: E731
        if kind == 'from_ndarray_trivial':
            shape = [rng.choice([1, 1, 2, 3]) for _ in range(rng.randint(1, 3))]
            cplx = rng.random() < 0.3
            return {'op': 'construct2', 'kind': kind, 'values': enc_vec(rand_values(rng, shape, cplx)), 'dtype': rng.choice([None, 'complex128', 'float64'] if not cplx else [None, 'complex128']),
                    'labels': labs(len(shape))}
        if kind == 'from_func_square':
            l = rng.choice(env.pool)
            l = l.conj() if rng.random() < 0.5 else l
            if l.n > 8 or l.n == 0:
                return None
            o = {'op': 'construct2', 'kind': kind, 'leg': l.spec(), 'call': rng.choice(['plain', 'args', 'shape_kw']), 'dtype': rng.choice([None, 'complex128', 'int64']),
                 'labels': labs(2)}
            if not l.is_blocked() and o['labels'] is not None:
                o['cond'] = 'leg-not-blocked+labels'
            return o
        r = rng.randint(1, min(3, env.maxrank))
        legs = [rng.choice(env.pool) for _ in range(r)]
        legs = [l.conj() if rng.random() < 0.5 else l for l in legs]
        if np.prod([l.n for l in legs]) > 200 or np.prod([l.n for l in legs]) == 0:
            return None
        qt = G.pick_qtotal(rng, env, legs)
        o = {'op': 'construct2', 'kind': kind, 'legs': [l.spec() for l in legs], 'qtotal': [int(c) for c in qt], 'labels': labs(r)}
        T = RTensor(np.zeros([l.n for l in legs]), legs, [None] * r, qt)
        al = allowed_mask(T, env.mods)
        if kind == 'from_func':
            o.update(call=rng.choice(['plain', 'args', 'kwargs', 'shape_kw']), dtype=rng.choice([None, None, 'complex128', 'int64']),
                     qtotal=o['qtotal'] if rng.random() < 0.7 else None)
            return o
        cplx = rng.random() < 0.3
        vals = rand_values(rng, T.shape, cplx) * al
        if kind == 'detect_qtotal':
            # the largest entry decides (documented): make it unique up to the sector
            if not np.any(vals != 0):
                o['values'] = enc_vec(vals)
                return o
            pos = np.argwhere(vals != 0)
            p_ = tuple(pos[rng.randrange(len(pos))])
            vals[p_] = 7 * (1 if rng.random() < 0.5 else -1)
            o.update(values=enc_vec(vals), cutoff=rng.choice([None, None, 0.5, 6.5, 7.0, 8.0]))
            return o
        if kind == 'detect_legcharge':
            d = rng.randrange(r)
            o.update(values=enc_vec(vals), axis=d, qconj=rng.choice([None, 1, -1]), qtotal=o['qtotal'] if rng.random() < 0.7 else None, cutoff=rng.choice([None, None, 0.5]),
                     dtype='complex128' if cplx else rng.choice(['float64', 'int64']))
            if o['qtotal'] is None:
                T0 = RTensor(np.zeros(T.shape), legs, [None] * r, np.zeros(env.q, dtype=QT))
                vals = rand_values(rng, T.shape, cplx) * allowed_mask(T0, env.mods)
                o['values'] = enc_vec(vals)
            if r == 1 and env.q:
                o['cond'] = 'rank-1'
            return o
        # from_ndarray with its options
        o.update(dtype=rng.choice([None, None, 'complex128' if cplx else 'float64']), cutoff=rng.choice([None, None, 0.5, 1.0, 2.0]),
                 qtotal=o['qtotal'] if rng.random() < 0.6 else None)
        wrong = np.argwhere(~al)
        if (malformed or rng.random() < 0.3) and len(wrong) and np.any(vals != 0):
            # a non-zero entry in a sector the charges forbid: raise_wrong_sector (default True) -> ValueError, else the entry is ignored
            big = rng.random() < 0.7
            vals[tuple(wrong[rng.randrange(len(wrong))])] = 3 if big else 1
            o['wrong_sector'] = True
            o['raise_wrong_sector'] = bool(malformed) if malformed else rng.choice([None, False, False, False])
            o['warn_wrong_sector'] = rng.choice([None, True, False])
            if o['raise_wrong_sector'] is None:
                malformed = True
            if o['qtotal'] is None and (o['cutoff'] or 0) < 4:
                vals[tuple(np.argwhere(al)[0])] = 4     # the largest entry (it decides the detected qtotal) lies in the intended sector
            if malformed:
                o['malformed'] = 'wrong-sector'
        elif malformed:
            return None
        o['values'] = enc_vec(vals)
        return o

    @staticmethod
    def _legs(env, o):
        return [leg_from_spec(sp, env.q) for sp in o['legs']]

    @staticmethod
    def _fill(env, o, T, dtype_kind):
        call = o['call']
        c, off = (2, 1) if call in ('args', 'kwargs', 'shape_kw') else (1, 0)
        for cmb in block_combos(T.legs):
            sl = tuple(slice(int(l.slices[b]), int(l.slices[b + 1])) for l, b in zip(T.legs, cmb))
            if T.dense[sl].size and allowed_mask(T, env.mods)[sl].all():
                T.dense[sl] = _block_fill(T.dense[sl].shape, c, off)

    @staticmethod
    def ref(env, o, aux):
        k = o['kind']
        zero = np.zeros(env.q, dtype=QT)
        if k == 'from_ndarray_trivial':
            v = dec_vec(o['values'])
            legs = [RLeg([0, n], np.zeros((1, 0), dtype=QT), 1, 0) for n in v.shape]
            T = RTensor(v, legs, o['labels'] or [None] * v.ndim, np.zeros(0, dtype=QT))
            if env.q == 0:
                return {'new': [T], 'qtotal_rule': 'zero'}
            return {'new': [T], 'foreign_mods': [], 'foreign_names': [], 'qtotal_rule': 'zero'}
        if k == 'from_func_square':
            l = leg_from_spec(o['leg'], env.q)
            T = RTensor(np.zeros((l.n, l.n)), [l, l.conj()], o['labels'] or [None, None], zero)
            o2 = dict(o, call=o['call'])
            OpConstruct2._fill(env, o2, T, None)
            if not l.is_blocked():
                # documented through the implementation note of from_func_square: the blocks are those of the leg blocked by charge
                # (one call of func per charge sector); re-fill with the blocked structure
                qf = l.qflat()
                order = sorted(range(l.n), key=lambda i: G.lex_key(qf[i]))
                lb = leg_from_qflat(qf[order], l.qconj, env.q, bunch=True)
                Tb = RTensor(np.zeros((l.n, l.n)), [lb, lb.conj()], [None, None], zero)
                OpConstruct2._fill(env, o2, Tb, None)
                inv = np.argsort(np.array(order), kind='stable')
                T.dense = Tb.dense[np.ix_(inv, inv)]
            return {'new': [T], 'qtotal_rule': 'zero'}
        legs = OpConstruct2._legs(env, o)
        labels = o['labels'] or [None] * len(legs)
        if k == 'from_func':
            T = RTensor(np.zeros([l.n for l in legs]), legs, labels, zero if o['qtotal'] is None else mv(env.mods, np.array(o['qtotal'], dtype=QT).reshape(env.q)))
            OpConstruct2._fill(env, o, T, None)
            return {'new': [T], 'qtotal_rule': 'requested'}
        vals = dec_vec(o['values']).astype(complex)
        cutoff = o.get('cutoff')
        eff = 1e-12 if cutoff is None else cutoff

        def charge_at(pos):
            tot = np.zeros(env.q, dtype=QT)
            for l, i in zip(legs, pos):
                tot = tot + l.qflat()[i] * l.qconj
            return mv(env.mods, tot)

        def detected():
            if not vals.size or np.max(np.abs(vals)) < eff:
                return zero
            mx = np.max(np.abs(vals))
            cands = {tuple(charge_at(p_).tolist()) for p_ in np.argwhere(np.abs(vals) == mx)}
            if aux is None:
                return np.array(sorted(cands)[0], dtype=QT)
            got = tuple(int(c) for c in aux['qtotal'])
            if got not in cands:
                raise OracleFail('detect_qtotal: %s, the largest entries lie in the sectors %s' % (list(got), sorted(cands)))
            return np.array(got, dtype=QT)
        if k == 'detect_qtotal':
            qt = detected()
            if not np.array_equal(np.array(aux['qtotal'], dtype=QT).reshape(env.q), qt):
                raise OracleFail('detect_qtotal: %s, documented %s (no entry above the cutoff: charge 0)' % (aux['qtotal'], qt.tolist()))
            return {'scalar': 0j}
        if k == 'detect_legcharge':
            d = o['axis']
            qc = 1 if o['qconj'] is None else o['qconj']
            if aux['qconj'] != qc:
                raise OracleFail('detect_legcharge(qconj=%s): the derived leg has qconj %s' % (o['qconj'], aux['qconj']))
            nl = leg_from_qflat(np.array(aux['qflat'], dtype=QT).reshape(legs[d].n, env.q), qc, env.q)
            legs[d] = nl
            qt = zero if o['qtotal'] is None else mv(env.mods, np.array(o['qtotal'], dtype=QT).reshape(env.q))
            T = RTensor(vals, legs, labels, qt)
            if np.any(vals[~allowed_mask(T, env.mods)] != 0):
                raise OracleFail('detect_legcharge: with the derived leg (charges %s) the array has non-zero entries in sectors of total charge != %s' % (
                    nl.qflat().tolist(), qt.tolist()))
            return {'new': [T], 'qtotal_rule': 'requested'}
        # from_ndarray_opts
        qt = detected() if o['qtotal'] is None else mv(env.mods, np.array(o['qtotal'], dtype=QT).reshape(env.q))
        T = RTensor(vals, legs, labels, qt)
        al = allowed_mask(T, env.mods)
        if np.any(np.abs(vals[~al]) > eff) and o.get('raise_wrong_sector') in (None, True):
            raise ExpectError('ValueError')
        T.dense = vals * al         # (entries of other sectors up to the cutoff are ignored; the cutoff does not act on the sector kept)
        return {'new': [T], 'qtotal_rule': 'requested'}

    @staticmethod
    def run(env, o):
        npc = _npc()
        k = o['kind']
        if k == 'from_ndarray_trivial':
            v = dec_vec(o['values'])
            if not np.iscomplexobj(v) or o['dtype'] == 'float64':
                v = v.real
            api(env, 'Array.from_ndarray_trivial', dtype=o['dtype'], labels=o['labels'])
            return {'new': [npc.Array.from_ndarray_trivial(v, o['dtype'], o['labels'])]}
        call = o.get('call')
        fkw = {}
        if call == 'plain':
            f, fa = _block_fill, ()
        elif call == 'args':
            f, fa = _block_fill, (2, 1)
        elif call == 'kwargs':
            f, fa, fkw = _block_fill, (), {'c': 2, 'offset': 1}
        elif call == 'shape_kw':
            f, fa, fkw = _block_fill_kw, (2,), {'offset': 1}
        if k == 'from_func_square':
            api(env, 'Array.from_func_square', dtype=o['dtype'], func_args=bool(fa), func_kwargs=bool(fkw), shape_kw='size' if call == 'shape_kw' else None, labels=o['labels'])
            return {'new': [npc.Array.from_func_square(f, mk_leg(env, o['leg']), o['dtype'], fa, fkw, 'size' if call == 'shape_kw' else None, o['labels'])]}
        legs = [mk_leg(env, sp) for sp in o['legs']]
        if k == 'from_func':
            api(env, 'Array.from_func', dtype=o['dtype'], qtotal=o['qtotal'], func_args=bool(fa), func_kwargs=bool(fkw), shape_kw='size' if call == 'shape_kw' else None, labels=o['labels'])
            return {'new': [npc.Array.from_func(f, legs, o['dtype'], o['qtotal'], fa, fkw, 'size' if call == 'shape_kw' else None, o['labels'])]}
        v = dec_vec(o['values'])
        if not np.iscomplexobj(v) or o.get('dtype') in ('float64', 'int64'):
            v = v.real
        if k == 'detect_qtotal':
            api(env, 'detect_qtotal', cutoff=o.get('cutoff'))
            qt = npc.detect_qtotal(v, legs) if o.get('cutoff') is None else npc.detect_qtotal(v, legs, o['cutoff'])
            return {'scalar': 0, 'aux': {'qtotal': [int(c) for c in qt]}}
        if k == 'detect_legcharge':
            lg = list(legs)
            lg[o['axis']] = None
            kw = {} if o['qconj'] is None else {'qconj': o['qconj']}
            if o['cutoff'] is not None:
                kw['cutoff'] = o['cutoff']
            api(env, 'detect_legcharge', qtotal=o['qtotal'], qconj=o['qconj'], cutoff=o['cutoff'])
            new = npc.detect_legcharge(v, env.chinfo, lg, o['qtotal'], **kw)
            nl = new[o['axis']]
            r = npc.Array.from_ndarray(v, new, o['dtype'], o['qtotal'], labels=o['labels'])
            return {'new': [r], 'aux': {'qconj': int(nl.qconj), 'qflat': [[int(c) for c in row] for row in np.asarray(nl.to_qflat()).reshape(nl.ind_len, env.q)]}}
        kw = {}
        for name in ('raise_wrong_sector', 'warn_wrong_sector'):
            if o.get(name) is not None:
                kw[name] = o[name]
        api(env, 'Array.from_ndarray', dtype=o['dtype'], qtotal=o['qtotal'], cutoff=o['cutoff'], labels=o['labels'], **kw)
        r = npc.Array.from_ndarray(v, legs, o['dtype'], o['qtotal'], o['cutoff'], o['labels'], **kw)
        return {'new': [r], 'aux': {'qtotal': [int(c) for c in r.qtotal]}}


OpConstruct2.needs_aux = True


@ext_op('grid_pieces', 2.0, chain=True)
class OpGridPieces:
    """grid_concat of the pieces of a tensor cut along 1-3 of its legs (pieces x[sl_1, sl_2, ...] taken by slicing: their legs differ along the grid axes):
    the dense form is the one of the tensor again, the legs are the concatenated legs of the pieces.  Also 1D grids (documented: concatenate),
    axes given as labels, copy=False, pieces replaced by None where they vanish"""
    @staticmethod
    def gen(rng, env, malformed=False):
        if malformed:
            return None
        a = pick_slot(rng, env, lambda s: s.ref.dense.size <= 200 and any(n >= 2 for n in s.ref.shape))
        if a is None:
            return None
        A = env.slots[a].ref
        cand = [i for i, n in enumerate(A.shape) if n >= 2]
        d = min(len(cand), rng.choice([1, 2, 2, 2, 3]))
        axes = rng.sample(cand, d)
        cuts = []
        for i in axes:
            n = A.shape[i]
            k = rng.choice([1, 1, 2]) if n >= 3 else 1
            cuts.append([0] + sorted(rng.sample(range(1, n), k)) + [n])
        use_none = d >= 2 and rng.random() < 0.5
        return {'op': 'grid_pieces', 'a': a, 'axes': [axarg(rng, A, i) for i in axes], 'cuts': cuts, 'copy': rng.choice([None, True, False]), 'use_none': use_none}

    @staticmethod
    def ref(env, o, aux):
        A = env.slots[o['a']].ref
        axes = [ax_index(A, x) for x in o['axes']]
        T = A.copy()
        for i, c in zip(axes, o['cuts']):
            parts = [project_leg(A.legs[i], range(c[k], c[k + 1]), env.q) for k in range(len(c) - 1)]
            T.legs[i] = G._concat_leg(env, parts)
        if o['use_none']:
            # a grid row / column made of vanishing pieces only cannot be replaced by None entries (documented ValueError): the runner keeps those
            pass
        return {'new': [T], 'qtotal_rule': 'same'}

    @staticmethod
    def run(env, o):
        npc = _npc()
        x = env.slots[o['a']].impl
        axes = [x.get_leg_index(a_) for a_ in o['axes']]
        shape = [len(c) - 1 for c in o['cuts']]
        grid = np.empty(shape, dtype=object)
        for idx in itertools.product(*[range(n) for n in shape]):
            sl = [slice(None)] * x.rank
            for i, c, k in zip(axes, o['cuts'], idx):
                sl[i] = slice(c[k], c[k + 1])
            grid[idx] = x[tuple(sl)]
        nn = 0
        if o['use_none']:
            for idx in itertools.product(*[range(n) for n in shape]):
                if grid[idx].stored_blocks == 0:
                    # keep one entry per row / column of the grid
                    keep = False
                    for dim in range(len(shape)):
                        others = [j for j in itertools.product(*[range(n) for n in shape]) if j[dim] == idx[dim] and j != idx]
                        if all(grid[j] is None for j in others):
                            keep = True
                    if not keep:
                        grid[idx] = None
                        nn += 1
        kw = {} if o['copy'] is None else {'copy': o['copy']}
        api(env, 'grid_concat', grid='%dD' % len(shape) + ('+None' if nn else ''), axes='labels' if any(isinstance(a_, str) for a_ in o['axes']) else 'int', **kw)
        return {'new': [npc.grid_concat(grid.tolist(), o['axes'], **kw)]}


@ext_op('combine_split', 2.5, chain=True)
class OpCombineSplit:
    """combine_legs (all its options, see npc_gen.OpCombine) immediately followed by split_legs of the result (all pipes / a subset, with and without
    cutoff): both results are compared and stay alive.  Reaches the special cases of split_legs (no stored block, one stored block and single-row
    pipes) for every combination the generator of combine_legs produces"""
    @staticmethod
    def gen(rng, env, malformed=False):
        c = OPS['combine_legs'].gen(rng, env, malformed=malformed)
        if c is None:
            return None
        o = {'op': 'combine_split', 'a': c['a'], 'c': c, 'which': rng.choice(['all', 'all', 'first', 'last']), 'cutoff': rng.choice([None, None, 0.0, 1e-30])}
        if malformed:
            o['malformed'] = c['malformed']
        return o

    @staticmethod
    def axes(o, legs_are_pipes):
        pa = [i for i, p_ in enumerate(legs_are_pipes) if p_]
        if o['which'] == 'all' or not pa:
            return None
        return [pa[0]] if o['which'] == 'first' else [pa[-1]]

    @staticmethod
    def ref(env, o, aux):
        rc = OPS['combine_legs'].ref(env, o['c'], None)
        T = rc['new'][0]
        T.kind = getattr(env.slots[o['a']].ref, 'kind', 'f')
        T2 = G._ref_split(env, T, OpCombineSplit.axes(o, [l.sub is not None for l in T.legs]))
        res = {'new': [T, T2], 'qtotal_rule': 'same'}
        if 'cond' in rc:
            res['cond'] = rc['cond']
        return res

    @staticmethod
    def run(env, o):
        npc = _npc()
        r = OPS['combine_legs'].run(env, o['c'])['new'][0]
        ax = OpCombineSplit.axes(o, [isinstance(l, npc.LegPipe) for l in r.legs])
        api(env, 'Array.split_legs', axes=ax, cutoff=o['cutoff'])
        kw = {} if o['cutoff'] is None else {'cutoff': o['cutoff']}
        return {'new': [r, r.split_legs(ax, **kw)]}


@ext_op('nested_pipes', 1.5, chain=True)
class OpNestedPipes:
    """combine_legs of a leg that is already a LegPipe with further legs (pipe of pipes, nested label '((a.b).c)'), and split_legs of the outer pipe
    only: both results are compared and stay alive (the inner pipe is split by later steps)"""
    @staticmethod
    def gen(rng, env, malformed=False):
        if malformed:
            return None
        a = pick_slot(rng, env, lambda s_: s_.ref.rank >= 3 and s_.ref.dense.size <= 64 and s_.ref.dense.size > 0)
        if a is None:
            return None
        A = env.slots[a].ref
        i, j, k = rng.sample(range(A.rank), 3)
        return {'op': 'nested_pipes', 'a': a, 'inner': [axarg(rng, A, i), axarg(rng, A, j)], 'other': axarg(rng, A, k), 'pipe_first': rng.random() < 0.5,
                'qconj': [rng.choice([None, 1, -1]), rng.choice([None, 1, -1])], 'label_inner': rng.random() < 0.6}

    @staticmethod
    def pipe_pos(rank, group):
        """default position of the pipe made of the legs `group` (one group): where its first leg stood among the legs that are not combined"""
        return sum(1 for n in range(rank) if n not in group and n < group[0])

    @staticmethod
    def steps(env, o, A):
        T1, _ = G._ref_combine(env, A, [o['inner']], None, None if o['qconj'][0] is None else [o['qconj'][0]])
        T1.kind = getattr(A, 'kind', 'f')
        inner = [ax_index(A, x) for x in o['inner']]
        p1 = OpNestedPipes.pipe_pos(A.rank, inner)
        kk = ax_index(A, o['other'])
        k1 = sum(1 for n in range(A.rank) if n not in inner and n < kk) + (1 if p1 <= sum(1 for n in range(A.rank) if n not in inner and n < kk) else 0)
        g2 = [p1, k1] if o['pipe_first'] else [k1, p1]
        return T1, g2

    @staticmethod
    def ref(env, o, aux):
        A = env.slots[o['a']].ref
        T1, g2 = OpNestedPipes.steps(env, o, A)
        if T1.legs[g2[0 if o['pipe_first'] else 1]].sub is None or T1.legs[g2[1 if o['pipe_first'] else 0]] is not A.legs[ax_index(A, o['other'])]:
            raise OracleFail('harness: position of the inner pipe computed wrongly')
        T2, _ = G._ref_combine(env, T1, [g2], None, None if o['qconj'][1] is None else [o['qconj'][1]])
        T3 = G._ref_split(env, T2, [OpNestedPipes.pipe_pos(T1.rank, g2)])
        return {'new': [T2, T3], 'qtotal_rule': 'same'}

    @staticmethod
    def run(env, o):
        x = env.slots[o['a']].impl
        A = env.slots[o['a']].ref
        _, g2 = OpNestedPipes.steps(env, o, A)
        api(env, 'Array.combine_legs', combine_legs='pipe-of-pipes')
        r1 = x.combine_legs([o['inner']], qconj=o['qconj'][0])
        r2 = r1.combine_legs([g2], qconj=o['qconj'][1])
        q = next(n for n, l in enumerate(r2.legs) if hasattr(l, 'legs') and any(hasattr(s_, 'legs') for s_ in l.legs))
        api(env, 'Array.split_legs', axes='outer-pipe-of-pipes')
        return {'new': [r2, r2.split_legs([q])]}


# =========================================================================================
# coverage tables
# =========================================================================================

def reflect_api():
    """public functions of tenpy.linalg.np_conserved and public methods / operators of Array with their optional parameters (by reflection of the
    tree under test)"""
    import tenpy.linalg.np_conserved as npc
    out = {}

    def params(f):
        try:
            sig = inspect.signature(f)
        except (TypeError, ValueError):
            return []
        return [p.name for p in sig.parameters.values() if p.name not in ('self', 'cls') and p.default is not inspect.Parameter.empty and p.kind in (p.POSITIONAL_OR_KEYWORD, p.KEYWORD_ONLY)]
    for n in npc.__all__:
        f = getattr(npc, n, None)
        if callable(f) and not inspect.isclass(f) and getattr(f, '__module__', None) == npc.__name__:
            out[n] = params(f)
    OPERATORS = ('__getitem__', '__setitem__', '__iter__', '__neg__', '__add__', '__iadd__', '__sub__', '__isub__', '__mul__', '__rmul__', '__imul__', '__truediv__', '__itruediv__',
                 '__eq__', '__getstate__', '__setstate__')
    for k, v in npc.Array.__dict__.items():
        if k.startswith('_') and k not in OPERATORS:
            continue
        f = v.__func__ if isinstance(v, (classmethod, staticmethod)) else (v.fget if isinstance(v, property) else v)
        if callable(f):
            out['Array.' + k] = params(f)
    return out


def measure_line_coverage(programs, config):
    """run the programs under a line tracer restricted to np_conserved.py; returns per function (qualified name) executable / missed lines with text"""
    import ast
    import sys
    import tenpy.linalg.np_conserved as npc
    fn = npc.__file__
    if not fn.endswith('.py'):
        return {'error': 'np_conserved is not a python source file: %s' % fn}
    src = open(fn).read()
    tree = ast.parse(src)
    lines = src.split('\n')
    code_file = fn
    hit = set()
    fails = 0

    def run_all():
        n = 0
        for p in programs:
            r = G.ProgramRunner(p, config).run()
            n += len([f for f in r['fails'] if f['prop'] in ('C01', 'runner')])
        return n
    try:
        import coverage     # C tracer (about 10x faster than sys.settrace)
        cov = coverage.Coverage(include=[code_file], data_file=None)
        cov.start()
        try:
            fails = run_all()
        finally:
            cov.stop()
        an = cov.analysis2(code_file)
        hit = set(an[1]) - set(an[3])
        tracer_name = 'coverage %s' % coverage.__version__
    except ImportError:
        def tracer(frame, event, arg):
            if frame.f_code.co_filename != code_file:
                return None
            hit.add(frame.f_lineno)

            def local(fr, ev, ar):
                if ev == 'line':
                    hit.add(fr.f_lineno)
                return local
            return local
        sys.settrace(tracer)
        try:
            fails = run_all()
        finally:
            sys.settrace(None)
        tracer_name = 'sys.settrace'
    out = {}

    def stmts(node):
        res = set()
        for ch in ast.walk(node):
            if isinstance(ch, ast.stmt) and not isinstance(ch, (ast.FunctionDef, ast.ClassDef)):
                if isinstance(ch, ast.Expr) and isinstance(ch.value, ast.Constant) and isinstance(ch.value.value, str):
                    continue
                res.add(ch.lineno)
        return res

    def visit(node, prefix):
        for ch in ast.iter_child_nodes(node):
            if isinstance(ch, ast.FunctionDef):
                ex = stmts(ch) - {ch.lineno}
                inner = set()
                for sub in ast.walk(ch):
                    if sub is not ch and isinstance(sub, ast.FunctionDef):
                        inner |= set(range(sub.lineno, sub.end_lineno + 1))
                ex -= inner
                miss = sorted(ex - hit)
                out[prefix + ch.name] = {'lines': len(ex), 'missed': [[m, lines[m - 1].strip()[:110]] for m in miss]}
            elif isinstance(ch, ast.ClassDef):
                visit(ch, prefix + ch.name + '.')
    visit(tree, '')
    return {'functions': out, 'fails': fails, 'programs': len(programs), 'tracer': tracer_name}
