"""C16 coverage audit: which public names / documented options / statements of tenpy/linalg/krylov_based.py and
tenpy/linalg/sparse.py does the check reach?

* enumerate_source(repo): every function / method of the two files (AST of the CURRENT source): parameters (with / without default),
  option reads `options.get('name', ...)`, statements, `raise` / `assert False` statements (error branches, outside the quantifier).
* COVERED / EXCLUDED: for every public name the streams of harness/c16.py that exercise it, or the reason why the property does not
  speak about it.  A public name that is neither, a covered name that no runner process executed, a statement of a covered function
  that no runner process executed and that is not listed in ACCEPTED_UNREACHED, an option / optional parameter that is not in
  OPTION_STREAMS or stayed at one value -> correspondence failure (a new method / option / branch cannot escape silently).
* table(...): function x statements reached (line events recorded by harness/impl/c16x_impl.py in every runner process).
* option_table(cases): option / optional parameter x values drawn (from the generated cases).
"""
import ast
import os
import re
from collections import Counter

FILES = {'krylov_based': os.path.join('tenpy', 'linalg', 'krylov_based.py'), 'sparse': os.path.join('tenpy', 'linalg', 'sparse.py')}

EXCLUDED = [
    (r'krylov_based:plot_stats$', 'plot helper: no Ritz data'),
    (r'krylov_based:KrylovBased\.(run|_build_krylov|_calc_result_krylov)$', 'abstract: raises NotImplementedError, implemented by the subclasses that are covered'),
    (r'sparse:NpcLinearOperator\.(matvec|to_matrix|adjoint)$', 'prototype class: every method raises NotImplementedError'),
    (r'sparse:NpcLinearOperatorWrapper\.(to_matrix|adjoint)$', 'abstract: raises NotImplementedError, implemented by the four wrappers that are covered'),
]

COVERED = {
    'krylov_based:KrylovBased.__init__': 'lanczos, lanczos-evo, arnoldi, arnoldi-evo (all options; E_shift with plain / Orthogonal-wrapped / tree operators)',
    'krylov_based:KrylovBased._calc_result_full': 'lanczos, lanczos-evo (event trace vs Model/Krylov.v; Ritz oracle)',
    'krylov_based:KrylovBased._to_cache': 'lanczos, lanczos-evo (FIFO trace)',
    'krylov_based:KrylovBased.iscale_prefactor': 'lanczos trace (instance hook), arnoldi',
    'krylov_based:KrylovBased.iadd_prefactor_other': 'lanczos trace (instance hook), arnoldi',
    'krylov_based:GMRES.__init__': 'gmres, gmresr', 'krylov_based:GMRES.run': 'gmres, gmresr', 'krylov_based:GMRES.arnoldi': 'gmres, gmresr',
    'krylov_based:GMRES.apply_givens_rotation': 'gmres, gmresr', 'krylov_based:GMRES.givens_rotation': 'gmres, gmresr',
    'krylov_based:GMRES.backsolve': 'gmres, gmresr', 'krylov_based:GMRES.reset': 'gmresr',
    'krylov_based:Arnoldi.__init__': 'arnoldi, arnoldi-evo', 'krylov_based:Arnoldi.run': 'arnoldi (N = 1 and N > 1; second run())',
    'krylov_based:Arnoldi._build_krylov': 'arnoldi, arnoldi-evo', 'krylov_based:Arnoldi._calc_result_krylov': 'arnoldi',
    'krylov_based:Arnoldi._calc_result_full': 'arnoldi (Ritz oracle)', 'krylov_based:Arnoldi._to_cache': 'arnoldi, arnoldi-evo',
    'krylov_based:Arnoldi._converged': 'arnoldi (P_tol, E_tol, min_gap, num_ev drawn)',
    'krylov_based:ArnoldiEvolution.__init__': 'arnoldi-evo', 'krylov_based:ArnoldiEvolution.run': 'arnoldi-evo (three run() calls per object)',
    'krylov_based:ArnoldiEvolution._calc_result_krylov': 'arnoldi-evo', 'krylov_based:ArnoldiEvolution._converged': 'arnoldi-evo',
    'krylov_based:ArnoldiEvolution._calc_result_full_evolution': 'arnoldi-evo',
    'krylov_based:LanczosGroundState.__init__': 'lanczos, lanczos-evo', 'krylov_based:LanczosGroundState.run': 'lanczos (twice on one operator, second run() of one object)',
    'krylov_based:LanczosGroundState._build_krylov': 'lanczos, lanczos-evo', 'krylov_based:LanczosGroundState._converged': 'lanczos (stop rule oracle)',
    'krylov_based:LanczosGroundState._rebuild_krylov_for_result_full': 'lanczos, lanczos-evo (N_cache < N)',
    'krylov_based:LanczosGroundState._calc_result_krylov': 'lanczos',
    'krylov_based:LanczosEvolution.__init__': 'lanczos-evo', 'krylov_based:LanczosEvolution.run': 'lanczos-evo (second run() with another delta)',
    'krylov_based:LanczosEvolution._calc_result_krylov': 'lanczos-evo', 'krylov_based:LanczosEvolution._converged': 'lanczos-evo (stop rule oracle)',
    'krylov_based:lanczos_arpack': 'arpack', 'krylov_based:gram_schmidt': 'gs; lanczos / wrapper (ortho_vecs)',
    'krylov_based:iscale_prefactor': 'every Krylov stream (arrays), wrapper (lists)',
    'krylov_based:iadd_prefactor_other': 'every Krylov stream (arrays), wrapper (lists)',
    'sparse:NpcLinearOperatorWrapper.__init__': 'wrapper', 'sparse:NpcLinearOperatorWrapper.__getattr__': 'wrapper (delegated attribute through all levels)',
    'sparse:NpcLinearOperatorWrapper.unwrapped': 'wrapper (depth 1-3)',
    'sparse:SumNpcLinearOperator.__init__': 'wrapper, lanczos, arnoldi', 'sparse:SumNpcLinearOperator.matvec': 'wrapper (array and list), lanczos, arnoldi',
    'sparse:SumNpcLinearOperator.to_matrix': 'wrapper', 'sparse:SumNpcLinearOperator.adjoint': 'wrapper',
    'sparse:ShiftNpcLinearOperator.__init__': 'wrapper (shift 0: warning), lanczos (E_shift 0.0)', 'sparse:ShiftNpcLinearOperator.matvec': 'wrapper, lanczos, arnoldi, gmres',
    'sparse:ShiftNpcLinearOperator.to_matrix': 'wrapper', 'sparse:ShiftNpcLinearOperator.adjoint': 'wrapper (complex shift)',
    'sparse:BoostNpcLinearOperator.__init__': 'wrapper (no boost vectors: warning)', 'sparse:BoostNpcLinearOperator.matvec': 'wrapper, lanczos/arnoldi (tree)',
    'sparse:BoostNpcLinearOperator.to_matrix': 'wrapper', 'sparse:BoostNpcLinearOperator.adjoint': 'wrapper (complex boosts)',
    'sparse:OrthogonalNpcLinearOperator.__init__': 'wrapper (no vectors: warning), lanczos', 'sparse:OrthogonalNpcLinearOperator.matvec': 'wrapper, lanczos (real and complex vectors)',
    'sparse:OrthogonalNpcLinearOperator.to_matrix': 'wrapper', 'sparse:OrthogonalNpcLinearOperator.adjoint': 'wrapper',
    'sparse:FlatLinearOperator.__init__': 'flat, flateig (direct construction from a wrapper matvec)', 'sparse:FlatLinearOperator.from_NpcArray': 'flat, flateig',
    'sparse:FlatLinearOperator.from_guess_with_pipe': 'flat (pipe), arpack', 'sparse:FlatLinearOperator.charge_sector': 'flat, flateig (getter; setter after use)',
    'sparse:FlatLinearOperator._matvec': 'flat, flateig (real / complex / N x 1 input)', 'sparse:FlatLinearOperator.flat_to_npc': 'flat, flateig',
    'sparse:FlatLinearOperator.npc_to_flat': 'flat (also an exactly zero vector), flateig', 'sparse:FlatLinearOperator.flat_to_npc_None_sector': 'flat (charge_sector None)',
    'sparse:FlatLinearOperator._npc_matvec_wrapper': 'flat (pipe: combined and multi-leg form), arpack',
    'sparse:FlatLinearOperator.eigenvectors': 'flateig, arpack', 'sparse:FlatHermitianOperator._adjoint': 'flateig (rmatvec)',
    'sparse:FlatHermitianOperator.eigenvectors': 'flateig, arpack',
}

# statements of covered functions that no stream is expected to reach:  (qualified name, first words of the statement) -> reason
LIST = ('psi0 given as a list of Arrays: a hook for subclasses only - npc.norm / npc.inner in the _build_krylov loops of the classes of this file '
        'do not accept lists (LanczosGroundState(H, [a, b], ..).run() raises AttributeError), so no option value of the property reaches it; the '
        'list branches of iadd_prefactor_other / iscale_prefactor / Sum / Shift matvec are exercised directly by the wrapper stream')
WARN = ('logging only (the statements after it run in any case); needs a result with weight on basis vectors that are rounding noise: reached '
        'by the forced cases (N_min beyond the dimension of the space, cutoff 1e-300) when the selected Ritz vector has such weight, not guaranteed')
ACCEPTED_UNREACHED = {
    ('krylov_based:Arnoldi._calc_result_full', "logger.warning('poorly conditioned"): WARN,
    ('krylov_based:ArnoldiEvolution._calc_result_full_evolution', "logger.warning('poorly conditioned"): WARN,
    ('krylov_based:KrylovBased._calc_result_full', "logger.warning('poorly conditioned"): WARN,
    ('krylov_based:KrylovBased._calc_result_full', 'assert isinstance(self.psi0, list)'): LIST,
    ('krylov_based:KrylovBased._calc_result_full', 'psif = [p * vf[0] for p in self.psi0]'): LIST,
    ('krylov_based:Arnoldi._calc_result_full', 'assert isinstance(self.psi0, list)'): LIST,
    ('krylov_based:Arnoldi._calc_result_full', 'psi = [p * vf[0] for p in krylov_basis[0]]'): LIST,
    ('krylov_based:ArnoldiEvolution._calc_result_full_evolution', 'assert isinstance(self.psi0, list)'): LIST,
    ('krylov_based:ArnoldiEvolution._calc_result_full_evolution', 'psif = [p * vf[0] for p in cache[0]]'): LIST,
}

# option (cfg:option read through options.get) / optional parameter -> where it is drawn
OPTION_STREAMS = {}
for _cls, _stream in (('LanczosGroundState', 'lanczos'), ('LanczosEvolution', 'lanczos-evo'), ('Arnoldi', 'arnoldi'), ('ArnoldiEvolution', 'arnoldi-evo')):
    for _o in ('N_min', 'N_max', 'P_tol', 'min_gap', 'reortho', 'E_shift', 'cutoff', 'E_tol'):
        OPTION_STREAMS['%s[%s]' % (_cls, _o)] = _stream
for _cls, _stream in (('LanczosGroundState', 'lanczos'), ('LanczosEvolution', 'lanczos-evo')):
    OPTION_STREAMS['%s[N_cache]' % _cls] = _stream
for _cls, _stream in (('Arnoldi', 'arnoldi'), ('ArnoldiEvolution', 'arnoldi-evo (documented as ignored: drawn, must have no effect)')):
    for _o in ('which', 'num_ev'):
        OPTION_STREAMS['%s[%s]' % (_cls, _o)] = _stream
for _o in ('N_min', 'N_max', 'restart', 'res'):
    OPTION_STREAMS['GMRES[%s]' % _o] = 'gmres, gmresr'
OPTION_STREAMS.update({
    'ArnoldiEvolution.run(normalize)': 'arnoldi-evo (omitted / None / True / False)',
    'LanczosEvolution.run(normalize)': 'lanczos-evo (omitted / None / True / False)',
    'gram_schmidt(rcond)': 'gs (omitted, 1e-10 .. 2.0)',
    'lanczos_arpack[P_tol]': 'arpack', 'lanczos_arpack[N_min]': 'arpack', 'lanczos_arpack(options)': 'arpack (omitted / given)',
    'FlatLinearOperator.__init__(charge_sector)': 'flateig (operator built from a wrapper matvec)',
    'FlatLinearOperator.__init__(vec_label)': 'flateig, flat (label / None)',
    'FlatLinearOperator.__init__(compact_flat)': 'flateig, flat',
    'FlatLinearOperator.eigenvectors(num_ev)': 'flateig', 'FlatLinearOperator.eigenvectors(max_num_ev)': 'flateig',
    'FlatLinearOperator.eigenvectors(max_tol)': 'flateig (forced retry cases with maxiter)', 'FlatLinearOperator.eigenvectors(which)': 'flateig',
    'FlatLinearOperator.eigenvectors(v0)': 'flateig', 'FlatLinearOperator.eigenvectors(v0_npc)': 'flateig (also from the result of the first call)',
    'FlatLinearOperator.eigenvectors(cutoff)': 'flateig', 'FlatLinearOperator.eigenvectors(hermitian)': 'flateig',
    'FlatLinearOperator.eigenvectors(**)': 'flateig (tol, maxiter), arpack (tol, ncv, v0)',
    'FlatHermitianOperator.eigenvectors(**)': 'flateig (all keywords of the base class), arpack',
    'FlatLinearOperator.flat_to_npc_None_sector(cutoff)': 'flat (charge_sector None)',
    'FlatLinearOperator.from_NpcArray(charge_sector)': 'flat, flateig (omitted / 0 / charges / None)',
    'FlatLinearOperator.from_NpcArray(compact_flat)': 'flat, flateig',
    'FlatLinearOperator.from_guess_with_pipe(labels_split)': 'flat (pipe)', 'FlatLinearOperator.from_guess_with_pipe(dtype)': 'flat (pipe), arpack',
    'FlatLinearOperator.from_guess_with_pipe(compact_flat)': 'flat (pipe: omitted / True / False)',
})
OPTION_EXCLUDED = {
}


def _header_lines(st):
    body = getattr(st, 'body', None)
    if isinstance(body, list) and body and isinstance(body[0], ast.AST):
        return range(st.lineno, max(st.lineno, body[0].lineno - 1) + 1)
    return range(st.lineno, (st.end_lineno or st.lineno) + 1)


def enumerate_source(repo):
    """{'module:qualname': info}, {class: [base names]}, {module: source lines}"""
    items, bases, lines_of = {}, {}, {}
    for mod, rel in FILES.items():
        src = open(os.path.join(repo, rel)).read()
        lines_of[mod] = src.split('\n')
        tree = ast.parse(src)

        def add(qual, fn, cls):
            a = fn.args
            pos = [x.arg for x in a.posonlyargs + a.args]
            ndef = len(a.defaults)
            optional = [p for p in pos[len(pos) - ndef:]] if ndef else []
            optional += [x.arg for x, d in zip(a.kwonlyargs, a.kw_defaults) if d is not None]
            params = [p for p in pos + [x.arg for x in a.kwonlyargs] if p not in ('self', 'cls')]
            if a.vararg:
                params.append('*' + a.vararg.arg)
            if a.kwarg:
                params.append('**' + a.kwarg.arg)
            stmts, errs, opts = [], [], []
            for node in ast.walk(fn):
                if isinstance(node, ast.Call) and isinstance(node.func, ast.Attribute) and node.func.attr == 'get' and node.args and \
                        isinstance(node.args[0], ast.Constant) and isinstance(node.args[0].value, str) and 'options' in ast.unparse(node.func.value):
                    opts.append(node.args[0].value)
                if not isinstance(node, ast.stmt) or node is fn:
                    continue
                if isinstance(node, ast.Expr) and isinstance(node.value, ast.Constant) and isinstance(node.value.value, str):
                    continue
                if isinstance(node, (ast.Try, ast.Global, ast.Pass, ast.FunctionDef, ast.Import, ast.ImportFrom)):
                    continue
                is_err = isinstance(node, ast.Raise) or (isinstance(node, ast.Assert) and isinstance(node.test, ast.Constant) and not node.test.value)
                (errs if is_err else stmts).append(node)
            kind = 'function'
            for dec in fn.decorator_list:
                txt = ast.unparse(dec)
                if txt.endswith('.setter'):
                    kind = 'setter'
                elif txt == 'property':
                    kind = 'property'
            key = '%s:%s' % (mod, qual)
            if key in items:
                items[key]['stmts'] += stmts
                items[key]['errs'] += errs
                items[key]['kind'] = 'property+setter'
                return
            items[key] = {'mod': mod, 'cls': cls, 'name': fn.name, 'params': params, 'optional': optional, 'options': opts,
                          'stmts': stmts, 'errs': errs, 'kind': kind}
        for node in tree.body:
            if isinstance(node, ast.FunctionDef):
                add(node.name, node, None)
            elif isinstance(node, ast.ClassDef):
                bases[node.name] = [ast.unparse(b).split('.')[-1] for b in node.bases]
                for sub in node.body:
                    if isinstance(sub, ast.FunctionDef):
                        add(node.name + '.' + sub.name, sub, node.name)
    return items, bases, lines_of


def classify(key, info):
    if key in COVERED:
        return 'covered', COVERED[key]
    for pat, why in EXCLUDED:
        if re.match(pat, key):
            return 'excluded', why
    return None, None


def table(repo, hit):
    """hit: {module: set of executed lines}.  Returns (table, problems)."""
    items, bases, lines_of = enumerate_source(repo)
    tab, problems = {}, []
    for key, info in sorted(items.items()):
        status, why = classify(key, info)
        h = hit.get(info['mod'], set())
        lines = lines_of[info['mod']]
        reached, missed, accepted = 0, [], []
        for st in info['stmts']:
            if any(l in h for l in _header_lines(st)):
                reached += 1
                continue
            text = lines[st.lineno - 1].strip()
            acc = [why2 for (k2, start), why2 in ACCEPTED_UNREACHED.items() if k2 == key and text.startswith(start)]
            (accepted if acc else missed).append('%d: %s' % (st.lineno, text[:100]) + (' -- ' + acc[0] if acc else ''))
        err_reached = sum(1 for st in info['errs'] if any(l in h for l in _header_lines(st)))
        entry = {'status': status or 'UNCLASSIFIED', 'streams_or_reason': why, 'params': info['params'], 'statements': len(info['stmts']),
                 'reached': reached, 'error_statements': len(info['errs']), 'error_statements_reached': err_reached}
        if accepted:
            entry['unreached_accepted'] = accepted
        if missed and status == 'covered':
            entry['unreached'] = missed
        tab[key] = entry
        if status is None:
            problems.append('%s(%s) of %s is neither exercised by a stream nor classified as outside the property (harness/c16_audit.py)'
                            % (key, ', '.join(info['params']), FILES[info['mod']]))
        elif status == 'covered' and info['stmts'] and reached == 0:
            problems.append('%s is classified as covered (%s) but no runner process executed any of its statements' % (key, why))
        elif status == 'covered' and missed:
            problems.append('%s: statement(s) never executed by any runner process: %s' % (key, '; '.join(missed[:4])))
    for key in COVERED:
        if key not in items:
            problems.append('%s is in the coverage table but not in the source any more' % key)
    return tab, problems


def summary(tab):
    s = {'functions': len(tab)}
    for st in ('covered', 'excluded', 'UNCLASSIFIED'):
        sel = [v for v in tab.values() if v['status'] == st]
        s[st] = {'functions': len(sel), 'statements': sum(v['statements'] for v in sel), 'reached': sum(v['reached'] for v in sel),
                 'error_statements': sum(v['error_statements'] for v in sel),
                 'error_statements_reached': sum(v['error_statements_reached'] for v in sel)}
    s['unreached_in_covered'] = {k: v['unreached'] for k, v in tab.items() if v.get('unreached')}
    s['unreached_accepted'] = {k: v['unreached_accepted'] for k, v in tab.items() if v.get('unreached_accepted')}
    return s


def documented_options(repo):
    """every option read / optional parameter of the two files, by class (inherited options listed for every concrete subclass)"""
    items, bases, _ = enumerate_source(repo)
    own = {}
    for key, info in items.items():
        if info['cls'] and info['options']:
            own.setdefault(info['cls'], [])
            own[info['cls']] += [o for o in info['options'] if o not in own[info['cls']]]

    def inherited(cls, seen=()):
        out = list(own.get(cls, []))
        for b in bases.get(cls, []):
            if b in bases and b not in seen:
                out += [o for o in inherited(b, seen + (cls,)) if o not in out]
        return out
    keys = []
    for cls in bases:
        if cls == 'KrylovBased':
            continue                # abstract base: its options are listed for every concrete subclass
        for o in inherited(cls):
            keys.append('%s[%s]' % (cls, o))
    for key, info in sorted(items.items()):
        if not info['cls'] and info['options']:
            keys += ['%s[%s]' % (info['name'], o) for o in info['options']]
        if classify(key, info)[0] == 'excluded' or info['name'].startswith('_') and info['name'] != '__init__':
            continue
        qual = key.split(':', 1)[1]
        for p in info['optional']:
            keys.append('%s(%s)' % (qual, p))
        if any(p.startswith('**') for p in info['params']):
            keys.append('%s(**)' % qual)
    return keys


def option_problems(repo, tally):
    """tally: {option key: Counter of value categories}"""
    problems, tab = [], {}
    for key in documented_options(repo):
        if key in OPTION_EXCLUDED:
            tab[key] = {'excluded': OPTION_EXCLUDED[key]}
            continue
        if key not in OPTION_STREAMS:
            problems.append('option / optional parameter %s is neither drawn by a generator nor classified (harness/c16_audit.py)' % key)
            tab[key] = {'UNCLASSIFIED': True}
            continue
        vals = tally.get(key, Counter())
        tab[key] = {'drawn_in': OPTION_STREAMS[key], 'values': dict(vals)}
        if len(vals) < 2:
            problems.append('option / optional parameter %s stayed at one value in this run: %s' % (key, dict(vals)))
    for key in OPTION_STREAMS:
        if key not in tab:
            problems.append('option %s is in the option table but not in the source any more' % key)
    return tab, problems
