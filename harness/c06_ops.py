"""C06: oracle for the stream "every public LegCharge method that returns a leg, applied to plain legs AND to pipes"
(implementation side: harness/impl/c06ops_impl.py).

Two layers, both written from the documentation of tenpy.linalg.charges:

* the documented effect of each method on the charge attached to every surviving index (RULES below) - for a pipe this
  includes what the method does to the stored incoming legs: only LegPipe.conj (and apply_charge_mapping) touch them;
* the PIPE CONTRACT for every result that is a LegPipe, whatever method produced it and whether or not the harness knows
  a rule for it: the charges of the outgoing leg are the fusion of the STORED incoming legs with the documented signs
      pipe.charges[Q] * pipe.qconj == sum_l legs[l].charges[q_l] * legs[l].qconj   (mod qmod),
  recomputed here from the raw attributes; map_incoming_flat is a bijection placed where q_map says; q_map /
  q_map_slices tile the outgoing blocks; and an Array carrying the pipe splits into the stored incoming legs with the
  entries of the dense reshape, passes the charge rule entry by entry and recombines to the same Array.
"""
import itertools


def norm_charge(mods, c):
    return [x if m == 1 else x % m for m, x in zip(mods, c)]


def qflat_of(mods, sizes, charges):
    return [norm_charge(mods, c) for s, c in zip(sizes, charges) for _ in range(s)]


def neg(mods, c):
    return norm_charge(mods, [-x for x in c])


def resolve_pipe(base_pipe, pd):
    """undo the compaction of c06ops_impl.describe"""
    r = {k: base_pipe[k] for k in pd['same']} if base_pipe is not None else {}
    r.update(pd['diff'])
    return r


# ------------------------------------------------------------------------------------------------
# documented rules.  base = {'mods', 'sizes', 'charges' (reduced), 'qconj', 'is_pipe', 'legs' (pipes only)}
# every rule returns a dict with some of:
#   qflat    expected reduced charge on every index of the result
#   qconj    expected direction of the result
#   pipe     True / False: the result has to be / must not be a LegPipe
#   legs     (pipes) expected stored incoming legs [sizes, charges, qconj]
#   layout   (pipes) slices, q_map, q_map_slices and map_incoming_flat are the ones of the pipe the method was applied to
#   flags    names of flags that have to be TRUE on the result ('is_sorted', 'is_bunched')
# ------------------------------------------------------------------------------------------------

def _perm_flat(sizes, perm):
    offs = [sum(sizes[:i]) for i in range(len(sizes) + 1)]
    return [i for q in perm for i in range(offs[q], offs[q + 1])]


def rule_copy(b, rec, aux):
    return {'qflat': b['qflat'], 'qconj': b['qconj'], 'pipe': b['is_pipe'], 'legs': b.get('legs'), 'layout': True,
            'blocks': [list(x) for x in zip(b['sizes'], b['charges'])]}


def rule_conj(b, rec, aux):
    # "shallow copy with opposite qconj ... the incoming legs of the pipe are also conjugated"
    return {'qflat': b['qflat'], 'qconj': -b['qconj'], 'pipe': b['is_pipe'], 'layout': True,
            'blocks': [list(x) for x in zip(b['sizes'], b['charges'])],
            'legs': [[l[0], l[1], -l[2]] for l in b['legs']] if b['is_pipe'] else None}


def rule_flip(b, rec, aux):
    # "copy of self with negative qconj and charges, thus representing the very same charges": the incoming legs of a
    # pipe (what the pipe splits into) are not mentioned and therefore unchanged
    return {'qflat': [neg(b['mods'], c) for c in b['qflat']], 'qconj': -b['qconj'], 'pipe': b['is_pipe'], 'layout': True,
            'blocks': [[s, neg(b['mods'], c)] for s, c in zip(b['sizes'], b['charges'])], 'legs': b.get('legs')}


def rule_to_legcharge(b, rec, aux):
    return {'qflat': b['qflat'], 'qconj': b['qconj'], 'pipe': False,
            'blocks': [list(x) for x in zip(b['sizes'], b['charges'])]}


def rule_bunch(b, rec, aux):
    return {'qflat': b['qflat'], 'qconj': b['qconj'], 'flags': ['is_bunched']}


def rule_sort(b, rec, aux):
    perm = rec['aux'][0]
    if sorted(perm) != list(range(len(b['sizes']))):
        return {'problem': 'perm_qind %s is not a permutation of the blocks' % perm}
    pf = _perm_flat(b['sizes'], perm)
    fl = ['is_sorted'] if b['mods'] else []
    if rec['variant'] == 'bunch=True':
        fl.append('is_bunched')
    return {'qflat': [b['qflat'][i] for i in pf], 'qconj': b['qconj'], 'flags': fl}


def rule_project(b, rec, aux):
    mask = aux['mask']
    return {'qflat': [q for q, m in zip(b['qflat'], mask) if m], 'qconj': b['qconj']}


def rule_extend(b, rec, aux):
    if rec['variant'] == 'int':
        extra = [[0] * len(b['mods'])] * aux['extend_int']
    else:
        sizes, charges, qc = aux['extend_leg']
        sgn = qc * b['qconj']      # the same physical charge seen from the direction of `self`
        extra = [norm_charge(b['mods'], [sgn * x for x in c]) for s, c in zip(sizes, charges) for _ in range(s)]
    return {'qflat': b['qflat'] + extra, 'qconj': b['qconj']}


def rule_charge_mapping(b, rec, aux):
    f = (lambda c: c) if rec['variant'] == 'identity' else (lambda c: neg(b['mods'], c))
    return {'qflat': [f(c) for c in b['qflat']], 'qconj': b['qconj'], 'pipe': b['is_pipe'], 'layout': True,
            'blocks': [[s, f(c)] for s, c in zip(b['sizes'], b['charges'])],
            'legs': [[l[0], [f(norm_charge(b['mods'], c)) for c in l[1]], l[2]] for l in b['legs']] if b['is_pipe'] else None}


RULES = {'copy': rule_copy, 'conj': rule_conj, 'flip_charges_qconj': rule_flip, 'outer_conj': rule_flip,
         'to_LegCharge': rule_to_legcharge, 'bunch': rule_bunch, 'sort': rule_sort, 'project': rule_project,
         'extend': rule_extend, 'apply_charge_mapping': rule_charge_mapping}
# the methods the stream must have seen on a pipe / on a plain leg (fail closed when reflection stops finding them)
EXPECT_PIPE = {'copy', 'conj', 'flip_charges_qconj', 'outer_conj', 'to_LegCharge', 'bunch', 'sort', 'project', 'extend',
               'apply_charge_mapping'}
EXPECT_LEG = EXPECT_PIPE - {'outer_conj', 'to_LegCharge'}
NOT_LEG = {'get_slice', 'get_charge', 'get_qindex', 'get_qindex_of_charges', 'test_contractible', 'test_equal',
           'perm_flat_from_perm_qind', 'perm_qind_from_perm_flat', 'map_incoming_flat', 'save_hdf5', 'test_sanity',
           'to_qflat', 'to_qdict', 'is_blocked', 'is_sorted', 'is_bunched', 'get_block_sizes', 'charge_sectors'}


def same_legs(mods, a, b):
    return (a is not None and b is not None and len(a) == len(b)
            and all(x[0] == y[0] and x[2] == y[2] and len(x[1]) == len(y[1])
                    and all(norm_charge(mods, c) == norm_charge(mods, d) for c, d in zip(x[1], y[1])) for x, y in zip(a, b)))


def array_problems(arr, stored_legs, mods):
    """facts about an Array carrying the pipe (computed next to the dense data in c06ops_impl.pipe_array_check)"""
    probs = []
    if 'error' in arr:
        return ['an Array carrying the pipe cannot be built / split: ' + arr['error']]
    if arr['split_sane'] is not None:
        probs.append('split_legs of an Array carrying the pipe fails test_sanity: ' + arr['split_sane'])
    if not arr['split_charge_rule_ok']:
        probs.append('split_legs of an Array carrying the pipe: a non-zero entry violates the charge rule of the split legs')
    if not arr['split_dense_ok']:
        probs.append('split_legs of an Array carrying the pipe: entries are not the dense reshape along map_incoming_flat')
    if not same_legs(mods, arr['split_legs'], stored_legs) or not arr['split_last_ok']:
        probs.append('split_legs of an Array carrying the pipe returns legs %s, the pipe stores %s' % (arr['split_legs'], stored_legs))
    if not arr['recombine_ok']:
        probs.append('combine_legs(pipes=[pipe]) of the split Array does not restore it: %s' % arr.get('recombine_error'))
    return probs


def ops_oracle(mods, base, aux, ops, base_pipe, core_oracle):
    """-> (problems [(match_key, text)], seen {method: [n results, n pipe results, n array checks]}, coq_ops)

    base: see RULES; aux: the arguments the implementation runner used (mask, extend_int, extend_leg spec);
    base_pipe: the full description of the pipe the methods were applied to (None for a plain leg);
    core_oracle(case, r): the layout/fusion oracle of harness/c06.py for a pipe described by r."""
    probs = []
    seen = {}
    coq_ops = []
    what = 'LegPipe' if base['is_pipe'] else 'LegCharge'
    for rec in ops:
        name = rec['method']
        tag = '%s.%s(%s)' % (what, name, rec['variant'])
        st = seen.setdefault(name, [0, 0, 0])
        if 'error' in rec:
            probs.append((None, '%s raised on a valid leg: %s' % (tag, rec['error'])))
            continue
        rule = RULES.get(name)
        exp = rule(base, rec, aux) if rule is not None else {}
        if 'problem' in exp:
            probs.append((None, '%s: %s' % (tag, exp['problem'])))
            continue
        for X in rec['legs']:
            st[0] += 1
            if X['sane'] is not None:
                probs.append((None, '%s: result fails test_sanity: %s' % (tag, X['sane'])))
            got_qflat = qflat_of(mods, [b[0] for b in X['blocks']], [b[1] for b in X['blocks']])
            if any(b[1] != norm_charge(mods, b[1]) for b in X['blocks']):
                probs.append((None, '%s: charges of the result are not reduced: %s' % (tag, X['blocks'])))
            if 'qflat' in exp and (got_qflat != exp['qflat'] or X['qconj'] != exp['qconj']):
                probs.append((None, '%s: charge attached to the surviving indices: qconj %d, qflat %s; documented qconj %d, qflat %s'
                              % (tag, X['qconj'], got_qflat, exp['qconj'], exp['qflat'])))
            if exp.get('blocks') is not None and X['blocks'] != exp['blocks']:
                probs.append((None, '%s: blocks %s, documented %s' % (tag, X['blocks'], exp['blocks'])))
            for f in exp.get('flags', []):
                if not X[f]:
                    probs.append((None, '%s: result is not %s' % (tag, f[3:])))
            if exp.get('pipe') is not None and X['is_pipe'] != exp['pipe']:
                probs.append((None, '%s: result is a %s' % (tag, X['type'])))
            if not X['is_pipe']:
                continue
            # ---------------- the pipe contract for the result, whatever produced it
            st[1] += 1
            if 'pipe_error' in X:
                probs.append((None, '%s: the resulting LegPipe cannot be inspected: %s' % (tag, X['pipe_error'])))
                continue
            r = resolve_pipe(base_pipe, X['pipe'])
            if not r['attrs_ok'] or r['legs_plain'] != base.get('legs_plain', True):
                probs.append((None, '%s: nlegs/subshape/subqshape/chinfo of the resulting pipe do not describe its stored legs' % tag))
            case2 = {'mods': mods, 'legs': r['legs'], 'qconj': r['qconj'], 'sort': False, 'bunch': False}
            for key, text in core_oracle(case2, r):
                probs.append((key, '%s: the resulting pipe (incoming legs %s, qconj %+d) breaks the pipe contract: %s'
                              % (tag, r['legs'], r['qconj'], text)))
            if exp.get('legs') is not None and not same_legs(mods, r['legs'], exp['legs']):
                probs.append((None, '%s: stored incoming legs of the result %s, documented %s' % (tag, r['legs'], exp['legs'])))
            if exp.get('layout') and base_pipe is not None:
                for k in ('slices', 'q_map', 'q_map_slices', 'mif'):
                    if r[k] != base_pipe[k]:
                        probs.append((None, '%s: %s of the result differs from the pipe: %s / %s' % (tag, k, r[k], base_pipe[k])))
            if 'array' in r:
                st[2] += 1
                probs += [(None, '%s: %s' % (tag, t)) for t in array_problems(r['array'], r['legs'], mods)]
            code = {'copy': 0, 'conj': 1, 'flip_charges_qconj': 2, 'outer_conj': 3}.get(name)
            if code is not None and None not in r['mif']:
                coq_ops.append((code, r))
    return probs, seen, coq_ops


def table_problems(table, expect):
    """consistency of the reflection table of one class with what this oracle assumes"""
    probs = []
    for n in sorted(expect):
        e = table.get(n)
        if e is None or e.get('kind') != 'method' or not e.get('returns_leg'):
            probs.append('public method %s is expected to exist and return a leg, reflection says %s' % (n, e))
    for n, e in sorted(table.items()):
        if n in NOT_LEG and e.get('returns_leg'):
            probs.append('public method %s returns a leg but is not applied by the stream' % n)
    return probs


def table_notes(table, cls):
    out = []
    for n, e in sorted(table.items()):
        if e.get('kind') == 'method' and isinstance(e.get('applied'), str) and 'NOT APPLIED' in e['applied']:
            out.append('%s.%s has a signature unknown to harness/impl/c06ops_impl.py and is not covered: %s' % (cls, n, e['applied']))
        if e.get('kind') == 'method' and e.get('returns_leg') and n not in RULES:
            out.append('%s.%s returns a leg; no documented rule in harness/c06_ops.py, only the generic pipe contract is checked' % (cls, n))
    return out
