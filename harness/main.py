"""./check Cxx --tier quick|thorough [--replay f]"""
import argparse
import importlib
import os
import sys
import traceback

sys.path.insert(0, os.path.dirname(os.path.abspath(__file__)))
import common  # noqa: E402


def _native_replay(prop):
    """Does harness/cxx.py evaluate the single case stored in a replay file (it then reads ctx.replay)?"""
    src = open(os.path.join(os.path.dirname(os.path.abspath(__file__)), prop.lower() + '.py')).read()
    return 'replay_in' in src


def main():
    ap = argparse.ArgumentParser()
    ap.add_argument('prop')
    ap.add_argument('--tier', default=os.environ.get('VERIF_TIER', 'quick'), choices=['quick', 'thorough'])
    ap.add_argument('--replay', default=None)
    ap.add_argument('--seed', type=int, default=int(os.environ.get('VERIF_SEED', '0')))
    a = ap.parse_args()
    mod = importlib.import_module(a.prop.lower())
    replay = a.replay
    if replay and not _native_replay(a.prop):
        # checks without a case-level replay re-run the recorded (tier, seed): every random choice derives from the
        # seed, so the recorded failing input is regenerated and evaluated again among the others
        import json
        doc = json.load(open(replay))
        a.tier, a.seed = doc.get('tier', a.tier), int(doc.get('seed', a.seed))
        print('replay by regeneration: tier=%s seed=%d (recorded: %s)' % (a.tier, a.seed, str(doc.get('what', ''))[:200]))
        replay = None
    ctx = common.Ctx(a.prop, a.tier, a.seed, replay)
    try:
        rc = mod.main(ctx)
    except Exception:
        # a crash of the machinery itself is reported as such (exit 2), never as a violation
        traceback.print_exc()
        print('ERROR %s: check machinery crashed' % a.prop)
        sys.exit(2)
    sys.exit(rc)


if __name__ == '__main__':
    main()
