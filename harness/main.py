"""./check Cxx --tier quick|thorough [--replay f]"""
import argparse
import importlib
import os
import sys
import traceback

sys.path.insert(0, os.path.dirname(os.path.abspath(__file__)))
import common  # noqa: E402


def main():
    ap = argparse.ArgumentParser()
    ap.add_argument('prop')
    ap.add_argument('--tier', default=os.environ.get('VERIF_TIER', 'quick'), choices=['quick', 'thorough'])
    ap.add_argument('--replay', default=None)
    ap.add_argument('--seed', type=int, default=int(os.environ.get('VERIF_SEED', '0')))
    a = ap.parse_args()
    mod = importlib.import_module(a.prop.lower())
    ctx = common.Ctx(a.prop, a.tier, a.seed, a.replay)
    try:
        rc = mod.main(ctx)
    except Exception:
        # a crash of the machinery itself is reported as such (exit 2), never as a violation
        traceback.print_exc()
        print('ERROR %s: check machinery crashed' % a.prop)
        sys.exit(2)
    sys.exit(rc)


if __name__ == '__main__':
    main()
