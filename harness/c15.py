"""C15 - truncation honours its constraints and reports its error exactly.

proof gate (coq/Props/C15.v)  +  correspondence truncate <-> Model/Truncate.v (vm_compute)  +
oracle (brute-force reading of the documented priority; dense reconstruction of svd_theta/eigh_rho).
"""
import math

import common
import c15_audit
import c15_cov
import c15_streams
from common import coq_lit, Nat, opt, CoqRaw

K = 12                      # spectrum values are s / 2^K with integer 0 <= s < 2^K
SCALE = 1 << K
RATIOS = [(15000001, 10000000), (10000001, 10000000), (30000001, 10000000)]


def gen_case(rng, wide=False, big=False):
    """One truncate case: integer spectrum + options, both as impl floats and model integers.
    big: more than 100 values, so that the DEFAULT chi_max = 100 decides when the option is absent."""
    n = rng.choice([1, 1, 2, 3, 4, 5, 6, 8, 12, 20]) if not wide else rng.randint(1, 40)
    if big:
        n = rng.randint(101, 140)
    style = rng.random()
    if style < 0.25:      # many exact ties and zeros
        pool = [0, 0, rng.randint(1, 30), rng.randint(1, 30), rng.randint(100, 4000)]
        s = [rng.choice(pool) for _ in range(n)]
    elif style < 0.5:     # geometric-like decay, sorted descending as an SVD returns it
        s = sorted([min(SCALE - 1, int(3000 * (rng.uniform(0.3, 0.9) ** i))) for i in range(n)], reverse=True)
    else:
        s = [rng.randint(0, SCALE - 1) for _ in range(n)]
    if rng.random() < 0.5:
        rng.shuffle(s)
    o_impl, o_model = {}, {}

    def choose(name, gen_none=0.3, gen_absent=0.15):
        r = rng.random()
        if r < gen_absent:
            return 'absent'
        if r < gen_absent + gen_none:
            return None
        return 'value'
    # chi_max
    c = choose('chi_max')
    if big:
        c = rng.choice(['absent', 'absent', 'absent', 'value', None])
    if c == 'value':
        v = rng.choice([0, 1, 1, 2, 3, n - 1, n, n + 1, n + 5, rng.randint(1, max(1, n))] + ([99, 100, 101] if big else []))
        v = max(0, v)
        o_impl['chi_max'] = v
        m_chi_max = v
    elif c is None:
        o_impl['chi_max'] = None
        m_chi_max = None
    else:
        o_impl['chi_max'] = 'absent'
        m_chi_max = 100
    c = choose('chi_min')
    if c == 'value':
        v = max(0, rng.choice([0, 1, 2, 3, n - 1, n, n + 1, n + 3]))
        o_impl['chi_min'] = v
        m_chi_min = v
    else:
        o_impl['chi_min'] = c
        m_chi_min = None
    c = choose('degeneracy_tol')
    if c == 'value':
        if rng.random() < 0.15:
            o_impl['degeneracy_tol'] = 0.0
            m_deg = None
        else:
            p, q = rng.choice(RATIOS)
            o_impl['degeneracy_tol'] = math.log(p / q)
            m_deg = (p, q)
    else:
        o_impl['degeneracy_tol'] = c
        m_deg = None
    c = choose('svd_min')
    if c == 'value':
        m = rng.choice([0, 1, 5, 50, 500, rng.choice(s), rng.choice(s)])
        if rng.random() < 0.5 or m == 0:
            # strictly between integers: S >= (m + 0.5)/2^K  <=>  s >= m + 1
            o_impl['svd_min'] = (m + 0.5) / SCALE
            m_svd = m + 1
        else:
            o_impl['svd_min'] = m / SCALE      # exactly representable, equality decided exactly
            m_svd = m
    elif c is None:
        o_impl['svd_min'] = None
        m_svd = None
    else:
        o_impl['svd_min'] = 'absent'       # default 1e-14: below 1/2^K, above 1e-100
        m_svd = 1
    c = choose('trunc_cut')
    tot = sum(x * x for x in s)
    if c == 'value':
        if rng.random() < 0.5:
            t = rng.choice([0, 1, tot // 100, tot // 10, tot // 2, tot, tot + 5, rng.randint(0, max(1, tot))])
            tc = math.sqrt(t + 0.5) / SCALE
            m_tc = t
        else:
            r = rng.choice([0, 1, 3, 10, 100, 1000, 4000, rng.choice(s)])
            tc = r / SCALE
            m_tc = r * r
        if tc >= 1.0:
            tc = 0.5
            m_tc = (SCALE // 2) ** 2
        o_impl['trunc_cut'] = tc
    elif c is None:
        o_impl['trunc_cut'] = None
        m_tc = None
    else:
        o_impl['trunc_cut'] = 'absent'     # 1e-14 ** 2 * 4^K < 1 : nothing positive is discarded
        m_tc = 0
    model = {'chi_max': m_chi_max, 'chi_min': m_chi_min, 'deg': m_deg, 'svd_min': m_svd, 'tc2': m_tc}
    return {'s': s, 'S': [x / SCALE for x in s], 'opts': o_impl, 'model': model}


def oracle_cut(s, mo):
    """Documented priority applied literally by brute force over all cuts of the sorted spectrum.
    A cut c keeps the n-c largest values.  Returns the cut."""
    n = len(s)
    ss = sorted(s)
    A = list(range(n))

    def restrict(A, pred):
        B = [c for c in A if pred(c)]
        return B if B else A
    if mo['chi_max'] is not None:
        A = restrict(A, lambda c: (n - c <= mo['chi_max']) if mo['chi_max'] > 0 else True)
    if mo['chi_min'] is not None and mo['chi_min'] > 1:
        A = restrict(A, lambda c: n - c >= mo['chi_min'])
    if mo['deg'] is not None:
        p, q = mo['deg']

        def nondeg(c):
            if c == 0:
                return True
            lo, hi = ss[c - 1], ss[c]
            if lo == 0:
                return hi != 0
            return hi * q >= p * lo
        A = restrict(A, nondeg)
    if mo['svd_min'] is not None:
        A = restrict(A, lambda c: ss[c] >= mo['svd_min'])
    if mo['tc2'] is not None:
        A = restrict(A, lambda c: sum(x * x for x in ss[:c + 1]) > mo['tc2'])
    return min(A), ss


def coq_case(case, obs):
    mo = case['model']
    o = CoqRaw('(mkOpts %s %s %s %s %s)' % (
        coq_lit(opt(mo['chi_max'])), coq_lit(opt(mo['chi_min'])),
        coq_lit(opt(tuple(mo['deg']) if mo['deg'] else None)), coq_lit(opt(mo['svd_min'])),
        coq_lit(opt(mo['tc2']))))
    k, kept, n2, e = obs
    return coq_lit((case['s'], o, (Nat(k), kept, n2, e)))


def full_svd_len(spec):
    """number of singular values of the block-sparse matrix described by `spec` before truncation: sum over the charge
    sectors of min(rows, columns) (pure function of the generated input)"""
    mod = spec['mod']
    val = (lambda q: 0) if mod is None else ((lambda q: q) if mod == 1 else (lambda q: q % mod))
    rows, cols = {}, {}
    for (sizes, ch, _), d in zip(spec['legs'], (rows, cols)):
        for sz, q in zip(sizes, ch):
            d[val(q)] = d.get(val(q), 0) + sz
    # legs have qconj (+1, -1): block (i, j) is allowed when q_i - q_j = qtotal
    return sum(min(r, cols.get(val(q - spec['qtotal']), 0)) for q, r in rows.items())


def gen_tiny_rank_case(rng, seed, i):
    """svd_theta on a LARGE matrix of tiny numerical rank (rank r per charge sector + noise): the bond dimension shrinks by
    more than a factor 100 (svd_theta's diagnostic 'catastrophic reduction' path) unless exactly chi_max values are kept"""
    mod = [None, 2, 1][i % 3]
    cplx = (i // 3) % 2 == 0
    if mod is None:
        rank = rng.choice([1, 1, 2, 3])
        lo = 100 * rank + 1
        legs = [[[rng.randint(lo, lo + 70)], [0], 1], [[rng.randint(lo, lo + 70)], [0], -1]]
        qt = 0
    else:
        rank = 1
        nb = 2 if mod == 2 else rng.choice([2, 2, 3])
        ch = [0, 1] if mod == 2 else sorted(rng.sample(range(-2, 4), nb))
        qt = rng.choice([0, 1]) if mod == 2 else rng.choice([0, 0, rng.choice(ch) - rng.choice(ch)])
        ch2 = list(ch)
        if rng.random() < 0.5:
            rng.shuffle(ch2)                      # unsorted column leg
        legs = [[[rng.randint(101, 150) for _ in ch], ch, 1], [[rng.randint(101, 150) for _ in ch2], ch2, -1]]
    noise = rng.choice([0., 1e-9, 1e-9, 1e-12])
    cut = rng.choice([(1e-6, None), (None, 1e-6), (1e-5, 1e-7), (1e-6, 'absent')] + ([('absent', 'absent')] if noise == 0. else []))
    spec = {'mod': mod, 'legs': legs, 'qtotal': qt, 'complex': cplx, 'tiny_rank': {'rank': rank, 'noise': noise}}
    if rng.random() < 0.5:
        spec['labels'] = rng.choice([['vL', 'vR'], ['(vL.p0)', '(p1.vR)'], ['x', 'y']])
    nsv = full_svd_len(spec)
    opts = {'chi_max': rng.choice([None, None, 100, 100, 1000, max(1, nsv // 101), 1, 2, 'absent', 'absent']), 'svd_min': cut[0], 'trunc_cut': cut[1],
            'chi_min': rng.choice(['absent', 'absent', None, 2]), 'degeneracy_tol': rng.choice(['absent', None, 1e-6])}
    # stratified (not left to chance): every outcome of the chi_max tests inside the catastrophic-reduction branches of
    # svd_theta AND eigh_rho (eigh: i % 4 in (2, 3)) - chi_max None / absent (default) / equal to the number of kept values
    if i % 4 == 2:
        opts['chi_max'] = None if i % 8 == 2 else 'absent'
        if opts['svd_min'] in (None, 'absent') and opts['trunc_cut'] in (None, 'absent'):
            opts['svd_min'] = 1e-6
    elif i % 4 == 3:
        opts['chi_max'] = 1
    return {'seed': seed, 'opts': opts, 'eigh': (i // 2) % 2 == 1, 'spec': spec, 'tiny_rank': True, 'config': rng.random() < 0.3,
            'inner_labels': rng.choice([None, None, ['vR', 'vL'], ['r', 'l'], ['vR*', 'vL*']])}


def run_kind(ctx, stream, kind, chunks):
    """one implementation process per chunk; the coverage report of each process goes to ctx.c15cov"""
    res = common.run_impl_parallel('c15_impl.py', [{'kind': kind, 'cases': ch, 'cov': True} for ch in chunks])
    return [ctx.c15cov.unwrap(stream, r) for r in res]


def run_kinds(ctx, plans):
    """several streams in one parallel round: plans = [(stream, kind, chunks)]; returns one result list per plan"""
    payloads = [{'kind': kind, 'cases': ch, 'cov': True} for _, kind, chunks in plans for ch in chunks]
    res = common.run_impl_parallel('c15_impl.py', payloads)
    out, k = [], 0
    for stream, kind, chunks in plans:
        out.append([ctx.c15cov.unwrap(stream, r) for r in res[k:k + len(chunks)]])
        k += len(chunks)
    return out


def main(ctx):
    rng = ctx.rng
    ctx.c15cov = c15_cov.Merger()
    ctx.c15params = params = c15_cov.Params()
    ctx.proof = common.check_proofs('C15', extra_targets=['Model/TruncBookCheck.vo'])
    ncases = ctx.pick(3000, 40000)
    if not ctx.proof.ok:
        ncases *= 3          # intensified search when an obligation is broken
    cases = [c['case'] for c in common.corpus_cases('C15') if c.get('stream') == 'truncate']
    cases += [gen_case(rng) for _ in range(ncases)]
    cases += [gen_case(rng, wide=True) for _ in range(ncases // 10)]
    cases += [gen_case(rng, big=True) for _ in range(ncases // 100)]
    # ---- implementation
    chunks = [cases[i::common.NPROC] for i in range(common.NPROC)]
    res = run_kind(ctx, 'truncate', 'truncate', chunks)
    results = [None] * len(cases)
    for i, (r, err) in enumerate(res):
        if err:
            ctx.fail('correspondence', 'implementation runner failed: ' + err[-500:], None)
            return ctx.finish(RULE)
        for j, x in enumerate(r):
            results[i + j * common.NPROC] = x
    coq_cases = []
    coq_idx = []
    hist = {'len1': 0, 'ties': 0, 'zeros': 0, 'unsat_some': 0, 'kept_all': 0}
    for idx, (case, r) in enumerate(zip(cases, results)):
        s = case['s']
        n = len(s)
        nontriv = n > 1
        if 'runner_error' in r:
            ctx.fail('correspondence', 'truncate runner failed: ' + r['runner_error'][-400:], {'stream': 'truncate', 'case': case})
            continue
        if 'error' in r:
            ctx.fail('oracle', 'truncate raised %s on a valid spectrum/options' % r['error'],
                     {'stream': 'truncate', 'case': case}, match_key='C15:truncate-raises')
            continue
        mask = r['mask']
        kept = sorted(x for x, m in zip(s, mask) if m)
        disc = [x for x, m in zip(s, mask) if not m]
        k = len(kept)
        eps_i = r['eps'] * SCALE * SCALE
        n2_i = r['norm_new'] ** 2 * SCALE * SCALE
        # ---- oracle (independent of the Coq model): documented priority by brute force
        cut, ss = oracle_cut(s, case['model'])
        for oname, mname in (('chi_max', 'chi_max'), ('chi_min', 'chi_min'), ('degeneracy_tol', 'deg'), ('svd_min', 'svd_min'),
                             ('trunc_cut', 'tc2')):
            v = case['opts'].get(oname, 'absent')
            cat = 'absent' if v == 'absent' else 'None' if v is None else 'value'
            if case['model'][mname] is not None and oracle_cut(s, dict(case['model'], **{mname: None}))[0] != cut:
                cat += ':binding'
            params.note('truncate', 'options.' + oname, cat)
        params.note('truncate', 'S', 'plain')
        params.note('truncate', 'options', 'plain')
        problems = []
        if disc and kept and max(disc) > min(kept):
            problems.append('discarded %d > kept %d' % (max(disc), min(kept)))
        if k != n - cut or kept != ss[cut:]:
            problems.append('kept %s, documented priority gives %s' % (kept, ss[cut:]))
        e_true = sum(x * x for x in disc)
        n_true = sum(x * x for x in kept)
        if abs(eps_i - e_true) > 1e-9 * max(1, e_true):
            problems.append('err.eps*4^K = %r, discarded weight %d' % (eps_i, e_true))
        if abs(n2_i - n_true) > 1e-9 * max(1, n_true):
            problems.append('norm_new^2*4^K = %r, kept weight %d' % (n2_i, n_true))
        if abs(r['ov'] - (1. - 2. * r['eps'])) > 1e-12:
            problems.append('ov != 1 - 2 eps')
        if problems:
            ctx.fail('oracle', 'truncate: ' + '; '.join(problems), {'stream': 'truncate', 'case': case, 'impl': r},
                     match_key='C15:truncate')
        if len(set(s)) < n:
            hist['ties'] += 1
        if 0 in s:
            hist['zeros'] += 1
        if n == 1:
            hist['len1'] += 1
        if k == n:
            hist['kept_all'] += 1
        ctx.count('truncate', [s, case['model']], nontrivial=nontriv and k < n or n > 1 and len(set(s)) > 1,
                  sample={'s': s, 'opts': case['opts'], 'kept': kept, 'eps_scaled': eps_i})
        coq_cases.append(coq_case(case, (k, kept, int(round(n2_i)), int(round(eps_i)))))
        coq_idx.append(idx)
    # ---- model <-> implementation inside Coq
    bad, err = common.coq_failing_indices('cases_c15', ['Base.Prelude', 'Model.Truncate'], 'check_case', coq_cases)
    if err:
        ctx.fail('correspondence', 'model evaluation failed: ' + err[-600:], None)
    for b in bad[:5]:
        case = cases[coq_idx[b]]
        ctx.fail('correspondence', 'Model/Truncate.v and truncation.truncate disagree',
                 {'stream': 'truncate', 'case': case, 'impl': results[coq_idx[b]]})
    ctx.cov['traces_validated_against_impl'] = len(coq_cases)
    ctx.cov['input_distribution'] = hist
    # ---- error class stream: trunc_cut >= 1 must raise ValueError
    bad_cases = []
    for _ in range(20):
        c = gen_case(rng)
        c['opts']['trunc_cut'] = rng.choice([1.0, 1.5, 7.0])
        bad_cases.append(c)
    (r, err), = run_kind(ctx, 'truncate-malformed', 'truncate', [bad_cases])
    if err:
        ctx.fail('correspondence', err[-300:], None)
    else:
        for c, x in zip(bad_cases, r):
            ctx.count('truncate-malformed', [c['s'], c['opts']], nontrivial=False)
            if x.get('error') != 'ValueError':
                ctx.fail('oracle', 'trunc_cut >= 1 accepted (expected ValueError), got %s' % (x,),
                         {'stream': 'truncate-malformed', 'case': c})
    # ---- TruncationError arithmetic
    ecases = []
    for _ in range(ctx.pick(200, 2000)):
        m = rng.randint(0, 6)
        ecases.append({'eps_list': [rng.randint(0, 1 << 20) / (1 << 40) for _ in range(m)],
                       'S_disc': [rng.randint(0, 1000) / 4096 for _ in range(rng.randint(0, 5))],
                       'norm_old': rng.choice([None, 1.0, 2.0, 0.5]),
                       'norm_new': rng.randint(1, 4096) / 4096})
    (r, err), = run_kind(ctx, 'err-arith', 'err', [ecases])
    if err:
        ctx.fail('correspondence', err[-300:], None)
    else:
        for c, x in zip(ecases, r):
            if 'runner_error' in x:
                ctx.fail('oracle', 'TruncationError arithmetic raised: ' + x['runner_error'][-200:], {'stream': 'err', 'case': c})
                continue
            es = sum(c['eps_list'])
            ov = 1.0
            for e in c['eps_list']:
                ov *= (1. - 2. * e)
            no = c['norm_old'] or 1.0
            fs = sum(v * v for v in c['S_disc']) / (no * no)
            fn = 1. - c['norm_new'] ** 2 / no ** 2
            ok = (abs(x['eps_sum'] - es) < 1e-15 and abs(x['ov_prod'] - ov) < 1e-12 and abs(x['from_S_eps'] - fs) < 1e-12
                  and abs(x['from_S_ov'] - (1 - 2 * fs)) < 1e-12 and abs(x['from_norm_eps'] - fn) < 1e-12
                  and abs(x['from_norm_ov'] - (1 - 2 * fn)) < 1e-12)
            ctx.count('err-arith', c, nontrivial=len(c['eps_list']) > 1)
            params.note('TruncationError.from_S', 'norm_old', repr(c['norm_old']))
            params.note('TruncationError.from_norm', 'norm_old', repr(c['norm_old'] or 1.0))
            if not ok:
                ctx.fail('oracle', 'TruncationError arithmetic (sum of eps / from_S / from_norm) wrong: %s' % x,
                         {'stream': 'err', 'case': c})
    # ---- TruncationError arithmetic, exact: implementation floats == Model/TruncBook.v te_* over Q
    from fractions import Fraction
    xcases = []
    for _ in range(ctx.pick(200, 2000)):
        no = rng.choice([None, (1, 1), (2, 1), (1, 2), (4, 1)])
        xcases.append({'eps_list': [(rng.randint(0, 1 << 20), 1 << 40) for _ in range(rng.randint(0, 6))],
                       'S_disc': [(rng.randint(0, 1000), 4096) for _ in range(rng.randint(0, 5))],
                       'norm_old': no, 'norm_new': (rng.randint(1, 4096), 4096)})
    (r, err), = run_kind(ctx, 'err-exact', 'err_exact', [xcases])
    if err:
        ctx.fail('correspondence', err[-300:], None)
    else:
        lits, keep = [], []
        for c, x in zip(xcases, r):
            if 'runner_error' in x:
                ctx.fail('oracle', 'TruncationError arithmetic raised: ' + x['runner_error'][-200:], {'stream': 'err-exact', 'case': c})
                continue
            ctx.count('err-exact', c, nontrivial=len(c['eps_list']) > 1)
            lits.append(coq_lit(([tuple(e) for e in c['eps_list']], [tuple(e) for e in c['S_disc']],
                                 opt(tuple(c['norm_old']) if c['norm_old'] else None), tuple(c['norm_new']),
                                 (tuple(x['eps_sum']), tuple(x['from_S_eps']), tuple(x['from_norm_eps'])))))
            keep.append((c, x))
        bad, cerr = common.coq_failing_indices('cases_c15_terr', ['Base.Prelude', 'Model.TruncBook'], 'check_terr', lits)
        if cerr:
            ctx.fail('correspondence', 'model evaluation failed: ' + cerr[-600:], None)
        for b in bad[:5]:
            ctx.fail('correspondence', 'Model/TruncBook.v te_sum/te_from_S/te_from_norm and TruncationError disagree',
                     {'stream': 'err-exact', 'case': keep[b][0], 'impl': keep[b][1]})
    # ---- renormalisation bookkeeping of svd_theta / eigh_rho <-> Model/TruncBook.v (svd_book_sq, eigh_book_z)
    bcases = []
    for i in range(ctx.pick(300, 3000)):
        eigh = rng.random() < 0.5
        n = rng.choice([1, 2, 3, 4, 5, 6, 8, 10])
        k = 20 if eigh else 12
        hi = (1 << k) - 1
        if rng.random() < 0.3:
            pool = [rng.randint(1, hi) for _ in range(3)]
            xs = [rng.choice(pool) for _ in range(n)]
        else:
            xs = [rng.randint(1, hi) for _ in range(n)]
        opts = {'chi_max': rng.choice([1, 2, 3, 5, 100, None]), 'svd_min': rng.choice([None, 1e-14, 1e-3, 0.2]),
                'trunc_cut': rng.choice([None, 1e-14, 1e-2, 0.3, 0.6]), 'chi_min': rng.choice(['absent', None, 2]),
                'degeneracy_tol': rng.choice(['absent', None, 1e-6])}
        bcases.append({'seed': ctx.seed * 100000 + i, 'xs': xs, 'k': k, 'eigh': eigh, 'rotate': rng.random() < 0.5,
                       'opts': opts})
    chunks = [bcases[i::common.NPROC] for i in range(common.NPROC)]
    chunks = [ch for ch in chunks if ch]
    res = run_kind(ctx, 'book', 'book', chunks)
    lits = {'svd': [], 'eigh': []}
    keep = {'svd': [], 'eigh': []}
    for ci, (r, err) in enumerate(res):
        if err:
            ctx.fail('correspondence', 'book runner failed: ' + err[-400:], None)
            continue
        for j, x in enumerate(r):
            c = chunks[ci][j]
            if 'runner_error' in x:
                ctx.fail('correspondence', 'book runner failed: ' + x['runner_error'][-400:], {'stream': 'book', 'case': c})
                continue
            if 'error' in x:
                ctx.fail('oracle', 'svd_theta/eigh_rho raised: %s' % x['error'], {'stream': 'book', 'case': c},
                         match_key='C15:decomp-raises')
                continue
            if not x['exact_in'] or sorted(x['order']) != sorted(c['xs']):
                ctx.count('book', c, nontrivial=False)     # LAPACK did not return the planted spectrum to 1e-12
                continue
            mask, order = x['mask'], x['order']
            kept = [v for v, m in zip(order, mask) if m]
            disc = [v for v, m in zip(order, mask) if not m]
            fr = lambda p: Fraction(p[0], p[1])
            probs = []
            if c['eigh']:
                W = [fr(p) for p in x['W']]
                tot = sum(order)
                if len(W) != len(kept) or abs(float(sum(W)) / tot - 1) > 1e-9:
                    probs.append('eigh_rho: sum(W_new) = %r, trace %d' % (float(sum(W)), tot))
                if abs(float(fr(x['eps'])) - sum(disc) / tot) > 1e-9:
                    probs.append('eigh_rho: eps %r, discarded/trace %r' % (float(fr(x['eps'])), sum(disc) / tot))
                lits['eigh'].append(coq_lit((order, mask, ([tuple(p) for p in x['W']], tuple(x['eps'])))))
                keep['eigh'].append((c, x))
            else:
                S = [fr(p) for p in x['S']]
                ren = fr(x['renorm'])
                tot = sum(v * v for v in order)
                if len(S) != len(kept) or any(abs(float(sv * ren) - v) > 1e-9 * max(1, v) for sv, v in zip(S, kept)):
                    probs.append('svd_theta: S_new*renormalization != kept singular values')
                if abs(float(sum(sv * sv for sv in S)) - 1) > 1e-9:
                    probs.append('svd_theta: S_new not normalised')
                if abs(float(fr(x['eps'])) - sum(v * v for v in disc) / tot) > 1e-9:
                    probs.append('svd_theta: eps != discarded weight / total weight')
                lits['svd'].append(coq_lit((order, mask, ([tuple(p) for p in x['S']], tuple(x['renorm']), tuple(x['eps'])))))
                keep['svd'].append((c, x))
            ctx.count('book', c, nontrivial=not all(mask), sample={'xs': c['xs'], 'opts': c['opts'], 'eigh': c['eigh'], 'kept': len(kept)})
            if probs:
                ctx.fail('oracle', '; '.join(probs), {'stream': 'book', 'case': c, 'impl': x}, match_key='C15:book')
    for kind, fn in (('svd', 'check_svd_book'), ('eigh', 'check_eigh_book')):
        bad, cerr = common.coq_failing_indices('cases_c15_' + kind, ['Base.Prelude', 'Model.TruncBook'], fn, lits[kind])
        if cerr:
            ctx.fail('correspondence', 'model evaluation failed: ' + cerr[-600:], None)
        for b in bad[:5]:
            ctx.fail('correspondence', 'Model/TruncBook.v %s and the implementation disagree' % fn,
                     {'stream': 'book', 'case': keep[kind][b][0], 'impl': keep[kind][b][1]})
    ctx.cov['traces_validated_against_impl'] += len(lits['svd']) + len(lits['eigh'])
    # ---- truncated decompositions: reconstruction error == reported error
    dcases = []
    for i in range(ctx.pick(120, 1500)):
        mod = rng.choice([None, 1, 2, 3])
        nb = [rng.randint(1, 3), rng.randint(1, 3)]
        legs = []
        for l in range(2):
            sizes = [rng.randint(1, 4) for _ in range(nb[l])]
            ch = [rng.randint(-1, 2) for _ in range(nb[l])]
            legs.append([sizes, ch, 1 if l == 0 else -1])
        chi = rng.choice([1, 2, 3, 5, 100, None, 'absent'])
        opts = {'chi_max': chi, 'svd_min': rng.choice([None, 1e-14, 1e-3, 0.2, 'absent']),
                'trunc_cut': rng.choice([None, 1e-14, 1e-2, 0.3, 'absent']), 'chi_min': rng.choice(['absent', None, 2]),
                'degeneracy_tol': rng.choice(['absent', None, 1e-6])}
        qt = 0 if mod is None else rng.choice([0, 0, legs[0][1][0] - legs[1][1][0]])
        dcases.append({'seed': ctx.seed * 100000 + i, 'opts': opts, 'eigh': (qt == 0 or mod is None) and rng.random() < 0.6,
                       'spec': {'mod': mod, 'legs': legs, 'qtotal': qt, 'complex': rng.random() < 0.4,
                                'lowrank': rng.random() < 0.2}})
        d = dcases[-1]
        # documented parameters: qtotal_LR (svd_theta), UPLO / sort (eigh_rho); the options as dict or as tenpy Config
        d['config'] = rng.random() < 0.3
        q = rng.randint(-1, 2)
        d['qtotal_LR'] = rng.choice([None, None, [None, None], [q, None], [None, q], [q, 0]])
        if d['eigh']:
            d['UPLO'] = rng.choice([None, 'L', 'U', 'U'])
            if rng.random() < 0.7:
                d['sort'] = rng.choice(['m>', 'm<', '>', '<', None])
        if rng.random() < 0.3:
            dcases[-1]['inner_labels'] = rng.choice([['vR', 'vL'], ['r', 'l'], ['b', 'a']])
            dcases[-1]['spec']['labels'] = rng.choice([['a', 'b'], ['vL', 'vR'], ['(vL.p)', '(q.vR)']])
    nbig = ctx.pick(24, 150)
    if not ctx.proof.ok:
        nbig *= 2
    dcases += [gen_tiny_rank_case(rng, ctx.seed * 100000 + 50000 + i, i) for i in range(nbig)]
    chunks = [dcases[i::common.NPROC] for i in range(common.NPROC)]
    chunks = [ch for ch in chunks if ch]
    res = run_kind(ctx, 'decomp', 'decomp', chunks)
    nd = 0
    dhist = {'tiny_rank_cases': 0, 'reduction_gt_100x': 0, 'reduction_gt_100x_not_chi_max': 0, 'with_charges': 0, 'complex': 0,
             'warned': 0, 'eigh_tiny_rank_cases': 0, 'eigh_reduction_gt_100x_not_chi_max': 0, 'eigh_warned': 0,
             'uplo_other_triangle_garbage': 0}
    for ci, (r, err) in enumerate(res):
        if err:
            ctx.fail('correspondence', 'decomp runner failed: ' + err[-400:], None)
            continue
        for j, x in enumerate(r):
            c = chunks[ci][j]
            if 'skip' in x:
                ctx.count('decomp', c, nontrivial=False)
                continue
            if 'runner_error' in x:
                ctx.fail('correspondence', 'decomp runner failed: ' + x['runner_error'][-400:], {'stream': 'decomp', 'case': c})
                continue
            if 'error' in x:
                ctx.fail('oracle', 'svd_theta/eigh_rho raised: %s' % x['error'],
                         {'stream': 'decomp', 'case': c}, match_key='C15:decomp-raises')
                continue
            if 'inconsistent' in x:
                ctx.count('decomp', c, nontrivial=True)
                ctx.fail('oracle', 'svd_theta/eigh_rho returned objects that cannot be combined as documented (%s)' % x['inconsistent'],
                         {'stream': 'decomp', 'case': c, 'impl': x}, match_key='C15:decomp')
                continue
            sv = x['svd']
            probs = []
            tol = 1e-10
            if abs(sv['rel_err2'] - sv['eps']) > tol:
                probs.append('svd_theta: squared relative reconstruction error %.3e != reported eps %.3e' % (sv['rel_err2'], sv['eps']))
            if abs(sv['normS'] - 1) > 1e-12:
                probs.append('svd_theta: returned S not normalised')
            if sv['UdU'] > 1e-10 or sv['VVd'] > 1e-10:
                probs.append('svd_theta: U / VH not isometric')
            # kept singular values are the largest ones of the dense matrix
            dsv = sorted(sv['dense_sv'], reverse=True)[:sv['chi']]
            got = sorted((s * sv['renorm'] for s in sv['S']), reverse=True)
            if any(abs(a - b) > 1e-9 * max(1, dsv[0]) for a, b in zip(dsv, got)):
                probs.append('svd_theta: S*renormalization are not the largest singular values')
            cmax = 100 if c['opts']['chi_max'] == 'absent' else c['opts']['chi_max']          # documented default
            if cmax is not None and sv['chi'] > cmax:
                probs.append('svd_theta: chi %d > chi_max' % sv['chi'])
            params.note_opts('svd_theta', c['opts'])
            params.note('svd_theta', 'trunc_par', 'Config' if c.get('config') else 'dict')
            params.note('svd_theta', 'inner_labels', 'default' if c.get('inner_labels') is None else str(c['inner_labels']))
            params.note('svd_theta', 'qtotal_LR', 'default' if c.get('qtotal_LR') is None or c['spec']['mod'] is None else
                        str([None if q is None else 'q' for q in c['qtotal_LR']]))
            for side, name in ((0, 'U'), (1, 'VH')):
                w = sv['want_qtotal_LR'][side]
                if w is not None and sv['qtotal_LR'][side] != w:
                    probs.append('svd_theta: %s.qtotal = %s, requested by qtotal_LR: %s' % (name, sv['qtotal_LR'][side], w))
            # the factors themselves: documented labels, legs, total charge, dtype; the documented formula evaluates
            if sv['U_labels'] != sv['want_U_labels'] or sv['VH_labels'] != sv['want_VH_labels']:
                probs.append('svd_theta: labels of U, VH are %s, %s; documented %s, %s (outer labels of theta, inner_labels on the new bond)'
                             % (sv['U_labels'], sv['VH_labels'], sv['want_U_labels'], sv['want_VH_labels']))
            if sv['leg_problems']:
                probs.append('svd_theta: legs of the factors: ' + '; '.join(sv['leg_problems']))
            if not sv['qtotal_ok']:
                probs.append('svd_theta: U.qtotal + VH.qtotal != theta.qtotal')
            if 'rec_error' in sv:
                probs.append('svd_theta: the documented tensordot(U.scale_axis(S*renormalization, 1), VH, axes=1) raises ' + sv['rec_error'])
            elif abs(sv['rel_err2_npc'] - sv['eps']) > tol:
                probs.append('svd_theta: squared relative error %.3e of tensordot(U.scale_axis(S*renormalization, 1), VH, axes=1) != reported eps %.3e'
                             % (sv['rel_err2_npc'], sv['eps']))
            if sv['dtypes'][0] != sv['dtypes'][2] or sv['dtypes'][1] != sv['dtypes'][2] or sv['dtypes'][3] != 'float64':
                probs.append('svd_theta: dtypes of U, VH, theta, S = %s' % sv['dtypes'])
            if not sv['theta_unchanged']:
                probs.append('svd_theta modified its argument theta')
            nfull = full_svd_len(c['spec'])
            big = sv['chi'] * 100 < nfull
            if c.get('tiny_rank'):
                dhist['tiny_rank_cases'] += 1
                dhist['reduction_gt_100x'] += 1 if big else 0
                if big and (cmax is None or sv['chi'] != cmax):
                    dhist['reduction_gt_100x_not_chi_max'] += 1
                    dhist['with_charges'] += 1 if c['spec']['mod'] is not None else 0
                    dhist['complex'] += 1 if c['spec']['complex'] else 0
                dhist['warned'] += 1 if any('reduction in chi' in w for w in sv['warnings']) else 0     # informational only
            if 'eigh' in x:
                eg = x['eigh']
                if abs(eg['disc_weight'] - eg['eps']) > tol:
                    probs.append('eigh_rho: discarded weight %.3e != reported eps %.3e' % (eg['disc_weight'], eg['eps']))
                if abs(eg['sumW_over_tr'] - 1) > 1e-10 or eg['resid'] > 1e-9 or eg['VdV'] > 1e-10:
                    probs.append('eigh_rho: W/V are not renormalised eigenpairs of rho (%s)' % {k: eg[k] for k in ('sumW_over_tr', 'resid', 'VdV')})
                if not eg['order_ok']:
                    probs.append('eigh_rho: eigenvalues inside a charge block are not ordered as sort=%r documents' % (c.get('sort'),))
                if eg['labels'] != eg['want_labels']:
                    probs.append('eigh_rho: labels of V %s, documented %s' % (eg['labels'], eg['want_labels']))
                if not eg['rho_unchanged']:
                    probs.append('eigh_rho modified its argument rho')
                top = max(eg['dense_ev'][0], 1e-300)
                if any(abs(a - b) > 1e-9 * top for a, b in zip(eg['W_scaled'], eg['dense_ev'])):
                    probs.append('eigh_rho: kept eigenvalues (W * (1 - eps)) %s are not the largest ones %s' % (eg['W_scaled'][:4], eg['dense_ev'][:4]))
                if cmax is not None and eg['chi'] > cmax:
                    probs.append('eigh_rho: chi %d > chi_max' % eg['chi'])
                if abs(eg['ov'] - (1 - 2 * eg['eps'])) > 1e-14:
                    probs.append('eigh_rho: err.ov != 1 - 2 eps')
                params.note_opts('eigh_rho', c['opts'])
                params.note('eigh_rho', 'trunc_par', 'Config' if c.get('config') else 'dict')
                params.note('eigh_rho', 'UPLO', 'default' if c.get('UPLO') is None else c['UPLO'] + (':other-triangle-garbage' if x.get('uplo_garbage') else ''))
                params.note('eigh_rho', 'sort', 'default' if 'sort' not in c else repr(c['sort']))
                dhist['uplo_other_triangle_garbage'] += 1 if x.get('uplo_garbage') else 0
                if c.get('tiny_rank'):
                    ebig = eg['chi'] * 100 < eg['n']
                    dhist['eigh_tiny_rank_cases'] += 1
                    if ebig and (cmax is None or eg['chi'] != cmax):
                        dhist['eigh_reduction_gt_100x_not_chi_max'] += 1
                    dhist['eigh_warned'] += 1 if any('reduction in chi' in w for w in eg['warnings']) else 0
            nd += 1
            ctx.count('decomp', c, nontrivial=sv['eps'] > 1e-20 or sv['chi'] < nfull,
                      sample={'opts': c['opts'], 'spec': c['spec'], 'eps': sv['eps'], 'chi': sv['chi']})
            if probs:
                ctx.fail('oracle', '; '.join(probs), {'stream': 'decomp', 'case': c, 'impl': x}, match_key='C15:decomp')
    ctx.cov['decomp_tiny_rank'] = dhist
    if dhist['tiny_rank_cases'] >= 12 and dhist['reduction_gt_100x_not_chi_max'] == 0:
        ctx.fail('correspondence', 'decomp: no tiny-rank case shrank the bond by more than a factor 100 without hitting chi_max '
                 '(generator lost the catastrophic-reduction path of svd_theta): %s' % dhist, None)
    if dhist['eigh_tiny_rank_cases'] >= 6 and dhist['eigh_reduction_gt_100x_not_chi_max'] == 0:
        ctx.fail('correspondence', 'decomp: no tiny-rank case reached the catastrophic-reduction path of eigh_rho: %s' % dhist, None)
    # ---- audit streams: float spectra, TruncationError API, _eig_based_svd, a caller that accumulates the errors
    c15_audit.run_all(ctx, rng, run_kinds, params)
    # ---- root-input models svd_theta_book / eigh_rho_book on exact data (Model/TruncBookCheck.v);
    #      decompose_theta_qr_based directly and through QRBasedTEBDEngine (dense oracle)
    c15_streams.run(ctx, rng)
    ctx.c15cov.table(ctx)
    ctx.assumptions += [
        'C15 truncate-float: a case whose decisive comparison (value vs svd_min, weight vs trunc_cut^2, log-ratio vs degeneracy_tol) is within 1e-12 relative of its threshold '
        'without being exactly equal, or whose squares underflow, is not judged (float rounding of log / cumsum is not modelled); negative Schmidt values are outside the quantifier',
        'C15 qr-direct: equivalent presentations of one input (gauged total charges, unblocked old bond leg) are required to give the same decomposition (deterministic '
        'algorithm); assert-guarded preconditions of _qr_theta_Y0 / _eig_based_svd (expand None/0, negative min_block_increase, rank != 2) are outside the quantifier',
        'C15 model: spectra are integers (numerators of dyadic rationals), zeros handled as in the header of coq/Model/Truncate.v',
        'C15 not modelled: float rounding inside np.log / np.linalg.norm (generators keep all compared quantities >= 2^-20 apart or exactly equal); LAPACK in svd_theta/eigh_rho (oracle only; the bookkeeping around it is compared with Model/TruncBook.v: squares-only variants to 1e-9 in stream book, root-input variants svd_theta_book/eigh_rho_book in streams svd-exact/eigh-exact by exact equality when every model value is dyadic and otherwise within 2^-50 (svd_theta) / 2^-49 (eigh_rho) relative, decided inside Coq); decompose_theta_qr_based has no Coq model: dense numpy oracle only (streams qr-direct, qr-engine)',
    ]
    return ctx.finish(RULE, 'theorems of coq/Props/C15.v for all spectra/options on the model; model tied to truncation.truncate by '
                      'vm_compute evaluation of every generated case; _combine_constraints regenerated from source')


RULE = ('truncate: random integer spectra (length 1-40; exact ties, zeros, sorted/unsorted, unnormalised) x full option lattice '
        '(absent / None / values incl. unsatisfiable); a case is non-trivial when the spectrum has >= 2 distinct values; '
        'distinct = distinct (spectrum, options).  book: svd_theta/eigh_rho on (rotated) diagonal matrices with planted integer spectra, '
        'non-trivial when something was truncated.  decomp: random block-sparse matrices x options (labels / inner_labels varied), plus large matrices (101-370 per charge sector) of tiny numerical rank '
        '(rank 1-3 per sector + noise 0 / 1e-12 / 1e-9; no charge, Z2, U(1); real and complex) whose truncation shrinks the bond > 100x so that the catastrophic-reduction '
        'diagnostics of svd_theta run (warning captured); observables: dense reconstruction error vs eps, the documented tensordot formula, labels, legs, qtotal, dtype, '
        'theta unchanged; non-trivial when something was truncated.  '
        'svd-exact / eigh-exact: permutation-planted integer spectra with rational roots (Pythagorean tuples with a Pythagorean prefix, '
        'sum-of-squares-a-power-of-4 tuples, eigenvalue lists with kept/total a rational square; zeros; scaled by 2^-k) x options forcing the cut by '
        'chi_max / svd_min / trunc_cut, non-trivial when truncated or non-degenerate.  qr-direct / qr-engine: decompose_theta_qr_based on two-site '
        'wave functions of small random TFI / XXZ chains (no charge, parity, Sz) x chi_max / svd_min / trunc_cut / expansion rate / min_block_increase / '
        'move_right / eig-based SVD, directly and through QRBasedTEBDEngine (real time, imaginary sweeps), non-trivial when something was truncated; '
        'qr-direct also presents the same wave function with non-zero total charges of the old tensors, with an old bond leg that is not blocked and with '
        'the options as tenpy Config (result compared with the plain presentation).  '
        'truncate (big): 101-140 values so that the DEFAULT chi_max decides.  truncate-float: float spectra off the dyadic grid in six strata (values around the '
        'default thresholds 1e-14, 30 decades, near-degenerate multiplets x degeneracy_tol, values below 1e-100 next to exact zeros, 101-260 values, normalised decaying '
        'Schmidt spectra) x options absent / None / values incl. 0.0 x input forms (strided view, read-only, Config, second call on the same options object); oracle in exact '
        'rationals, cases within 1e-12 of a threshold not judged; non-trivial when truncated or >= 2 distinct values.  err-api: every public name of TruncationError '
        '(copy, +, +=, sum, ov_err, repr in its 4 cases, defaulted arguments, HDF5 round trip; operands and results re-used).  decomp additionally draws qtotal_LR, UPLO '
        '(other triangle overwritten with garbage), sort, Config options, absent options; tiny-rank cases also through eigh_rho.  eig-svd: _eig_based_svd directly, all '
        'need_U / need_Vd / trunc_params combinations.  callers: MPS.compress_svd / MPS.compress on small chains (returned error = accumulated reports, norm = product of '
        'renormalizations, dense distance = 1 - prod(1 - eps_i)).  coverage_table: names / branch outcomes / parameters of tenpy/linalg/truncation.py measured with '
        'sys.monitoring in every implementation process; an unreached and unclassified item is a correspondence failure.')
