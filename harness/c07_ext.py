"""Streams `mixed-dtype` and the bond-index coverage of check C07 (harness side, numpy only).

mixed-dtype: the tensors an MPS is built from need not share a dtype.  Every constructor that takes several
tensors / local states is fed with REAL data on some sites and COMPLEX data on others (also: real on site 0):
  * raw   - MPS(sites, Bs, SVs, form=label | None, norm=...) with npc tensors of per-site dtype (finite and infinite bc;
            labelled non-canonical tensors are left as they are, form=None is canonicalised right away),
  * bflat - MPS.from_Bflat with per-site dtypes of the numpy arrays,
  * covering - from_product_mps_covering whose local MPS have different dtypes,
  * add   - psi.add(other) with a real and a complex operand (as an operation of the history),
and segments cut out of such states.  The reference is the dense contraction of exactly the data handed over
(real part taken on the real sites BEFORE the reference is built).

bond indices: `bond_want` lists, per boundary condition, ALL bond indices accepted by entanglement_entropy(bonds=...)
and all site indices accepted by get_SL / get_SR (finite, segment: bonds 0..L incl. the outer ones, sites -L..L-1;
infinite: bonds and sites beyond the unit cell on both sides); `check_bonds` compares them with the dense Schmidt
values of the reference at the addressed cut.
"""
import numpy as np

import mps_gen as G


# ------------------------------------------------------------------------------------------------ mixed dtype: generation

def _mixed_flags(rng, n):
    """per-site (per-group) flags `complex?` with at least one real and one complex entry; the first is real in most draws"""
    if n < 2:
        return [rng.random() < 0.5]
    for _ in range(100):
        f = [rng.random() < 0.5 for _ in range(n)]
        if rng.random() < 0.6:
            f[0] = False
        if any(f) and not all(f):
            return f
    return [False] + [True] * (n - 1)


def gen_mixed_finite(rng, SI):
    r = rng.random()
    if r < 0.50:
        ctor = 'raw'
    elif r < 0.62:
        ctor = 'bflat'
    elif r < 0.87:
        ctor = 'covering'
    else:
        ctor = 'add'
    if ctor in ('raw', 'bflat'):
        for _ in range(50):
            L = rng.choice([2, 3, 3, 4, 4, 5, 6])
            kinds = G.gen_sites(rng, L, maxdim=1500)
            b = G.gen_finite_build(rng, kinds, ['bflat'])
            if max(b['chi']) > 1:
                break
        b['cplx'] = True
        b['mixed'] = _mixed_flags(rng, len(kinds))
        b['ctor'] = ctor
        if ctor == 'raw':
            b['form'] = rng.choice([None, None, 'B', 'A', 'C', 'G', 'Th'])
            b['norm0'] = rng.choice([1.0, 1.0, 0.5, 2.5])
            b['renorm'] = rng.random() < 0.5
        return {'bc': 'finite', 'sites': kinds, 'build': b}, []
    if ctor == 'covering':
        if rng.random() < 0.5:
            spec = G.gen_covering_x(rng)
        else:
            L = rng.choice([3, 4, 4, 5, 6])
            kinds = G.gen_sites(rng, L, maxdim=1500)
            spec = {'bc': 'finite', 'sites': kinds, 'build': G.gen_finite_build(rng, kinds, ['covering'])}
        b = spec['build']
        b['cplx'] = True
        gs = b['groups']
        flags = _mixed_flags(rng, len(gs))
        # the flag drawn first belongs to the group that holds site 0
        j0 = [j for j, g in enumerate(gs) if 0 in g][0]
        flags[0], flags[j0] = flags[j0], flags[0]
        b['mixed'] = flags
        return spec, []
    # add: a real and a complex state of the same charge sector
    L = rng.choice([2, 3, 4, 5])
    kinds = G.gen_sites(rng, L, maxdim=1500)
    S = G.Sites(kinds, SI)
    Q = G.largest_sector(S, list(range(len(kinds))))
    first_real = rng.random() < 0.7
    specs = []
    for c in (not first_real, first_real):
        b = G.gen_finite_build(rng, kinds, ['full'])
        b['cplx'] = c
        b['normalize'] = True
        b['Q'] = Q
        specs.append({'bc': 'finite', 'sites': list(kinds), 'build': b})
    im = rng.choice([0.0, 0.0, 1.0])
    op = {'op': 'add', 'other': specs[1], 'alpha': [rng.choice([1.0, 0.5, -2.0]), 0.0],
          'beta': [rng.choice([1.0, -0.7, 3.0]), im if first_real else 0.0]}
    return specs[0], [op]


def gen_mixed_infinite(rng):
    L = rng.choice([2, 2, 3, 4])
    kinds = G.gen_sites(rng, L, maxdim=20)
    b = G.gen_infinite_build(rng, kinds)
    while b['method'] != 'bflat':
        b = G.gen_infinite_build(rng, kinds)
    b['cplx'] = True
    b['mixed'] = _mixed_flags(rng, len(kinds))
    b['ctor'] = rng.choice(['raw', 'raw', 'bflat'])
    return {'bc': 'infinite', 'sites': kinds, 'build': b}


def is_mixed(spec):
    return 'mixed' in (spec.get('build') or {})


# ------------------------------------------------------------------------------------------------ mixed dtype: data + reference

def _realify(arrs, flags):
    return [np.asarray(a) if f else np.asarray(a).real.astype(float) for a, f in zip(arrs, flags)]


def build_data_mixed(spec, SI):
    """G.build_data of the all-complex spec, then the real part on the sites (groups) flagged real; the dense
    reference is rebuilt from exactly these data.  Extra keys: 'canon' (is the result in canonical form?)."""
    S = G.Sites(spec['sites'], SI)
    b = spec['build']
    L = len(S.kinds)
    D = G.build_data(spec, SI)
    flags = b['mixed']
    if b['method'] == 'bflat':
        Bs = _realify(D['B_stored'], flags)
        D['B_stored'] = Bs
        D['Bflat'] = _realify(D['Bflat'], flags)
        chi = b['chi']
        form = b['form']
        raw = b.get('ctor') == 'raw'
        svs = D['svs']
        if svs is None:
            # what from_Bflat fills in; the raw constructor gets them explicitly
            svs = [np.ones(c) / np.sqrt(c) for c in chi]
        D['svs_raw'] = svs
        f = G.HALF[form] if form is not None else None
        th = None
        for i in range(L):
            T = np.transpose(Bs[i], (1, 0, 2))      # (vL, p, vR)
            if f is not None:
                # the stored tensor is claimed to be s^nuL Gamma s^nuR: the denotation has s^1 on every bond
                T = T * G.spow(svs[i], 2 - f[0] if i == 0 else 0)[:, None, None]
                T = T * G.spow(svs[i + 1], 2 - f[1] - (f[0] if i + 1 < L else 0))[None, None, :]
            th = T if th is None else np.tensordot(th, T, axes=(-1, 0))
        v = th.reshape(S.dims).astype(complex)
        nv = float(np.linalg.norm(v))
        if not raw:
            # from_Bflat canonicalises (and normalises) when some bond dimension exceeds 1
            D['vec'] = v / nv if max(chi) > 1 else v
            D['norm'] = 1.
            D['canon'] = max(chi) > 1
        elif form is None:
            # MPS(..., form=None, norm=norm0) followed by canonical_form(renormalize=...)
            n0 = b['norm0']
            if b['renorm']:
                D['vec'] = v / nv * n0
                D['norm'] = n0
            else:
                D['vec'] = v * n0
                D['norm'] = nv * n0
            D['canon'] = True
        else:
            # MPS(..., form=label, norm=norm0): tensors are stored as given
            D['vec'] = v * b['norm0']
            D['norm'] = b['norm0']
            D['canon'] = False
    elif b['method'] == 'covering':
        locs = []
        vec = np.ones([1] * L, dtype=complex)
        for g, v, fl in zip(b['groups'], D['locals'], flags):
            if not fl:
                v = v.real.astype(float)
            v = v / np.linalg.norm(v)
            locs.append(v)
            order = np.argsort(g)
            rank = [0] * len(g)
            for r, o in enumerate(order):
                rank[o] = r
            vs = G.permute_state(v, rank, [S.par[i] for i in g])
            shp = [1] * L
            for i in sorted(g):
                shp[i] = S.dims[i]
            vec = vec * vs.reshape(shp)
        D['locals'] = locs
        D['vec'] = vec
        D['norm'] = 1.
        D['canon'] = True
    else:
        raise ValueError('no mixed-dtype variant of ' + b['method'])
    return D


def build_data_infinite_mixed(spec, SI):
    b = spec['build']
    D = G.build_data_infinite(spec, SI)
    flags = b['mixed']
    D['B_stored'] = _realify(D['B_stored'], flags)
    D['Bflat'] = _realify(D['Bflat'], flags)
    D['Ms'] = [np.transpose(B, (1, 0, 2)) for B in D['B_stored']]
    if D['ok']:
        # the reference must stay injective and well conditioned after taking real parts
        tm = G.TM(D['Ms'])
        c0 = b['chi'][0]
        sl = np.linalg.svd(tm.l0.reshape(c0, c0), compute_uv=False)
        sr = np.linalg.svd(tm.r0.reshape(c0, c0), compute_uv=False)
        D['ok'] = bool(tm.gap < 0.8 and abs(tm.eta) > 1e-8 and sl[-1] > 1e-3 * sl[0] and sr[-1] > 1e-3 * sr[0]
                       and not any(np.any(np.abs(B).sum(axis=(0, 1)) == 0) or np.any(np.abs(B).sum(axis=(0, 2)) == 0)
                                   for B in D['B_stored']))
    return D


def mixed_summary(spec):
    b = spec['build']
    return {'ctor': b.get('ctor', b['method']), 'complex?': b['mixed'], 'form': b.get('form')}


# ------------------------------------------------------------------------------------------------ bond indices

RENYI = [1, 2]


def bond_want(rng, bc, L):
    """all bond indices accepted by entanglement_entropy(bonds=...) and all site indices accepted by get_SL/get_SR"""
    if bc == 'infinite':
        bonds = list(range(-L - 1, 2 * L + 2))
        sites = list(range(-L - 1, 2 * L + 1))
    else:
        bonds = list(range(0, L + 1))
        sites = list(range(-L, L))
    rng.shuffle(bonds)         # (the order of the request must not matter)
    return {'bonds': bonds, 'sites': sites, 'n': RENYI}


def renyi(s, n):
    p = np.asarray(s, dtype=float) ** 2
    p = p[p > 1e-30]
    p = p / np.sum(p)
    if n == 1:
        return float(-np.sum(p * np.log(p)))
    return float(np.log(np.sum(p ** n)) / (1. - n))


def check_bonds(o, A, kk, wb, L, finite, ref_s, fail, tol=1e-7, stol=1e-7):
    """o['bonds'] (recorded by impl/c07_ext_run.py) against the dense Schmidt values ref_s(b), b = canonical bond
    index (finite / segment: 0..L, infinite: 0..L-1); ref_s returns None where no reference exists."""
    ob = o.get('bonds')
    if ob is None or wb is None:
        return
    canon_b = (lambda b: b) if finite else (lambda b: b % L)
    for n in wb['n']:
        key = 'ent_%s' % n
        if key + '_error' in ob:
            fail('entanglement_entropy(n=%s, bonds=%s) raises %s' % (n, wb['bonds'], ob[key + '_error']))
            continue
        got = ob.get(key)
        if got is None:
            continue
        if len(got) != len(wb['bonds']):
            fail('entanglement_entropy(n=%s, bonds=%s) returns %d values' % (n, wb['bonds'], len(got)))
            continue
        for b, x in zip(wb['bonds'], got):
            s = ref_s(canon_b(b))
            if s is None:
                continue
            w = renyi(s, n)
            if not abs(x - w) <= tol:
                fail('entanglement_entropy(n=%s, bonds=%s): entry for bond %d (L=%d) is %.9f, the dense state has %.9f at that cut' % (
                    n, wb['bonds'], b, L, x, w))
                break
    if 'ent_int_error' in ob:
        fail('entanglement_entropy(bonds=<int>) raises ' + ob['ent_int_error'])
    for b, x in zip(wb['bonds'], ob.get('ent_int', [])):
        s = ref_s(canon_b(b))
        if s is not None and not abs(x - renyi(s, 1)) <= tol:
            fail('entanglement_entropy(bonds=%d) (L=%d) = %.9f, the dense state has %.9f at that cut' % (b, L, x, renyi(s, 1)))
            break
    for name, shift in (('SL', 0), ('SR', 1)):
        for j, i in enumerate(wb['sites']):
            ek = '%s_err%d' % (name, j)
            if ek in ob:
                fail('get_%s(%d) raises %s' % (name, i, ob[ek]))
                continue
            k = '%s_%s%d' % (kk, name, j)
            if k not in A:
                continue
            b = (i % L) + shift if finite else (i + shift) % L
            s = ref_s(b)
            if s is None:
                continue
            m = _cmp(A[k], s, stol)
            if m:
                fail('get_%s(%d) (L=%d) does not return the Schmidt coefficients of the dense state at bond %d (%s)' % (name, i, L, b, m))
                break


def _cmp(s_impl, s_ref, tol):
    a = np.sort(np.asarray(s_impl, dtype=float).reshape(-1))[::-1]
    b = np.sort(np.asarray(s_ref, dtype=float).reshape(-1))[::-1]
    a = a[a > 1e-6]
    b = b[b > 1e-6]
    if len(a) != len(b):
        return 'rank %d vs dense %d' % (len(a), len(b))
    if len(a) and np.max(np.abs(a - b)) > tol:
        return 'max deviation %.2e' % np.max(np.abs(a - b))
    return None


def check_default_entropy(o, ents_ref, what, fail, tol=1e-7):
    """entanglement_entropy() with default bonds: one value per non-trivial bond, in order"""
    if 'entropy' not in o:
        return
    got = o['entropy']
    if len(got) != len(ents_ref):
        fail('entanglement_entropy() returns %d values for %s, expected %d' % (len(got), what, len(ents_ref)))
        return
    known = [(a, c) for a, c in zip(got, ents_ref) if c is not None]
    if known and max(abs(a - c) for a, c in known) > tol:
        fail('entanglement_entropy() = %s, dense state %s (%s)' % (np.round(got, 8).tolist(), [None if c is None else round(c, 8) for c in ents_ref], what))
