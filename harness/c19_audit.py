"""C19 coverage audit: which functions / options / branches of tenpy/models/lattice.py does the check reach?

* enumerate(repo): every function and method of lattice.py (AST of the CURRENT source), its parameters, its statements and
  the `raise` / `assert False` statements (error branches for invalid arguments, outside the quantifier of the property);
  the names of the orderings each `ordering` method compares its argument with.
* CLASSIFICATION: for every public name either the streams of harness/c19.py that exercise it or the reason why the property
  does not speak about it.  A public name that is neither -> correspondence failure (a new method cannot escape silently); a
  name classified as covered that no runner process executed -> correspondence failure.
* table(...): function x statements reached (from the line events recorded by harness/impl/c19_impl.py in every runner process)
  and option x values drawn (from the generated specifications).
"""
import ast
import os
import re

REL = os.path.join('tenpy', 'models', 'lattice.py')

EXCLUDED = [
    (r'.*\.plot_\w+$|.*\._plot_\w+$', 'plot helper (excluded by the property)'),
    (r'.*\.(save_hdf5|from_hdf5|_from_hdf5_early)$', 'serialisation, not lattice geometry'),
    (r'.*\.from_model_params$', 'parsing of model parameters (tenpy/models/model.py side), builds the lattices the check builds directly'),
    (r'Lattice\.(reciprocal_basis|BZ|cylinder_axis)$', 'reciprocal space / cylinder axis for plots: not an index map, coupling or neighbour list'),
    (r'SimpleBZ\..*', 'Brillouin zone helper class: reciprocal space, not in the property'),
    (r'get_lattice$', 'class lookup by name'),
]

COVERED = {
    'Lattice.__init__': 'every stream (all lattices are built through it); options basis/positions/pairs: pairs, find_pairs (generic Lattice)',
    'Lattice.test_sanity': 'called by every constructor / transform',
    'Lattice.unit_cell': 'mps_sites',
    'Lattice.copy': 'extract_segment-self-unchanged, model-transform',
    'Lattice.basis': 'pairs, position-forms',
    'Lattice.dim': 'every stream',
    'Lattice.order': 'order, order-setter (set again after use), object-unchanged',
    'Lattice.ordering': 'order, ordering, model-order',
    'Lattice.boundary_conditions': 'order (getter compared with the given bc; setter called again from the getter; string / list / shift 0 forms)',
    'Lattice.extract_segment': 'model-transform, extract_segment-self-unchanged and all streams on the result',
    'Lattice.enlarge_mps_unit_cell': 'model-transform and all streams on the result',
    'Lattice.position': 'pairs, position-forms, distance-disorder',
    'Lattice.site': 'mps_sites',
    'Lattice.mps_sites': 'mps_sites',
    'Lattice.mps2lat_idx': 'mps2lat, index-forms, roundtrip-direct, repeated-queries, model-lattice',
    'Lattice.lat2mps_idx': 'lat2mps, index-forms, roundtrip-direct, repeated-queries, model-lattice',
    'Lattice.mps_idx_fix_u': 'mps2lat (fix_u tables), mps_sites, model-lattice',
    'Lattice.mps_lat_idx_fix_u': 'mps2lat (fix_u tables incl. u=None)',
    'Lattice.mps2lat_values': 'values, values-forms, model-values',
    'Lattice.mps2lat_values_masked': 'values_masked, values_masked-axes, values_masked-defaults',
    'Lattice.count_neighbors': 'pairs',
    'Lattice.distance': 'pairs, distance-disorder',
    'Lattice.find_coupling_pairs': 'find_pairs',
    'Lattice.coupling_shape': 'couplings',
    'Lattice.possible_couplings': 'couplings, strength, couplings-vs-multi, pairs-couplings, model-lattice',
    'Lattice.multi_coupling_shape': 'multi',
    'Lattice.possible_multi_couplings': 'multi, couplings-vs-multi, model-lattice',
    'Lattice.with_grouped_sites': 'with_grouped_sites',
    'TrivialLattice.__init__': 'all index / coupling streams on cls=Trivial, with_grouped_sites',
    'SimpleLattice.__init__': 'all streams on Chain / Square / Triangular',
    'SimpleLattice.mps2lat_values': 'values, values-forms',
    'MultiSpeciesLattice.__init__': 'multi-pairs, model-species and all index / coupling streams on kind=multi',
    'MultiSpeciesLattice.ordering': 'order, ordering-wrapped',
    'MultiSpeciesLattice.self_u_to_simple_u': 'species-maps',
    'MultiSpeciesLattice.self_u_to_species_idx': 'species-maps',
    'MultiSpeciesLattice.simple_u_to_species_u': 'species-maps, order',
    'IrregularLattice.__init__': 'all index / coupling streams on kind=irregular and on extract_segment(first, last)',
    'IrregularLattice.ordering': 'ordering-wrapped, order-setter',
    'IrregularLattice.order': 'order, order-setter',
    'IrregularLattice.mps_idx_fix_u': 'mps2lat (fix_u tables)',
    'HelicalLattice.__init__': 'all index / coupling streams on kind=helical',
    'HelicalLattice.ordering': 'ordering-wrapped',
    'HelicalLattice.order': 'order',
    'HelicalLattice.mps_idx_fix_u': 'mps2lat (fix_u tables)',
    'HelicalLattice.mps2lat_idx': 'mps2lat',
    'HelicalLattice.lat2mps_idx': 'lat2mps',
    'HelicalLattice.mps2lat_values': 'values (raises NotImplementedError as documented; the masked variant is checked)',
    'HelicalLattice.mps2lat_values_masked': 'values_masked',
    'HelicalLattice.enlarge_mps_unit_cell': 'model-transform',
    'HelicalLattice.possible_couplings': 'couplings, strength (translation invariant strength)',
    'HelicalLattice.possible_multi_couplings': 'multi',
    'Chain.__init__': 'all streams on cls=Chain', 'Chain.ordering': 'order, ordering',
    'Ladder.__init__': 'all streams on cls=Ladder', 'Ladder.ordering': 'order, ordering',
    'NLegLadder.__init__': 'all streams on cls=NLegLadder', 'NLegLadder.ordering': 'order, ordering',
    'Square.__init__': 'all streams on cls=Square', 'Triangular.__init__': 'all streams on cls=Triangular',
    'Honeycomb.__init__': 'all streams on cls=Honeycomb', 'Honeycomb.ordering': 'order, ordering',
    'Kagome.__init__': 'all streams on cls=Kagome', 'Kagome.ordering': 'order, ordering',
    'get_order': 'order, ordering, model-order',
    'get_order_grouped': 'order, ordering (groups, with and without priority)',
}

# names an `ordering` method compares its argument with, but which are not orderings one can ask for
ORDER_NAME_EXCLUDED = {('Ladder', 'folded2'): "accepted by the first test of Ladder.ordering but ends in `assert False`; not documented"}


def _header_lines(st):
    """the lines whose execution shows that statement st was reached"""
    body = getattr(st, 'body', None)
    if isinstance(body, list) and body and isinstance(body[0], ast.AST):
        return range(st.lineno, max(st.lineno, body[0].lineno - 1) + 1)
    return range(st.lineno, (st.end_lineno or st.lineno) + 1)


def enumerate_source(repo):
    """{qualname: info} for every function / method of lattice.py; {class: set of ordering names}; source lines."""
    path = os.path.join(repo, REL)
    src = open(path).read()
    lines = src.split('\n')
    tree = ast.parse(src)
    items = {}
    order_names = {}

    def add(qual, fn, cls):
        a = fn.args
        params = [x.arg for x in a.posonlyargs + a.args + a.kwonlyargs if x.arg not in ('self', 'cls')]
        if a.vararg:
            params.append('*' + a.vararg.arg)
        if a.kwarg:
            params.append('**' + a.kwarg.arg)
        stmts, errs = [], []
        for node in ast.walk(fn):
            if not isinstance(node, ast.stmt) or node is fn:
                continue
            if isinstance(node, ast.Expr) and isinstance(node.value, ast.Constant) and isinstance(node.value.value, str):
                continue            # doc string
            if isinstance(node, (ast.Try, ast.Global, ast.Pass, ast.FunctionDef)):
                continue
            is_err = isinstance(node, ast.Raise) or (isinstance(node, ast.Assert) and isinstance(node.test, ast.Constant) and not node.test.value)
            (errs if is_err else stmts).append(node)
        kind = 'function'
        for dec in fn.decorator_list:
            txt = ast.unparse(dec)
            if txt.endswith('.setter'):
                kind = 'setter'
            elif txt == 'property':
                kind = 'property'
        key = qual
        if key in items:                      # property getter + setter share the name: merge
            items[key]['stmts'] += stmts
            items[key]['errs'] += errs
            items[key]['kind'] = 'property+setter'
            items[key]['span'].append((fn.lineno, fn.end_lineno))
            return
        items[key] = {'cls': cls, 'name': fn.name, 'params': params, 'stmts': stmts, 'errs': errs, 'kind': kind,
                      'span': [(fn.lineno, fn.end_lineno)]}
        if fn.name == 'ordering' and cls:
            names = set()
            for node in ast.walk(fn):
                if isinstance(node, ast.Compare):
                    for c in node.comparators:
                        for k in ast.walk(c):
                            if isinstance(k, ast.Constant) and isinstance(k.value, str):
                                names.add(k.value)
            order_names[cls] = names
    for node in tree.body:
        if isinstance(node, ast.FunctionDef):
            add(node.name, node, None)
        elif isinstance(node, ast.ClassDef):
            for sub in node.body:
                if isinstance(sub, ast.FunctionDef):
                    add(node.name + '.' + sub.name, sub, node.name)
    return items, order_names, lines


def classify(qual, info):
    if qual in COVERED:
        return 'covered', COVERED[qual]
    for pat, why in EXCLUDED:
        if re.match(pat, qual):
            return 'excluded', why
    if info['name'].startswith('_') and not info['name'].startswith('__'):
        return 'internal', 'private helper, reached through the public methods'
    return None, None


def table(repo, hit_lines):
    """(table, problems): per function the reached statements; problems = unclassified public names, covered names never run."""
    items, order_names, lines = enumerate_source(repo)
    hit = set(hit_lines)
    tab = {}
    problems = []
    for qual, info in sorted(items.items()):
        status, why = classify(qual, info)
        reached, missed = 0, []
        for st in info['stmts']:
            if any(l in hit for l in _header_lines(st)):
                reached += 1
            else:
                missed.append('%d: %s' % (st.lineno, lines[st.lineno - 1].strip()[:90]))
        err_missed = sum(1 for st in info['errs'] if not any(l in hit for l in _header_lines(st)))
        entry = {'status': status or 'UNCLASSIFIED', 'why': why, 'params': info['params'], 'statements': len(info['stmts']),
                 'reached': reached, 'error_statements': len(info['errs']), 'error_statements_reached': len(info['errs']) - err_missed}
        if missed and status in ('covered', 'internal'):
            entry['unreached'] = missed[:12]
        tab[qual] = entry
        if status is None:
            problems.append('public name %s(%s) of tenpy/models/lattice.py is neither exercised by a stream nor classified as outside '
                            'the property (harness/c19_audit.py)' % (qual, ', '.join(info['params'])))
        elif status == 'covered' and info['stmts'] and reached == 0:
            problems.append('%s is classified as covered (%s) but no runner process executed any of its statements' % (qual, why))
    return tab, order_names, problems


def summary(tab):
    s = {'functions': len(tab)}
    for st in ('covered', 'internal', 'excluded', 'UNCLASSIFIED'):
        sel = [v for v in tab.values() if v['status'] == st]
        s[st] = {'functions': len(sel), 'statements': sum(v['statements'] for v in sel), 'reached': sum(v['reached'] for v in sel),
                 'error_statements': sum(v['error_statements'] for v in sel),
                 'error_statements_reached': sum(v['error_statements_reached'] for v in sel)}
    s['unreached_in_covered'] = {k: v['unreached'] for k, v in tab.items() if v.get('unreached')}
    return s


def option_table(specs, order_names, named_orders):
    """documented option -> how often each value was drawn; problems: a value of a documented list that was never drawn,
    an ordering name in the source that the generator does not know."""
    from collections import Counter
    c = {k: Counter() for k in ('class', 'bc form', 'bc entry', 'bc_MPS', 'order (constructor)', 'order (ordering() query)',
                                'order (setter after use)', 'wrap', 'transform', 'irregular', 'options', 'find_coupling_pairs',
                                'masked axes form', 'strength form')}
    problems = []

    def oname(cls, o):
        if isinstance(o, str):
            return '%s:%s' % (cls, o)
        return '%s:(%s%s)' % (cls, o[0], ', priority' if (len(o) > 2 and o[2] is not None) else ', priority=None' if o[0] == 'standard' else '')
    for s in specs:
        c['class'][s['cls']] += 1
        bc = s['bc']
        c['bc form']['one string' if isinstance(bc, str) else 'list'] += 1
        for a, b in enumerate([bc] if isinstance(bc, str) else bc):
            c['bc entry'][('x:' if a == 0 and not isinstance(bc, str) else 'all:' if isinstance(bc, str) else 'y..:') + str(b)] += 1
        c['bc_MPS'][s['bc_MPS']] += 1
        c['order (constructor)'][oname(s['cls'], s['order'])] += 1
        if s.get('custom_perm') is not None:
            c['order (constructor)']['%s:custom permutation through the order setter' % s['cls']] += 1
        for o in s['queries'].get('orderings', []):
            c['order (ordering() query)'][oname(s['cls'], o)] += 1
        if s.get('reorder') is not None:
            c['order (setter after use)'][oname(s['cls'], s['reorder'])] += 1
        w = s.get('wrap')
        c['wrap'][w['kind'] if w else 'none'] += 1
        if w and w['kind'] == 'irregular':
            c['irregular']['remove=%s' % ('None' if not w.get('remove') else 'given')] += 1
            c['irregular']['add=%s' % ('None' if not w.get('add') else 'given')] += 1
            for mp in (w['add'][1] if w.get('add') else []):
                c['irregular']['add mps index ' + ('None' if mp is None else 'negative' if mp < 0 else 'x.5')] += 1
        if w and w['kind'] == 'multi':
            c['options']['species_names ' + ('given' if w.get('names') else 'default')] += 1
        tr = s.get('transform')
        if tr:
            if tr['op'] == 'enlarge':
                c['transform']['enlarge_mps_unit_cell(%s)' % ('default' if tr.get('factor') is None else '1' if tr['factor'] == 1 else 'f>1')] += 1
            elif tr.get('enlarge') is not None:
                c['transform']['extract_segment(enlarge=%s)' % ('1' if tr['enlarge'] == 1 else 'f>1')] += 1
            elif tr.get('last') is None:
                c['transform']['extract_segment(%s)' % ('first' if tr.get('first') else '')] += 1
            else:
                c['transform']['extract_segment(first%s, last)' % ('=0' if tr['first'] == 0 else '>0')] += 1
        else:
            c['transform']['none'] += 1
        op = s.get('opts') or {}
        if op.get('bc_roundtrip'):
            c['options']['boundary_conditions set from its getter'] += 1
        if op.get('disorder_seed') is not None:
            c['options']['position_disorder'] += 1
        if s.get('geom'):
            c['options']['basis / positions given' if s['cls'] == 'Lattice' else 'SimpleLattice: positions as one vector'] += 1
        if op.get('sites_none') and s['cls'] in ('Ladder', 'NLegLadder', 'Honeycomb', 'Kagome'):
            c['options']['one entry instead of a list of sites'] += 1
        q = s['queries']
        if q.get('geometry'):
            c['find_coupling_pairs']['all defaults' if q.get('fcp_defaults') else 'max_dx=%s, cutoff=%s' % (q.get('max_dx', 3), 'None' if q.get('cutoff', 2.5) is None else 'given')] += 1
        c['masked axes form'][{0: '[0, 2]', 1: '[-1, 0]', 2: '(0, 2), include_u default', 3: '[0, 2], mps_inds and include_u default'}.get(q.get('masked_variant'), 'single axis only')] += 1
    c['strength form'].update({'full array': 1, 'array with zeros': 1, 'scalar': 1})       # by query number in the runner
    # every ordering name of the source must be known to the generator and drawn (constructor or ordering() or setter)
    chain = {'Chain': ['Chain', 'SimpleLattice', 'Lattice'], 'Square': ['Lattice'], 'Triangular': ['Lattice']}
    for cls in ('Chain', 'Ladder', 'NLegLadder', 'Square', 'Triangular', 'Honeycomb', 'Kagome', 'Lattice', 'Trivial'):
        src = set()
        for k in chain.get(cls, [cls, 'Lattice']):
            src |= order_names.get(k, set())
        src -= {'standard', 'grouped'}
        src = {n for n in src if (cls, n) not in ORDER_NAME_EXCLUDED}
        known = set(named_orders(cls))
        for n in sorted(src - known):
            problems.append('ordering name %r of %s.ordering in the source is not among the orderings the generator draws' % (n, cls))
        for n in sorted(known):
            tot = sum(c[k]['%s:%s' % (cls, n)] for k in ('order (constructor)', 'order (ordering() query)', 'order (setter after use)'))
            if tot == 0 and c['class'][cls]:
                problems.append('ordering %r of %s was never drawn in this run' % (n, cls))
    for key, need in (('bc form', ['one string', 'list']), ('bc_MPS', ['finite', 'infinite', 'segment']),
                      ('wrap', ['none', 'multi', 'irregular', 'helical']),
                      ('transform', ['enlarge_mps_unit_cell(f>1)', 'extract_segment(enlarge=f>1)', 'extract_segment(first>0, last)']),
                      ('options', ['position_disorder', 'basis / positions given', 'boundary_conditions set from its getter',
                                   'SimpleLattice: positions as one vector', 'one entry instead of a list of sites'])):
        for n in need:
            if c[key][n] == 0:
                problems.append('option %s = %s was never drawn in this run' % (key, n))
    return {k: dict(sorted(v.items())) for k, v in c.items()}, problems
