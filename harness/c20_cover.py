"""C20 coverage audit: measured coverage table of the anchored tenpy code + the streams that close the gaps.

Every runner process (harness/impl/c20_impl.py) records with sys.monitoring which lines of
tenpy/tools/{cache,thread,events}.py it executed and reflects the public API (classes of __all__, their public
methods incl. the dict mixins a DictCache inherits, their parameters).  absorb() merges this per stream; table()
turns it into the evidence entry `api_coverage` and raises a correspondence failure when a public name or
parameter is neither reached / drawn nor classified as excluded (so that an addition to the API cannot escape
silently).
"""
import common

_FUNCS = {}        # 'cache::DictCache.get' -> {'n': lines, 'missed': {line: text} (missed by every runner), 'streams': {stream: max hit}}
_API = {}


def absorb(stream, res):
    """res: the list a runner returned; removes and merges the trailing coverage record.  Returns res."""
    if not res or not isinstance(res[-1], dict) or '__cov__' not in res[-1]:
        return res
    blob = res.pop()
    for k, f in blob['__cov__'].items():
        e = _FUNCS.setdefault(k, {'n': f['n'], 'missed': None, 'streams': {}, 'first': f['first']})
        missed = {l: t for l, t in f['missed']}
        e['missed'] = missed if e['missed'] is None else {l: t for l, t in e['missed'].items() if l in missed}
        if f['hit']:
            e['streams'][stream] = max(e['streams'].get(stream, 0), f['hit'])
    if blob.get('api'):
        _API.update(blob['api'])
    return res


def summary():
    n = sum(f['n'] for f in _FUNCS.values())
    missed = sum(len(f['missed'] or {}) for f in _FUNCS.values())
    return {'functions': len(_FUNCS), 'functions_reached': sum(1 for f in _FUNCS.values() if f['streams'] or f['n'] == 0),
            'lines': n, 'lines_reached': n - missed}


def missed_lines():
    out = {}
    for k, f in sorted(_FUNCS.items()):
        if f['missed']:
            out[k] = ['%d: %s' % (l, t) for l, t in sorted(f['missed'].items())]
    return out


K_H5SG = 'C20:Hdf5Storage.open:existing-subgroup-TypeError'


def _run(ctx, kind, stream, cases, threads, deadline=20):
    """run cases in up to 6 runner processes; returns the list of results (None where a runner failed)"""
    nproc = min(6, max(1, len(cases) // 12))
    chunks = [cases[i::nproc] for i in range(nproc)]
    payloads = [{'kind': kind, 'cases': ch, 'threads': threads, 'deadline': deadline} for ch in chunks if ch]
    res = common.run_impl_parallel('c20_impl.py', payloads, extra_env={'C20_TMP': common.scratch()}, timeout=900)
    results = [None] * len(cases)
    for i, (r, err) in enumerate(res):
        if err:
            ctx.fail('correspondence', '%s runner failed: %s' % (stream, err[-500:]), None)
            continue
        absorb(stream, r)
        for j, x in enumerate(r):
            results[i + j * nproc] = x
    # a missed deadline on a busy machine is not a deadlock: such a case is run again alone
    again = [i for i, x in enumerate(results) if x is not None and (x.get('hang') or x.get('done') is False) and 'runner_error' not in x]
    if again and kind != 'evapi':
        ctx.notes.append('%s: %d case(s) missed the deadline and were re-run alone' % (stream, len(again)))
        pl = [{'kind': kind, 'cases': [cases[i]], 'threads': 1, 'deadline': 90} for i in again[:20]]
        res2 = common.run_impl_parallel('c20_impl.py', pl, extra_env={'C20_TMP': common.scratch()}, timeout=300, maxpar=4)
        for i, (r, err) in zip(again, res2):
            if not err and r:
                absorb(stream, r)
                results[i] = r[0]
    return results


# ==========================================================================================
# CacheFile.open options x every way of closing, observed on the file system
# ==========================================================================================

ENDS = ('close', 'exit', 'with', 'with-exc', 'enter-exit')


def open_option_space():
    """the documented options of CacheFile.open / PickleStorage.open / Hdf5Storage.open, as a product"""
    space = []
    for how in ('open', 'DictCache.trivial', 'CacheFile.trivial'):
        space.append(('Storage', {'how': how}, False))
    space.append(('Storage', {'how': 'open', 'storage_class_default': True}, False))
    space.append(('Storage', {'how': 'open', 'delete': False}, False))
    for loc in ('tmpdir', 'directory'):
        for delete in (True, False, None):
            for thr in (False, True):
                o = {'how': 'open', 'loc': loc}
                if delete is not None:
                    o['delete'] = delete
                if loc == 'directory' and delete is None:
                    o['pathlib'] = True
                space.append(('PickleStorage', o, thr))
    for loc in ('tmpdir', 'filename'):
        for delete in (True, False):
            for thr in (False, True):
                for sg, mode in ((None, None), ('grp', None), (None, 'w'), ('grp', 'a'), (None, 'x'), (None, 'w-')):
                    o = {'how': 'open', 'loc': loc, 'delete': delete}
                    if sg:
                        o['subgroup'] = sg
                    if mode:
                        o['mode'] = mode
                    space.append(('Hdf5Storage', o, thr))
    return space


def gen_open_cases(ctx, boost):
    import c20
    rng = ctx.rng
    cases = []
    space = open_option_space()
    reps = ctx.pick(1, 6) * boost
    for rep in range(reps):
        for i, (st, o, thr) in enumerate(space):
            # quick tier: every option tuple once, the way of ending cycles through ENDS (each pair within 5 seeds /
            # option neighbours); thorough: several times with a random ending
            end = ENDS[(i + rep + ctx.seed) % len(ENDS)] if rep < len(ENDS) else rng.choice(ENDS)
            # (close=True: with probability 1/2 the body itself closes the cache, goes on and closes again)
            plain = o.get('how') == 'DictCache.trivial'     # a plain DictCache: no close(), no context manager
            ops = c20.gen_cache_ops(rng, rng.randint(2, ctx.pick(9, 20)), threaded=thr, close=rng.random() < 0.3 and not plain)
            if plain:
                end = 'close'
            c = {'storage': st, 'open': dict(o), 'end': end, 'ops': ops}
            if st != 'Storage':
                c['threading'] = thr if (thr or rng.random() < 0.5) else None
                if thr:
                    c['max_queue_size'] = rng.choice([None, 1, 2, 3])
                    if rng.random() < 0.5:
                        c['jitter'] = rng.randint(1, 10 ** 6)
            c['probe'] = [[ci, k] for ci in range(1 + sum(1 for x in ops if x[0] == 'sub')) for k in range(2)]
            # a second session on what a closed cache with delete=False left behind
            if st == 'Hdf5Storage' and o['loc'] == 'filename' and o.get('delete') is False:
                def ops2():
                    x2 = c20.gen_cache_ops(rng, rng.randint(2, 8), threaded=thr, close=False)
                    return [[x[0], x[1], x[2].upper() + str(len(cases))] if x[0] == 'sub' else x for x in x2]   # (the old sub-groups exist)
                nre = len([1 for x in cases if x.get('reopen')])
                # second session: append to the same (sub)group; third: the other modes / groups in turn
                c['reopen'] = [{'open': dict(o, mode='a', delete=False), 'end': rng.choice(ENDS), 'ops': ops2()},
                               {'open': dict(o, mode=('r+', 'w', 'w-', 'a')[nre % 4], delete=True,
                                             subgroup=(o.get('subgroup'), 'other', None)[nre % 3]),
                                'end': rng.choice(ENDS), 'ops': [[x[0], x[1], x[2] + 'x'] if x[0] == 'sub' else x for x in ops2()]}]
            if st == 'PickleStorage' and o['loc'] == 'directory' and o.get('delete') is False:
                c['reopen'] = [{'open': dict(o, delete=True), 'end': 'close', 'ops': []}]
            cases.append(c)
    # ThreadedStorage around the in-memory Storage is refused
    cases.append({'storage': 'Storage', 'open': {'how': 'open'}, 'threading': True, 'end': 'close', 'ops': [['set', 0, 0, 1]]})
    return cases


def open_oracle(case, r):
    """Returns a list of (problem, match_key).  Written from the docstrings of CacheFile.open, PickleStorage.open,
    Hdf5Storage.open and CacheFile.close: delete=True removes what open() created, delete=False keeps it (and, without
    the worker thread, it holds exactly the dict); nothing stays open; every way of ending closes."""
    import c20
    bad = []
    sessions = [case] + [dict(case, **s) for s in case.get('reopen', [])]
    if len(r.get('sessions', [])) != len(sessions):
        return [('%d sessions ran, expected %d' % (len(r.get('sessions', [])), len(sessions)), None)]
    kept = False            # something of an earlier session is still on disk
    kept_groups = set()
    for n, (sess, sr) in enumerate(zip(sessions, r['sessions'])):
        o = sess['open']
        st = sess['storage']
        thr = bool(sess.get('threading'))
        tag = 'session %d (%s%s, open options %s, ended by %s): ' % (n, st, ', threaded' if thr else '', o, sess.get('end'))
        how = o.get('how', 'open')
        # ---- open
        want_open = 'ok'
        key = None
        if st == 'Storage' and thr:
            want_open = 'ValueError'
        elif n > 0 and st == 'PickleStorage':
            want_open = 'FileExistsError'          # "Name of a directory to be created"
        elif n > 0 and o.get('mode') in ('w-', 'x') and kept:
            want_open = 'FileExistsError'
        elif n > 0 and o.get('mode') in ('a', 'r+') and o.get('subgroup') in kept_groups and o.get('subgroup'):
            key = K_H5SG            # the group exists already: `subgroup[f]` instead of `f[subgroup]`
        if sr['open'][0] == 'exc':
            if want_open == 'ok':
                bad.append((tag + 'open raised %s' % sr['open'][1:], key if sr['open'][1] == 'TypeError' else None))
                break       # (the failed open may have left the file open: later sessions are not judged)
            elif sr['open'][1] != want_open and not (want_open == 'FileExistsError' and sr['open'][1] in ('OSError', 'BlockingIOError')):
                bad.append((tag + 'open raised %s, expected %s' % (sr['open'][1:], want_open), None))
            if sr.get('fds_after') and key is None:
                bad.append((tag + 'a failed open left file descriptors open: %s' % sr['fds_after'][:3], None))
            continue
        if want_open != 'ok':
            bad.append((tag + 'open succeeded, expected %s' % want_open, None))
            continue
        closable = how != 'DictCache.trivial'
        want_types = {'DictCache.trivial': 'DictCache'}.get(how, 'CacheFile'), ('ThreadedStorage' if thr else st)
        if tuple(sr['open'][1:]) != want_types:
            bad.append((tag + 'open gave %s, expected %s' % (sr['open'][1:], want_types), None))
        # ---- the operations against a dict
        c2 = {'storage': st, 'threading': thr, 'ops': sess['ops']}
        what, k2, _ = c20.cache_oracle(c2, {'out': sr['out']})
        if what:
            bad.append((tag + what, k2))
        if len(sr['out']) != len(sess['ops']):
            bad.append((tag + '%d outputs for %d operations' % (len(sr['out']), len(sess['ops'])), None))
        closed_in_body = any(x[0] == 'close' for x in sess['ops']) and closable
        # ---- the end
        end = sess.get('end', 'close')
        if not closable:
            want_end = ['none'] if end in ('with', 'with-exc') else ['no-close']
            # a plain DictCache is no context manager
            if end in ('with', 'with-exc'):
                want_end = ['exc', 'TypeError']
        elif closed_in_body:
            want_end = ['exc', 'ValueError']
        else:
            want_end = ['sentinel'] if end == 'with-exc' else ['none']
        if end == 'with-exc' and closable and closed_in_body:
            want_end = ['exc', 'ValueError']        # raised by __exit__ while the body's exception propagates
        if sr.get('end', ['missing'])[:len(want_end)] != want_end:
            bad.append((tag + 'ending gave %s, expected %s' % (sr.get('end'), want_end), None))
        if sr.get('enter_is_self') is False:
            bad.append((tag + '__enter__ did not return the cache itself', None))
        if not closable:
            continue
        if not sr.get('storage_same', True):
            bad.append((tag + '__enter__ replaced long_term_storage by another object', None))
        if any(sr.get('bool_after', [])):
            bad.append((tag + 'bool(cache) after the end: %s (index = cache, 0 = top)' % sr.get('bool_after'), None))
        if sr.get('short_term_after', [0])[0]:
            bad.append((tag + 'the closed CacheFile still holds %d short-term value(s)' % sr['short_term_after'][0], None))
        for (ci, k), po in zip(sess.get('probe', []), sr.get('probe_after', [])):
            if ci == 0 and po[0] == 'val':
                bad.append((tag + 'cache[k%d] returned %s after the cache was closed' % (k, po), None))
        if sr.get('second_close') != ['exc', 'ValueError']:
            bad.append((tag + 'close() of the closed cache gave %s, expected ValueError' % sr.get('second_close'), None))
        if sr.get('worker_alive_after'):
            bad.append((tag + 'the worker thread is alive after the end', None))
        if sr.get('fds_after'):
            bad.append((tag + 'file descriptors below the cache location still open: %s' % sr['fds_after'][:3], None))
        # ---- the file system
        if st == 'Storage':
            continue
        delete = o.get('delete', True)
        fs = sr.get('fs_after', [])
        top = sr.get('top')
        if delete:
            # delete=True: "delete the opened file/directory after closing the cache"
            if fs:
                bad.append((tag + 'delete=True, but after the end the location still holds %s' % fs[:4], None))
            kept = False
            kept_groups = set()
        else:
            if top is None or not any(x.rstrip('/') == top for x in fs):
                bad.append((tag + 'delete=False, but %r is gone after the end (left: %s)' % (top, fs[:4]), None))
                continue
            kept = True
            if st == 'Hdf5Storage':
                kept_groups.add(o.get('subgroup'))
            da = sr.get('disk_after')
            if (da is None or (da and da[0] == 'exc')) and not bad:
                bad.append((tag + 'what delete=False left behind cannot be read: %s' % (da,), None))
            elif not thr and not what and sr.get('end', [''])[0] in ('none', 'sentinel'):
                orc = c20.CacheOracle(c2)
                for op, out in zip(sess['ops'], sr['out']):
                    orc.step(op, out)
                for ci, (path, files, exists) in enumerate(da):
                    want = sorted(orc.d[ci].items()) if ci < len(orc.d) else []
                    got = [tuple(x) for x in files]
                    if n == 0 and got != want and exists:
                        bad.append((tag + 'delete=False: cache %d (%s) left %s on disk, the dict holds %s' % (ci, '/'.join(path), got, want), None))
                    if n > 0 and not set(want) <= set(got):
                        bad.append((tag + 'delete=False: cache %d left %s on disk, the dict holds %s' % (ci, got, want), None))
                    if not exists:
                        bad.append((tag + 'delete=False: the location of sub-cache %s is gone' % '/'.join(path), None))
    return bad


def stream_openopts(ctx, boost, only=None):
    cases = gen_open_cases(ctx, boost) if only is None else list(only)
    results = _run(ctx, 'openopts', 'cache-open', cases, 4)
    reached = ctx.cov.setdefault('open_options_reached', {})
    for case, r in zip(cases, results):
        if r is None:
            continue
        replay = {'stream': 'cache-open', 'case': case, 'impl': r.get('sessions')}
        if 'runner_error' in r:
            ctx.fail('correspondence', 'cache-open runner: ' + r['runner_error'][-500:], replay)
            continue
        ctx.count('cache-open', case, nontrivial=len(case['ops']) >= 2, sample={'case': case, 'sessions': r.get('sessions')})
        o = case['open']
        relevant = {'Storage': ('how', 'delete', 'storage_class_default'), 'PickleStorage': ('loc', 'delete', 'pathlib'),
                    'Hdf5Storage': ('loc', 'delete', 'mode', 'subgroup')}[case['storage']]
        for k in relevant:
            key = '%s %s=%s' % (case['storage'], k, o.get(k, '<default>'))
            reached[key] = reached.get(key, 0) + 1
        for s2 in case.get('reopen', []):
            key = '%s second session mode=%s' % (case['storage'], s2['open'].get('mode', '<default>'))
            reached[key] = reached.get(key, 0) + 1
        for key in ('end=%s' % case.get('end'), 'use_threading=%s' % case.get('threading', '<default>'),
                    'max_queue_size=%s' % case.get('max_queue_size', '<default>'), 'reopen=%s' % bool(case.get('reopen'))):
            reached[key] = reached.get(key, 0) + 1
        if r.get('hang') or not r.get('done'):
            ctx.fail('oracle', 'cache-open: deadlock detector: %s' % r.get('hang', 'case did not finish'), replay)
            continue
        for what, key in open_oracle(case, r)[:3]:
            ctx.fail('oracle', 'cache-open: ' + what, replay, match_key=key)


# ==========================================================================================
# Worker used directly
# ==========================================================================================

FVAL = {'add': lambda a, b: a + b, 'mul': lambda a, b: a * b, 'sleep': lambda a, b: a - b, 'slow': lambda a, b: a - b}


def gen_worker_case(rng, n):
    c = {'max_queue_size': rng.choice([None, 0, 1, 1, 2, 3]), 'daemon': rng.choice([None, None, True, False]),
         'name': rng.choice([None, None, 'w-%d' % rng.randrange(100)]), 'enter': rng.choice(['with', 'with', 'with-exc', 'manual'])}
    if c['daemon'] is None and rng.random() < 0.3:
        c['positional'] = True
    before = []
    if rng.random() < 0.3:
        before = [rng.choice([['put', 'add', 1, 2, 'args', None], ['join'], ['exit'], ['alive']]) for _ in range(rng.randint(1, 2))]
    c['before'] = before
    ops = []
    if c['enter'] == 'manual':
        ops.append(['enter'])
    fail = rng.random() < 0.35
    for _ in range(n):
        r = rng.random()
        if r < 0.6:
            fn = rng.choice(['add', 'mul', 'sleep', 'sleep'])
            if fail and rng.random() < 0.2:
                fn = 'raise'
            ops.append(['put', fn, rng.randint(0, 9), rng.randint(0, 9), rng.choice(['args', 'kwargs', 'mixed']),
                        rng.choice([None, 0, 1, 2, 2, -1])])
        elif r < 0.85:
            ops.append(['join'])
        elif r < 0.9:
            ops.append(['enter'])
        elif r < 0.95:
            ops.append(['alive'])
        else:
            ops.append(['exit'])
    c['ops'] = ops
    c['after'] = [rng.choice([['put', 'add', 1, 2, 'args', 0], ['join'], ['enter'], ['exit'], ['alive']]) for _ in range(rng.randint(0, 3))]
    return c


WORKER_DIRECTED = [
    # the caller waits longer than the 1 s time-out of Queue.put on a full queue: put_task must keep trying
    {'max_queue_size': 1, 'enter': 'with', 'before': [], 'after': [],
     'ops': [['put', 'slow', 5, 0, 'args', 0], ['put', 'add', 1, 2, 'args', 1], ['put', 'add', 3, 4, 'kwargs', 2], ['join']]},
    # the worker dies while the caller sits in put() on a full queue
    {'max_queue_size': 1, 'enter': 'with', 'before': [], 'after': [['join'], ['put', 'add', 1, 1, 'args', 0]],
     'ops': [['put', 'slowraise', 5, 0, 'args', 0], ['put', 'add', 1, 2, 'args', 1], ['put', 'add', 3, 4, 'args', 2], ['join']]},
    {'max_queue_size': 2, 'enter': 'manual', 'before': [['put', 'add', 1, 2, 'args', 0], ['join']], 'after': [['enter'], ['join']],
     'ops': [['enter'], ['enter'], ['put', 'add', 1, 2, 'kwargs', -1], ['join'], ['exit'], ['exit'], ['put', 'add', 1, 2, 'args', 0]]},
]


def worker_oracle(case, r):
    """sequential specification of the class docstring: tasks run once, in the order of put_task, results land in
    return_dict[return_key]; after join_tasks everything put before is done; a failing task ends the worker and every
    later put_task / join_tasks raises WorkerDied (possibly not the very next one: the flag is set by the dying
    thread); __exit__ ends the thread; not started: ValueError; started twice: ValueError."""
    out = r['out']
    prog = [('before', o) for o in case.get('before', [])] + [('ops', o) for o in case['ops']] + [('after', o) for o in case.get('after', [])]
    if len(out) != len(prog):
        return '%d outputs for %d operations' % (len(out), len(prog))
    style = case.get('enter', 'with')
    entered = False     # __enter__ was called
    ended = False       # the thread was told to end (__exit__ after __enter__, or the with block was left)
    sub = []            # submitted tasks in order: (fn, a, b, ret)
    failed = None       # index in sub of the first failing task
    prev_phase = 'before'
    for t, ((phase, op), o) in enumerate(zip(prog, out)):
        if style != 'manual':
            if phase == 'ops' and prev_phase == 'before':
                entered = True
            if phase == 'after':
                entered, ended = True, True
        prev_phase = phase
        where = 'step %d %r: ' % (t, op)
        if op[0] == 'enter':
            want = ['exc', 'ValueError'] if entered else ['entered', True]
            entered = True
            if o[:2] != want:
                return where + 'gave %s, expected %s' % (o, want)
            continue
        if op[0] == 'alive':
            want = entered and not ended
            if o != ['alive', want] and failed is None:
                return where + 'gave %s, expected %s' % (o, ['alive', want])
            continue
        if op[0] == 'exit':
            if o[:1] != ['exited'] or o[1] or o[2]:
                return where + 'gave %s, expected a falsy return value and a terminated thread' % (o,)
            if entered:
                ended = True
            continue
        started, over = entered, ended
        # put / join
        if not started:
            if not (o[0] == 'exc' and o[1] == 'ValueError'):
                return where + 'on a worker that was never started gave %s, expected ValueError' % (o,)
            continue
        if over:
            if not (o[0] == 'exc' and o[1] == 'WorkerDied'):
                return where + 'after the worker was ended gave %s, expected WorkerDied' % (o,)
            continue
        if op[0] == 'put':
            if o == ['none']:
                sub.append(tuple(op[1:4]) + (op[5],))
                if op[1] in ('raise', 'slowraise') and failed is None:
                    failed = len(sub) - 1
            elif failed is not None and o[0] == 'exc' and o[1] == 'WorkerDied':
                pass
            else:
                return where + 'gave %s%s' % (o, '' if failed is None else ' (a task failed before)')
            continue
        # join
        if o[0] == 'exc':
            if failed is None or o[1] != 'WorkerDied':
                return where + 'raised %s%s' % (o[1:], ' although no task failed' if failed is None else '')
            continue
        done = len(sub) if failed is None else failed + 1
        bad = _check_done(sub, done, o[1], o[2], exact=failed is None)
        if bad:
            return where + bad
    if r.get('alive_end'):
        return 'the worker thread is still alive after __exit__'
    if r.get('final_exit') != 'ok':
        return 'the final __exit__ raised %s' % r.get('final_exit')
    want_with = {'with': 'none', 'with-exc': 'sentinel'}.get(case.get('enter', 'with'))
    if r.get('with_end') != want_with:
        return 'the with statement ended with %s, expected %s' % (r.get('with_end'), want_with)
    if r.get('enter_is_self') is False:
        return '__enter__ did not return the worker'
    bad = _check_done(sub, len(sub) if failed is None else failed + 1, r['results_end'], r['log_end'], exact=False)
    if bad:
        return 'at the end: ' + bad
    name = case.get('name') or 'tenpy worker'
    if r.get('name_attr') != name or r.get('thread_name') != name:
        return 'name: attribute %r, thread %r, expected %r' % (r.get('name_attr'), r.get('thread_name'), name)
    if r.get('maxsize') != (case.get('max_queue_size') or 0):
        return 'queue maxsize %r, expected %r' % (r.get('maxsize'), case.get('max_queue_size') or 0)
    if case.get('daemon') is not None and not case.get('positional') and r.get('thread_daemon') != case['daemon']:
        return 'thread daemon flag %r, expected %r' % (r.get('thread_daemon'), case['daemon'])
    return None


def _check_done(sub, done, results, log, exact):
    """log must be the first tasks in the order of submission (all `done` of them when exact), results what they returned"""
    if log != list(range(len(log))):
        return 'tasks ran in the order %s, submitted in the order 0, 1, 2, ...' % log
    if len(log) > done or (exact and len(log) != done):
        return '%d task(s) ran, expected %s%d' % (len(log), '' if exact else 'at most ', done)
    want = {}
    for i in log:
        fn, a, b, ret = sub[i]
        if ret is not None and fn in FVAL:
            want['None' if ret == -1 else 'r%d' % ret] = FVAL[fn](a, b)
    got = dict((k, v) for k, v in results)
    if got != want:
        return 'return_dict holds %s, expected %s' % (sorted(got.items()), sorted(want.items()))
    return None


def gen_worker_cases(ctx, boost):
    rng = ctx.rng
    cases = [dict(c) for c in WORKER_DIRECTED]
    cases += [gen_worker_case(rng, rng.randint(2, ctx.pick(10, 25))) for _ in range(ctx.pick(150, 1500) * boost)]
    return cases


def stream_worker(ctx, boost, only=None):
    cases = gen_worker_cases(ctx, boost) if only is None else list(only)
    results = _run(ctx, 'worker', 'worker', cases, 8)
    for case, r in zip(cases, results):
        if r is None:
            continue
        replay = {'stream': 'worker', 'case': case, 'impl': r.get('out'), 'end': {k: r.get(k) for k in ('log_end', 'results_end', 'alive_end')}}
        if 'runner_error' in r:
            ctx.fail('correspondence', 'worker runner: ' + r['runner_error'][-500:], replay)
            continue
        ctx.count('worker', case, nontrivial=any(o[0] == 'join' for o in case['ops']) and any(o[0] == 'put' for o in case['ops']),
                  sample={'case': case, 'out': r.get('out')})
        if r.get('hang') or not r.get('done'):
            ctx.fail('oracle', 'worker: deadlock detector: %s' % r.get('hang', 'case did not finish'), replay)
            continue
        bad = worker_oracle(case, r)
        if bad:
            ctx.fail('oracle', 'Worker (max_queue_size=%s): %s' % (case.get('max_queue_size'), bad), replay)


# ==========================================================================================
# EventHandler: several handlers, all forms of connect
# ==========================================================================================

HOWS = ('direct', 'direct', 'kw', 'kwargs', 'decorator', 'plain-decorator', 'byname', 'byname-kw', 'byname-default')


def gen_evapi(rng, n):
    ops = []
    nh = 1
    nconn = [0]
    if rng.random() < 0.3:
        ops.append([rng.choice(['last_id', 'emit', 'emit_until', 'descr']), 0] + [])
        if ops[-1][0] in ('emit', 'emit_until'):
            ops[-1] += [3, False]
    for _ in range(n):
        h = rng.randrange(nh)
        r = rng.random()
        if r < 0.38 or nconn[h] == 0:
            ops.append(['connect', h, rng.choice([0, 0, 1, 2, -1, 5]), rng.choice([None, None, None, 0, 3, 4]), rng.choice(HOWS)])
            nconn[h] += 1
        elif r < 0.55:
            ops.append(['disconnect', h, rng.randint(0, nconn[h])])
        elif r < 0.70:
            ops.append(['emit', h, rng.randint(0, 9), rng.random() < 0.4])
        elif r < 0.82:
            ops.append(['emit_until', h, rng.randint(0, 9), rng.random() < 0.4])
        elif r < 0.92 and nh < 4:
            ops.append(['copy', h])
            nconn.append(nconn[h])
            nh += 1
        elif r < 0.97:
            ops.append(['last_id', h])
        else:
            ops.append(['descr', h])
    return ops


def evapi_oracle(case, r):
    """plain list of listeners per handler, from the docstrings.  Returns (problem or None, per-handler linear histories
    in the format of the stream `events` for Model/Events.v)."""
    ops, out = case['ops'], r['out']
    if len(out) != len(ops):
        return 'runner returned %d outputs for %d operations' % (len(out), len(ops)), []
    conn = [[]]         # per handler: [id, prio, ret, extra]
    nid = [0]
    hist = [[]]
    descr = case.get('descr')
    bad = None
    for t, (op, o) in enumerate(zip(ops, out)):
        kind, h = op[0], op[1]
        st = o[-1]
        c = conn[h]
        if o[0] == 'exc' and not (kind == 'last_id' and nid[h] == 0):
            return 'step %d %r raised %s' % (t, op, o[1:3]), []
        if kind == 'connect':
            _, _, prio, ret, how = op
            if how in ('plain-decorator', 'byname-default'):
                prio = 0
            if how == 'byname-default':
                ret = None
            if o[1] != nid[h]:
                return 'step %d: connect handed out id %r, expected the fresh id %d' % (t, o[1], nid[h]), []
            c.append([nid[h], prio, ret, 7 if how in ('kwargs', 'byname-kw') else 0])
            nid[h] += 1
            hist[h].append((['connect', prio, ret, 'direct'], o))
        elif kind == 'disconnect':
            present = any(x[0] == op[2] for x in c)
            conn[h] = c = [x for x in c if x[0] != op[2]]
            if st['warned'] != (not present):
                return 'step %d: disconnect(%d): warning %s, expected %s' % (t, op[2], st['warned'], not present), []
            hist[h].append((['disconnect', op[2]], o))
        elif kind in ('emit', 'emit_until'):
            order = sorted(c, key=lambda x: (-x[1], x[0]))
            if kind == 'emit':
                want = ['emit', [x[0] for x in order], [x[2] for x in order], [op[2]] * len(order), [x[3] for x in order]]
            else:
                called, result = [], None
                for x in order:
                    called.append(x)
                    if x[2] is not None:
                        result = x[2]
                        break
                want = ['emit_until', [x[0] for x in called], result, [op[2]] * len(called), [x[3] for x in called]]
            if o[:-1] != want:
                return 'step %d: %s on handler %d gave %s, expected %s' % (t, kind, h, o[:-1], want), []
            hist[h].append(([kind, op[2]], o if kind == 'emit' else [o[0], o[1], o[2], o[-1]]))
        elif kind == 'copy':
            if o[:-1] != ['copied', True, True]:
                return 'step %d: copy() gave (new object and list, same arg_descr) = %s' % (t, o[1:-1]), []
            conn.append([list(x) for x in c])
            nid.append(nid[h])
            hist[h].append((['copy'], ['copied', st]))
            hist.append(list(hist[h]))
        elif kind == 'last_id':
            want = ['exc', 'ValueError'] if nid[h] == 0 else ['last_id', nid[h] - 1]
            if o[:2] != want:
                return 'step %d: id_of_last_connected of handler %d gave %s, expected %s' % (t, h, o[:2], want), []
        elif kind == 'descr':
            if o[:2] != ['descr', descr]:
                return 'step %d: arg_descr %r, expected %r' % (t, o[1], descr), []
        if sorted(st['ids']) != sorted(x[0] for x in conn[h]):
            return 'step %d %r: handler %d has the listeners %s, expected %s' % (t, op, h, sorted(st['ids']), sorted(x[0] for x in conn[h])), []
    for h, f in enumerate(r.get('final', [])):
        if sorted(f['ids']) != sorted(x[0] for x in conn[h]) or f['counter'] != nid[h]:
            return ('at the end handler %d has the listeners %s and the id counter %d, expected %s and %d (operations on a copy '
                    'or on the original leaked into the other)' % (h, sorted(f['ids']), f['counter'], sorted(x[0] for x in conn[h]), nid[h])), []
    return bad, hist


def gen_evapi_cases(ctx, boost):
    rng = ctx.rng
    return [{'ops': gen_evapi(rng, rng.randint(4, ctx.pick(16, 40))), 'descr': rng.choice([None, 'x', ''])}
            for _ in range(ctx.pick(300, 6000) * boost)]


def stream_all(ctx, boost):
    """the three streams of this file side by side (the cases are drawn first, in a fixed order, from ctx.rng)"""
    from concurrent.futures import ThreadPoolExecutor
    ev, wk, op = gen_evapi_cases(ctx, boost), gen_worker_cases(ctx, boost), gen_open_cases(ctx, boost)
    with ThreadPoolExecutor(max_workers=3) as ex:
        futs = [ex.submit(stream_evapi, ctx, boost, ev), ex.submit(stream_worker, ctx, boost, wk), ex.submit(stream_openopts, ctx, boost, op)]
        for f in futs:
            f.result()


def stream_evapi(ctx, boost, only=None):
    import c20
    cases = gen_evapi_cases(ctx, boost) if only is None else list(only)
    results = _run(ctx, 'evapi', 'events-api', cases, 1)
    coq_cases, meta = [], []
    hows = ctx.cov.setdefault('events_connect_forms', {})
    for case, r in zip(cases, results):
        if r is None:
            continue
        replay = {'stream': 'events-api', 'case': case, 'impl': r.get('out')}
        if 'runner_error' in r:
            ctx.fail('correspondence', 'events-api runner: ' + r['runner_error'][-500:], replay)
            continue
        ops = case['ops']
        for o in ops:
            if o[0] == 'connect':
                hows[o[4]] = hows.get(o[4], 0) + 1
        ctx.count('events-api', case, nontrivial=sum(o[0] == 'connect' for o in ops) >= 2 and any(o[0] in ('emit', 'emit_until') for o in ops),
                  sample={'case': case, 'out': [o[:-1] for o in r['out']]})
        bad, hist = evapi_oracle(case, r)
        if bad:
            ctx.fail('oracle', 'EventHandler: ' + bad, replay)
            continue
        for hl in hist:
            if hl:
                coq_cases.append(c20.ev_coq_case([a for a, _ in hl], {'out': [b for _, b in hl]}))
                meta.append(replay)
    bad, err = common.coq_failing_indices('cases_c20_evapi', ['Base.Prelude', 'Model.Events'], 'check_events', coq_cases, shard=3000)
    if err:
        ctx.fail('correspondence', 'Model/Events.v evaluation failed (events-api): ' + err[-600:], None)
    for b in bad[:5]:
        ctx.fail('correspondence', 'Model/Events.v and EventHandler disagree on the history of one handler (events-api)', meta[b])
    ctx.cov['events_api_histories_validated_against_model'] = len(coq_cases)


# ==========================================================================================
# the coverage table
# ==========================================================================================

OPS_SEEN = {}       # DictCache-level operation kinds that were generated and judged (fed by c20.judge_cache_cases)

# dict mixins a DictCache inherits from collections.abc (not in the anchored files: not line-measured) -> operation kind
MIXIN_OPS = {'pop': 'pop', 'popitem': 'popitem', 'clear': 'clear', 'update': 'update', 'setdefault': 'setdefault',
             'keys': 'keys', 'items': 'items', 'values': 'items', '__ne__': None}

EXCLUDED_MEMBERS = {
    ('Mapping', '__eq__'): 'collections.abc.Mapping.__eq__ is dict(self.items()) == dict(other.items()): items() is covered; '
                           '== on stored numpy arrays has no truth value',
}
EXCLUDED_FUNCS = {
    '_NumpyStorage': 'private class (underscore, not in __all__): stores numpy arrays only; the property names memory, pickle files and HDF5',
    '_NpcArrayStorage': 'private class (underscore, not in __all__): stores npc Arrays only; the property names memory, pickle files and HDF5',
}
EXPECTED_UNREACHED_LINES = {
    'cache::ThreadedStorage.close': 'the early return for a ThreadedStorage that does not own the worker, i.e. close() called directly on a '
                                    'sub-container: Storage-level use the cache layer cannot produce (sub-caches have no close())',
    'cache::ThreadedStorage.__exit__': 'same as ThreadedStorage.close: only for a directly closed sub-container',
}

# every parameter with a default value (an option) -> where its values are drawn
OPTIONS = {
    ('DictCache', 'get', 'default'): 'cache ops `get`: given positionally, by keyword, left at None',
    ('DictCache', 'preload', 'raise_missing'): 'cache ops `preload`: False / True',
    ('MutableMapping', 'pop', 'default'): 'cache ops `pop`: with a default / without (KeyError)',
    ('MutableMapping', 'update', 'other'): 'cache ops `update`: a dict / a list of pairs / left out (keywords only)',
    ('MutableMapping', 'update', '**kwds'): 'cache ops `update`: keys as keyword arguments',
    ('CacheFile', 'open', 'storage_class'): 'Storage / PickleStorage / Hdf5Storage / default (all cache streams, cache-open)',
    ('CacheFile', 'open', 'use_threading'): 'False / True / default (cache, cache-threaded, sched-*, cache-open)',
    ('CacheFile', 'open', 'delete'): 'cache-open: True / False / default, judged on the file system',
    ('CacheFile', 'open', 'max_queue_size'): '1 / 2 / 3 / default (cache-threaded, cache-open); 0 at the Worker level (sched-*, worker)',
    ('CacheFile', 'open', '**storage_kwargs'): 'cache-open: directory (str, pathlib) / tmpdir for PickleStorage; filename / tmpdir / mode / subgroup for Hdf5Storage',
    ('Storage', 'open', 'delete'): 'cache-open: None (default) / True / False through CacheFile.open',
    ('PickleStorage', 'open', 'directory'): 'cache-open: None / a new path (str, pathlib.Path) / an existing directory (FileExistsError)',
    ('PickleStorage', 'open', 'tmpdir'): 'every stream gives tmpdir when directory is None (the harness must not write to /tmp)',
    ('PickleStorage', 'open', 'delete'): 'cache-open: True / False / default',
    ('Hdf5Storage', 'open', 'filename'): 'cache-open: None / a new file / an existing file (second session)',
    ('Hdf5Storage', 'open', 'subgroup'): 'cache-open: None / new group / existing group of a re-opened file',
    ('Hdf5Storage', 'open', 'mode'): "cache-open: default 'w-' / 'w' / 'a' / 'x'; second session 'a' / 'r+' / 'w' / 'w-'",
    ('Hdf5Storage', 'open', 'delete'): 'cache-open: True / False',
    ('Hdf5Storage', 'open', 'tmpdir'): 'every stream gives tmpdir when filename is None',
    ('ThreadedStorage', 'open', 'max_queue_size'): 'through CacheFile.open: 1 / 2 / 3 / default',
    ('Worker', '__init__', 'name'): 'worker: default / given (attribute and thread name compared)',
    ('Worker', '__init__', 'max_queue_size'): 'worker: default / 0 / 1 / 2 / 3; sched-*: 0 / 1 / 2 / 3',
    ('Worker', '__init__', 'daemon'): 'worker: None / True / False (thread flag compared)',
    ('Worker', 'put_task', '*args'): 'worker: positional / keyword / mixed arguments of the task',
    ('Worker', 'put_task', '**kwargs'): 'worker: positional / keyword / mixed arguments of the task',
    ('Worker', 'put_task', 'return_dict'): 'worker: None / a dict',
    ('Worker', 'put_task', 'return_key'): 'worker: default None / a key',
    ('EventHandler', '__init__', 'arg_descr'): "events-api: default None / '' / 'x' (compared after copy())",
    ('EventHandler', 'connect', 'callback'): 'events, events-api: given / None (decorator form)',
    ('EventHandler', 'connect', 'priority'): 'events, events-api: default / -1 / 0 / 1 / 2 / 5, positional and keyword',
    ('EventHandler', 'connect', 'extra_kwargs'): 'events, events-api: None / a dict (direct form; see the assumption on the decorator form)',
    ('EventHandler', 'connect_by_name', 'extra_kwargs'): 'events-api: None / a dict, positional and keyword',
    ('EventHandler', 'connect_by_name', 'priority'): 'events-api: default / given, positional and keyword',
    ('EventHandler', 'emit', '*args'): 'events, events-api: the argument positional',
    ('EventHandler', 'emit', '**kwargs'): 'events-api: the argument by keyword',
    ('EventHandler', 'emit_until_result', '*args'): 'events, events-api: the argument positional',
    ('EventHandler', 'emit_until_result', '**kwargs'): 'events-api: the argument by keyword',
    ('DictCache', 'set_short_term_keys', '*keys'): 'cache ops `short`: 0 - 3 keys',
    ('DictCache', 'preload', '*keys'): 'cache ops `preload`: 0 - 3 keys, repeated keys',
}
EXCLUDED_OPTIONS = {
    ('MutableMapping', 'setdefault', 'default'): 'setdefault(key) without a default stores None (standard library mixin); the harness '
                                                 'uses None as "absent" for get(key); always given',
}


def table(ctx):
    """evidence entry + correspondence failures for names that are neither reached nor classified"""
    if not _FUNCS or not _API:
        ctx.fail('correspondence', 'C20 coverage: no coverage record came back from the runners', None)
        return
    rows = {}
    problems = []
    n_items = n_reached = n_excl = n_opt = 0
    seen_defs = set()
    mod_of = {}
    for k in _FUNCS:
        mod, qn = k.split('::')
        mod_of[qn] = k
    for cname, members in sorted(_API.items()):
        for m, info in sorted(members.items()):
            if info.get('params') is None:
                continue                    # a plain attribute
            owner = info['defined_in']
            if (owner, m) in seen_defs:
                continue                    # inherited: counted where it is defined
            seen_defs.add((owner, m))
            n_items += 1
            row = {'params': info['params']}
            if (owner, m) in EXCLUDED_MEMBERS:
                row['excluded'] = EXCLUDED_MEMBERS[(owner, m)]
                n_excl += 1
            elif owner in ('MutableMapping', 'Mapping'):
                opk = MIXIN_OPS.get(m)
                cnt = OPS_SEEN.get(opk, 0)
                row['reached_by'] = {'cache ops `%s`' % opk: cnt}
                if opk is None or cnt == 0:
                    problems.append('%s.%s (dict mixin of DictCache) is neither exercised nor classified' % (owner, m))
                else:
                    n_reached += 1
            else:
                f = _FUNCS.get(mod_of.get('%s.%s' % (owner, m), ''))
                if f is None:
                    problems.append('%s.%s: no coverage record for this public name' % (owner, m))
                elif not f['streams'] and f['n'] > 0:
                    problems.append('%s.%s is public, is not classified as excluded and was never called' % (owner, m))
                else:
                    row['reached_by'] = f['streams']
                    row['lines'] = '%d/%d' % (f['n'] - len(f['missed'] or {}), f['n'])
                    n_reached += 1
            for p in info['params']:
                name, has_default = p
                if not has_default and not name.startswith('*'):
                    continue
                n_opt += 1
                if (owner, m, name) in OPTIONS:
                    row.setdefault('options', {})[name] = OPTIONS[(owner, m, name)]
                elif (owner, m, name) in EXCLUDED_OPTIONS:
                    row.setdefault('options', {})[name] = 'EXCLUDED: ' + EXCLUDED_OPTIONS[(owner, m, name)]
                elif (owner, m) in EXCLUDED_MEMBERS:
                    pass
                else:
                    problems.append('option %s of %s.%s is neither drawn by a generator nor classified' % (name, owner, m))
            rows['%s.%s' % (owner, m)] = row
    # functions of the anchored files outside the public classes (private classes, helpers)
    unreached_funcs = {}
    for k, f in sorted(_FUNCS.items()):
        qn = k.split('::')[1]
        if f['n'] and not f['streams']:
            reason = EXCLUDED_FUNCS.get(qn.split('.')[0])
            unreached_funcs[k] = reason or 'NOT CLASSIFIED'
            if reason is None and not any(p.startswith(qn.split('.<locals>')[0] + ' ') or (qn.split('.<locals>')[0] + ':') in p for p in problems):
                problems.append('%s has executable lines, is not classified as excluded and was never reached' % k)
    miss = {}
    for k, lines in missed_lines().items():
        qn = k.split('::')[1]
        reason = EXCLUDED_FUNCS.get(qn.split('.')[0]) or EXPECTED_UNREACHED_LINES.get(k)
        if reason and k in EXPECTED_UNREACHED_LINES and len(lines) > 1:
            reason = None
        miss[k] = {'lines': lines, 'classified': reason or 'NOT CLASSIFIED'}
        if reason is None:
            ctx.notes.append('coverage: lines of %s not reached in this run: %s' % (k, lines[:4]))
    sm = summary()
    ctx.cov['api_coverage'] = {
        'summary': dict(sm, public_items=n_items, public_items_reached=n_reached, public_items_excluded=n_excl,
                        options=n_opt, options_excluded=sum(1 for k in EXCLUDED_OPTIONS)),
        'items': rows, 'functions_never_reached': unreached_funcs, 'lines_not_reached': miss,
        'cache_operation_kinds': dict(sorted(OPS_SEEN.items())),
    }
    for p in problems[:8]:
        ctx.fail('correspondence', 'C20 coverage table: ' + p, None)
