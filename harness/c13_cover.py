"""Coverage table of C13: which public functions / methods of the anchored tenpy files, and which explicit branches inside them, were
executed by the runner processes of one `./check C13` run.

The items are enumerated from the SOURCE under the checked tree (ast + compile, no import): every function and method of the anchored
files (for networks/mpo.py and networks/mps.py only the environment classes), every `if` / `elif` / `else` / `for-else` / `except`
branch inside them.  The runner records executed lines (harness/impl/c13_cover_impl.py); an item is 'reached' when the first line of its
body was executed in at least one runner process.  Items outside the quantifier of the property are classified here, by name (and
for branches by function + text of the condition), with the reason; a PUBLIC name that is neither reached nor classified is a
correspondence failure (reported by harness/c13.py)."""
import ast
import os
import types

# file -> None (whole file) or the classes of it that are anchored
ANCHORED = {
    'tenpy/algorithms/dmrg.py': None,
    'tenpy/algorithms/mps_common.py': None,
    'tenpy/algorithms/vumps.py': None,
    'tenpy/algorithms/dmrg_parallel.py': None,
    'tenpy/networks/mpo.py': ['MPOEnvironment'],
    'tenpy/networks/mps.py': ['BaseEnvironment', 'MPSEnvironment'],
}
MODULES = ['tenpy.algorithms.dmrg', 'tenpy.algorithms.mps_common', 'tenpy.algorithms.vumps', 'tenpy.algorithms.dmrg_parallel',
           'tenpy.networks.mpo', 'tenpy.networks.mps']

# ---- classification of what is deliberately not exercised (reason from the property text: ground-state search with DMRG / VUMPS on
# finite and infinite chains; observed at E, psi of run())
_PLOT = 'plotting helper (matplotlib), no influence on the state or the energy returned by run()'
_VAR = 'variational MPS compression / MPO application (not a ground-state search; the property is about DMRG and VUMPS)'
_RES = 'resuming an interrupted run from a checkpoint (resume_data with sweeps / sweep_stats / mixer / orthogonal_to) is the subject of C18'
_SEG = "segment boundary conditions are outside the quantifier ('finite chains of 3-10 sites and infinite chains')"
EXCLUDED = {
    'DMRGEngine.plot_update_stats': _PLOT,
    'DMRGEngine.plot_sweep_stats': _PLOT,
    'DMRGEngine.update_segment_boundaries': _SEG,
    'OneSiteH.from_LP_W0_RP': 'constructor from explicit LP / W / RP: used by plane-wave excitations and ground_state_search helpers, not by the DMRG / VUMPS engines',
    'ZeroSiteH.from_LP_RP': 'constructor from explicit LP / RP: used by plane-wave excitations and ground_state_search helpers, not by the DMRG / VUMPS engines',
    'VariationalCompression': _VAR,
    'VariationalApplyMPO': _VAR,
    'QRBasedVariationalApplyMPO': _VAR,
    'DummyTwoSiteH': _VAR,
    'VUMPSEngine.resume_run': 'raises NotImplementedError by design (resuming is the subject of C18)',
    'VUMPSEngine._wrap_ortho_eff_H': 'raises NotImplementedError by design (no orthogonal_to for VUMPS)',
    'VUMPSEngine.lanczos_options': 'deprecated read-only alias of the attribute lanczos_params (the deprecated OPTION name lanczos_options is drawn)',
    'IterativeSweeps.resume_run': 'resuming an interrupted run is the subject of C18 (engine-restore stream there)',
    'DMRGEngine.get_resume_data': 'resume data are the subject of C18; here: init_env_data taken from get_resume_data of a finished run is '
                                  'covered through Sweep.get_resume_data',
    'EffectiveH.__init__': 'abstract prototype (raises NotImplementedError)',
    'EffectiveH.combine_theta': 'abstract prototype (raises NotImplementedError)',
    'EffectiveH.update_LP': 'prototype; every subclass used by the engines overrides it',
    'EffectiveH.update_RP': 'prototype; every subclass used by the engines overrides it',
    'Sweep.update_local': 'abstract prototype (raises NotImplementedError)',
    'Sweep.post_update_local': 'prototype; the DMRG / VUMPS engines override it without calling it',
    'IterativeSweeps.run_iteration': 'abstract prototype (raises NotImplementedError)',
    'IterativeSweeps.is_converged': 'abstract prototype (raises NotImplementedError)',
    'IterativeSweeps.status_update': 'prototype (logging only); the engines override it',
    'Mixer.mixed_svd_2site': 'abstract prototype (raises NotImplementedError; reached through SubspaceExpansion -> fallback of mix_and_decompose_2site)',
    'Mixer.mix_and_decompose_1site': 'abstract prototype (raises NotImplementedError)',
    'BaseEnvironment.expectation_value_terms_sum': 'expectation values of term lists (C12), not used by the engines',
    'BaseEnvironment._to_valid_index': 'deprecated alias, not used by the engines',
    'BaseEnvironment._update_gauge_LP': _SEG,
    'BaseEnvironment._update_gauge_RP': _SEG,
    'MPSEnvironment._get_bra_ket': 'expectation values <bra|op|ket> (C12), not used by the engines',
    'MPSEnvironment._normalize_exp_val': 'expectation values <bra|op|ket> (C12), not used by the engines',
    'MPSEnvironment._contract_with_LP': 'expectation values <bra|op|ket> (C12), not used by the engines',
    'MPSEnvironment._contract_with_RP': 'expectation values <bra|op|ket> (C12), not used by the engines',
    'MPSEnvironment.full_contraction': 'overlap <bra|ket> by full contraction (C12); the engines only read LP / RP of the orthogonal_to environments',
}
# (function, substring of the condition or of the branch description) -> reason
EXCLUDED_BRANCHES = [
    ('', "bc == 'segment'", _SEG),
    ('', 'segment_boundaries', _SEG),
    ('', 'ket_U is not None', _SEG), ('', 'bra_U is not None', _SEG), ('', 'ket_V is not None', _SEG), ('', 'bra_V is not None', _SEG),
    ('', 'U_bra is not None', _SEG), ('', 'V_bra is not None', _SEG), ('', 'old_UL is not None', _SEG), ('', 'old_VR is not None', _SEG),
    ('Sweep.__init__', "not hasattr(self, 'EffectiveH')", 'guard for subclasses without EffectiveH (programming error, not an option)'),
    ('Sweep.get_sweep_schedule', 'else', 'assert False guard: n_optimize is 1 or 2 for every engine'),
    ('Sweep.free_no_longer_needed_envs', 'else', 'assert False guard: n_optimize is 1 or 2 for every engine'),
    ('Sweep._cache_optimize', 'move_right is None', 'move_right = None (no move) is not produced by any DMRG / VUMPS schedule'),
    ('Sweep._cache_optimize', 'else: raise', 'guard: n_optimize is 1 or 2 for every engine'),
    ('Sweep._cache_optimize', 'else', 'guard: n_optimize is 1 or 2 for every engine (raise ValueError)'),
    ('Sweep.mixer_cleanup', 'else', 'RuntimeError guards: the engines only leave A / B forms next to a 2D S'),
    ('IterativeSweeps.pre_run_initialize', '_resuming_run', 'resume_run: subject of C18'),
    ('IterativeSweeps.pre_run_initialize', 'mixer_state is None', 'resume_run: subject of C18'),
    ('IterativeSweeps.pre_run_initialize', 'else', 'resume_run: subject of C18'),
    ('IterativeSweeps.run', 'not is_first_sweep', None),     # (reached; listed for documentation only)
    ('OneSiteH.from_LP_W0_RP', 'combine', 'raises NotImplementedError by design'),
    ('MPOEnvironment.init_first_LP_last_RP', 'not self.chinfo.trivial_shift', 'shift symmetry (C19 / C20), no model of the quantifier has it'),
    ('MPOEnvironment.init_first_LP_last_RP', "force_init_method is None", 'shift symmetry / explicit None only; the documented values iter and TM are drawn'),
    ('MPOEnvironment.init_first_LP_last_RP', "force_init_method == 'iter'", 'inside the shift-symmetry block (the second occurrence, the selection of the method, is reached)'),
    ('MPOEnvironment.init_first_LP_last_RP', 'max(self.ket.chi) <= 150', 'force_init_method=None only'),
    ('MPOEnvironment.init_first_LP_last_RP', 'else', 'force_init_method=None / invalid value only'),
    ('MPOEnvironment.init_LP', 'IdL is None', 'RuntimeError guard: every MPO built by a model has IdL / IdR'),
    ('MPOEnvironment.init_RP', 'IdR is None', 'RuntimeError guard: every MPO built by a model has IdL / IdR'),
    ('BaseEnvironment.__init__', 'not self.cache.long_term_storage.trivial', 'non-trivial cache storage is the subject of C20'),
    ('BaseEnvironment.__init__', 'ket is None', 'MPSEnvironment(bra, None): not used by the engines'),
    ('BaseEnvironment.get_LP', 'else', "ValueError guard 'No left part in the system' (never for a consistent environment)"),
    ('BaseEnvironment.get_RP', 'else', "ValueError guard 'No right part in the system' (never for a consistent environment)"),
    ('BaseEnvironment.get_initialization_data', 'include_bra', 'include_bra: not used by the engines'),
    ('DMRGEngine.reset_stats', "'sweep_stats' in resume_data", _RES),
    ('DMRGEngine.reset_stats', "resume_data['sweep_stats']", _RES),
    ('Sweep.reset_stats', "'sweeps' in resume_data", _RES),
    ('Sweep.reset_stats', 'len(done) > 0', _RES + ' (chi_list entries before the sweep counter of the checkpoint)'),
    ('Sweep.get_resume_data', 'not sequential_simulations', _RES + '; get_resume_data(sequential_simulations=True) is exercised (resume_seq features)'),
    ('Sweep.get_resume_data', 'self.mixer is None', _RES),
    ('Sweep.get_resume_data', 'else', _RES),
    ('Sweep.get_resume_data', 'len(self.ortho_to_envs) > 0', _RES),
    ('Sweep.get_resume_data', "self.psi.bc == 'finite'", _RES),
    ('Sweep._init_ortho_to_envs', "'orthogonal_to' in resume_data", _RES),
    ('SingleSiteDMRGEngine.mixed_svd', 'isinstance(S, npc.Array)', 'a mixer with can_decompose_1site that returns a 2D S: none of the mixers of tenpy does (SubspaceExpansion returns the singular values)'),
    ('Mixer.determine_qtotal_L_R', 'qtotal_LR is None', 'the engines always pass both qtotal (only direct calls of the mixer use the default)'),
    ('Mixer.determine_qtotal_L_R', 'qtotal_L is None', 'the engines always pass both qtotal (only direct calls of the mixer use the default)'),
    ('Mixer.determine_qtotal_L_R', 'qtotal_R is None', 'the engines always pass both qtotal (only direct calls of the mixer use the default)'),
    ('DensityMatrixMixer.mix_rho', 'IdL is None', 'MPO without IdL / IdR on an inner bond: every MPO built by a model of C10 has them'),
    ('DensityMatrixMixer.mix_rho', 'IdR is None', 'MPO without IdL / IdR on an inner bond: every MPO built by a model of C10 has them'),
    ('SingleSiteVUMPSEngine.__init__', 'self.mixer is not None', 'dead code: the mixer is only activated in run() (pre_run_initialize), it is None in __init__'),
    ('TwoSiteVUMPSEngine.__init__', 'isinstance(self.mixer, DensityMatrixMixer)', 'dead code: the mixer is only activated in run() (pre_run_initialize), it is None in __init__'),
    ('BaseEnvironment.init_LP', 'for j in range(i - start_env_sites, i)', 'MPSEnvironment with start_env_sites > 0 (overlaps of infinite MPS): orthogonal_to is finite only'),
    ('BaseEnvironment.init_RP', 'for j in range(i + start_env_sites, i, -1)', 'MPSEnvironment with start_env_sites > 0 (overlaps of infinite MPS): orthogonal_to is finite only'),
    ('BaseEnvironment.get_initialization_data', 'include_ket', 'include_ket: resume data of orthogonal_to environments of segment MPS only'),
    ('BaseEnvironment._full_contraction_LP_RP', 'i0 + 1 == self.L', 'the engines call full_contraction(i) with i <= L - 2 only (E_trunc of a bond update)'),
    ('DMRGEngine.diag', 'else', 'ValueError for an unknown diag_method: drawn (invalid-option stratum) when reached'),
    ('Mixer.mix_and_decompose_2site', 'else', 'ValueError guard (mix_left = mix_right = False is never requested by an engine)'),
    ('VUMPSEngine.__init__', 'not isinstance(psi, UniformMPS)', None),
]


def _branches(fn_node):
    """explicit branches of one function body (nested functions excluded): (line of the first statement, description)."""
    out = []

    def text(node):
        try:
            return ast.unparse(node)
        except Exception:
            return '?'

    def visit(node):
        for ch in ast.iter_child_nodes(node):
            if isinstance(ch, (ast.FunctionDef, ast.AsyncFunctionDef, ast.ClassDef, ast.Lambda)):
                continue
            if isinstance(ch, ast.If):
                out.append((ch.body[0].lineno, 'if ' + text(ch.test)))
                if ch.orelse and not (len(ch.orelse) == 1 and isinstance(ch.orelse[0], ast.If)):
                    out.append((ch.orelse[0].lineno, 'else of: if ' + text(ch.test)))
            elif isinstance(ch, (ast.For, ast.While)):
                out.append((ch.body[0].lineno, ('for ' + text(ch.target) + ' in ' + text(ch.iter)) if isinstance(ch, ast.For) else 'while ' + text(ch.test)))
                if ch.orelse:
                    out.append((ch.orelse[0].lineno, 'else of loop: ' + text(ch.target if isinstance(ch, ast.For) else ch.test)))
            elif isinstance(ch, ast.Try):
                for h in ch.handlers:
                    out.append((h.body[0].lineno, 'except ' + (text(h.type) if h.type is not None else '')))
            visit(ch)
    visit(fn_node)
    return out


def _exec_lines(src, fn):
    """executable lines of every code object, keyed by (first line, name)."""
    code = compile(src, fn, 'exec', dont_inherit=True)
    out = {}

    def walk(c):
        lines = {l for (_s, _e, l) in c.co_lines() if l is not None}
        out[(c.co_firstlineno, c.co_name)] = lines
        for k in c.co_consts:
            if isinstance(k, types.CodeType):
                walk(k)
    walk(code)
    return out


def enumerate_items(repo):
    """-> list of items {file, name (Class.method or function), public, first, last, lines (executable, without the def line),
    branches [(line, text)], doc_options [names in cfg:configoptions blocks]}"""
    items = []
    for rel, classes in ANCHORED.items():
        path = os.path.join(repo, rel)
        if not os.path.exists(path):
            continue
        src = open(path).read()
        tree = ast.parse(src)
        ex = _exec_lines(src, path)

        def add_fn(node, owner):
            name = (owner + '.' if owner else '') + node.name
            first = node.body[0].lineno
            if isinstance(node.body[0], ast.Expr) and isinstance(getattr(node.body[0], 'value', None), ast.Constant) \
                    and isinstance(node.body[0].value.value, str):
                first = node.body[1].lineno if len(node.body) > 1 else node.body[0].end_lineno + 1     # skip the docstring
            lines = set()
            start = min([node.lineno] + [d.lineno for d in node.decorator_list])      # (co_firstlineno is the line of the first decorator)
            for (l0, nm), ls in ex.items():
                if start <= l0 <= node.end_lineno:
                    lines |= {l for l in ls if first <= l <= node.end_lineno}
            public = not node.name.startswith('_') or (node.name.startswith('__') and node.name.endswith('__'))
            body = [b for b in node.body if not (isinstance(b, ast.Expr) and isinstance(getattr(b, 'value', None), ast.Constant))]
            abstract = all(isinstance(b, ast.Pass) or (isinstance(b, ast.Raise) and 'NotImplementedError' in ast.unparse(b)) for b in body)
            items.append({'file': rel, 'name': name, 'owner': owner, 'public': public, 'first': first, 'last': node.end_lineno,
                          'lines': lines, 'branches': _branches(node), 'abstract': abstract})
        for node in tree.body:
            if isinstance(node, (ast.FunctionDef, ast.AsyncFunctionDef)) and classes is None:
                add_fn(node, '')
            elif isinstance(node, ast.ClassDef) and (classes is None or node.name in classes):
                for sub in node.body:
                    if isinstance(sub, (ast.FunctionDef, ast.AsyncFunctionDef)):
                        add_fn(sub, node.name)
    return items


def _excluded_fn(name, owner):
    return EXCLUDED.get(name) or EXCLUDED.get(owner)


def _excluded_branch(name, text):
    for fn, sub, reason in EXCLUDED_BRANCHES:
        if reason is None:
            continue
        if fn and fn != name:
            continue
        if sub == 'else':
            if text.startswith('else of'):
                return reason
        elif sub in text:
            return reason
    return None


def build_table(repo, hits_per_process):
    """hits_per_process: list of {relative file: [lines]} (one per runner process).  -> (table for the evidence, list of public names
    that are neither reached nor classified)."""
    items = enumerate_items(repo)
    nproc = {}
    for h in hits_per_process:
        for rel, ls in (h or {}).items():
            d = nproc.setdefault(rel, {})
            for l in ls:
                d[l] = d.get(l, 0) + 1
    fun_rows, unreached_br, excluded_br, unclassified = {}, [], [], []
    n_fun = {'reached': 0, 'not reached': 0, 'excluded': 0}
    n_br = {'reached': 0, 'not reached': 0, 'excluded': 0}
    for it in items:
        d = nproc.get(it['file'], {})
        hit = {l for l in it['lines'] if l in d}
        reached = bool(hit)
        reason = _excluded_fn(it['name'], it['owner'])
        if (not it['lines'] or it['abstract']) and not reason:
            reason = 'abstract prototype (body is `...` / pass / raise NotImplementedError)'
        status = 'reached' if reached else ('excluded' if reason else 'not reached')
        n_fun[status] += 1
        row = {'status': status, 'lines': '%d/%d' % (len(hit), len(it['lines'])), 'processes': max([d[l] for l in hit], default=0)}
        if status == 'excluded':
            row['reason'] = reason
        if status == 'not reached' and it['public']:
            unclassified.append(it['file'] + ':' + it['name'])
        nb = 0
        for line, text in it['branches']:
            r = d.get(line, 0)
            if r:
                n_br['reached'] += 1
                nb += 1
                continue
            why = reason or _excluded_branch(it['name'], text)
            if why:
                n_br['excluded'] += 1
                excluded_br.append('%s: %s -- %s' % (it['name'], text[:90], why[:110]))
            else:
                n_br['not reached'] += 1
                unreached_br.append('%s (line %d): %s' % (it['name'], line, text[:110]))
        row['branches'] = '%d/%d' % (nb, len(it['branches']))
        fun_rows[it['file'].split('/')[-1] + ':' + it['name']] = row
    table = {'functions': n_fun, 'branches': n_br, 'items': fun_rows, 'unreached_branches': unreached_br,
             'excluded_branches': sorted(set(excluded_br)), 'runner_processes_with_recording': len([h for h in hits_per_process if h])}
    return table, unclassified
