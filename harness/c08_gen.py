"""Compact state generator for C08 (and the correlation stream of C12).  Imported by the impl runners (fresh interpreter with
the tenpy tree under test on PYTHONPATH).  States are created from seeded numpy data; the DENSE REFERENCE of a state is never
taken from the constructor's input but recomputed with plain numpy from the tensors the MPS object actually holds
(`dense_window`), so that the measurement functions are compared with what the MPS denotes.
"""
import numpy as np

import c12_oracle as orc


def make_site(spec):
    import tenpy.networks.site as S
    cls, kwargs = spec
    kw = {k: v for k, v in kwargs.items() if not k.startswith('_')}
    site = getattr(S, cls)(**kw)
    if kwargs.get('_mod'):
        # the conserved U(1) charge(s) of the site kept only modulo N (a Z_N charge), through the public Site.change_charge
        import tenpy.linalg.np_conserved as npc
        N = int(kwargs['_mod'])
        old = site.leg
        chinfo = npc.ChargeInfo([N] * old.chinfo.qnumber, [str(n) + '_mod_%d' % N for n in old.chinfo.names])
        site.change_charge(npc.LegCharge.from_qflat(chinfo, np.mod(old.to_qflat(), N), old.qconj))
    return site


def site_to_doc_index(site, doc):
    """p[i] = index in the documentation basis of the state with index i of `site` (via the state labels)."""
    p = np.empty(site.dim, dtype=int)
    p[:] = -1
    for k, lab in enumerate(doc.labels):
        p[site.state_labels[lab]] = k
    assert sorted(p) == list(range(site.dim)), (p, doc.labels, site.state_labels)
    return p


class Chain:
    """sites of the implementation + documentation sites + basis maps"""

    def __init__(self, specs):
        self.specs = specs
        self.sites = [make_site(s) for s in specs]
        self.docs = [orc.doc_site(*s) for s in specs]
        self.maps = [site_to_doc_index(s, d) for s, d in zip(self.sites, self.docs)]
        self.dims = [s.dim for s in self.sites]


def random_sector_tensor(rng, chain, cplx=True, sector=None):
    """random tensor (d_0, .., d_{L-1}) in the site bases lying in ONE total-charge sector (so that it is a valid state for the
    conserved charges of the sites).  Returns (tensor, qtotal)."""
    sites = chain.sites
    L = len(sites)
    chinfo = sites[0].leg.chinfo
    shape = [s.dim for s in sites]
    psi = rng.normal(size=shape)
    if cplx:
        psi = psi + 1j * rng.normal(size=shape)
    if chinfo.qnumber == 0:
        return psi / np.linalg.norm(psi), None
    qs = [s.leg.to_qflat() for s in sites]         # (d_i, qnumber)
    tot = np.zeros(shape + [chinfo.qnumber], dtype=int)
    for i, q in enumerate(qs):
        sh = [1] * L + [chinfo.qnumber]
        sh[i] = shape[i]
        tot = tot + q.reshape(sh)
    tot = chinfo.make_valid(tot.reshape(-1, chinfo.qnumber)).reshape(shape + [chinfo.qnumber])
    flat = tot.reshape(-1, chinfo.qnumber)
    if sector is None:
        # pick the most frequent sector among a few random basis states (to have many components)
        uniq, counts = np.unique(flat, axis=0, return_counts=True)
        order = np.argsort(-counts)
        sector = uniq[order[int(rng.integers(0, min(3, len(order))))]]
    mask = np.all(tot == np.asarray(sector).reshape([1] * L + [-1]), axis=-1)
    psi = psi * mask
    nrm = np.linalg.norm(psi)
    if nrm == 0:
        raise ValueError('empty sector')
    return psi / nrm, [int(x) for x in sector]


def mps_from_tensor(chain, psi, qtotal, bc='finite'):
    import tenpy.linalg.np_conserved as npc
    from tenpy.networks.mps import MPS
    L = len(chain.sites)
    legs = [s.leg for s in chain.sites]
    arr = npc.Array.from_ndarray(psi, legs, qtotal=qtotal, cutoff=0.0, labels=['p%d' % i for i in range(L)])
    return MPS.from_full(chain.sites, arr, form='B', cutoff=1e-14, normalize=True, bc=bc, unit_cell_width=L)


def random_finite_mps(rng, chain, cplx=True, chi_max=None, sector=None):
    psi, q = random_sector_tensor(rng, chain, cplx, sector)
    mps = mps_from_tensor(chain, psi, q)
    if chi_max is not None:
        mps.compress_svd({'chi_max': int(chi_max), 'svd_min': 1e-13})
        mps.canonical_form(renormalize=True)
        mps.norm = 1.0
    return mps, q


def random_charged_infinite_mps(rng, chain, chi=4, steps=4):
    """iMPS with the (charged) unit cell `chain`: a random product state of basis states evolved with seeded random two-site
    unitaries that respect the charges of the sites (tenpy's RandomUnitaryEvolution; only used to MAKE a state - the dense
    reference is recomputed from the tensors the MPS holds), brought to canonical form."""
    from tenpy.networks.mps import MPS
    from tenpy.algorithms import tebd
    L = len(chain.sites)
    p_state = [int(rng.integers(0, s.dim)) for s in chain.sites]
    if L >= 2 and len(set(p_state)) == 1:
        p_state[0] = (p_state[0] + 1) % chain.sites[0].dim
    psi = MPS.from_product_state(chain.sites, p_state, bc='infinite', unit_cell_width=L)
    state = np.random.get_state()
    np.random.seed(int(rng.integers(0, 2 ** 31 - 1)))
    try:
        tebd.RandomUnitaryEvolution(psi, {'N_steps': int(steps), 'trunc_params': {'chi_max': int(chi), 'svd_min': 1.e-12}}).run()
    finally:
        np.random.set_state(state)
    psi.canonical_form()
    return psi


def random_infinite_mps(rng, chain, chi=3, cplx=True):
    """random iMPS with the unit cell `chain` (trivial charges required for generic random tensors; with charges a random
    finite state is cut into a unit cell instead)."""
    from tenpy.networks.mps import MPS
    L = len(chain.sites)
    Bs = []
    for i in range(L):
        d = chain.sites[i].dim
        B = rng.normal(size=(d, chi, chi))
        if cplx:
            B = B + 1j * rng.normal(size=(d, chi, chi))
        Bs.append(B)
    SVs = [np.ones(chi) / np.sqrt(chi)] * (L + 1)
    psi = MPS.from_Bflat(chain.sites, Bs, SVs, bc='infinite', dtype=complex if cplx else float, form=None, unit_cell_width=L)
    psi.canonical_form()
    return psi


def dense_window(psi, i0, n):
    """theta tensor (vL, p_i0, ..., p_{i0+n-1}, vR) = S[i0] B[i0] ... B[i0+n-1], contracted with plain numpy from the
    tensors of the MPS (B form), in the site bases."""
    SL = psi.get_SL(i0)
    th = None
    for k in range(n):
        B = psi.get_B(i0 + k, form='B').itranspose(['vL', 'p', 'vR']).to_ndarray()
        if th is None:
            th = np.asarray(SL).reshape(-1, 1, 1) * B if np.ndim(SL) == 1 else np.tensordot(SL.to_ndarray(), B, axes=(1, 0))
        else:
            th = np.tensordot(th, B, axes=(th.ndim - 1, 0))
    return th


def window_to_doc(chain, th, i0):
    """permute the physical legs of a window tensor (vL, p.., vR) into the documentation bases"""
    L = len(chain.sites)
    out = th
    for k in range(th.ndim - 2):
        m = chain.maps[(i0 + k) % L]
        inv = np.argsort(m)          # inv[doc index] = site index
        out = np.take(out, inv, axis=1 + k)
    return out


def window_docs(chain, i0, n):
    L = len(chain.sites)
    return [chain.docs[(i0 + k) % L] for k in range(n)]


def expect_window(th_bra, O, th_ket):
    """sum_{vL,vR} <th_bra| O |th_ket> for window tensors in the doc bases; O acts on the flattened physical legs."""
    a, b = th_bra.shape[0], th_bra.shape[-1]
    D = int(np.prod(th_bra.shape[1:-1]))
    x = th_bra.reshape(a, D, b)
    y = th_ket.reshape(a, D, b)
    return np.einsum('apb,pq,aqb->', x.conj(), O, y)
