"""C03 - operations never corrupt their operands or shared charge data.

proof gate (coq/Props/C03.v: frame theorems on the store model)  +  correspondence: every generated history is
replayed on Model/Store.v (check_history_applicable, vm_compute) and the tensors the implementation changed must be among
those the model allows to change  +  oracle: fingerprints of every live object before/after each step
(harness/impl/c03_impl.py), judged by the rules of the property text; MPS/MPO/Krylov level checks.
Hidden aliasing (a result that is secretly a view of its operand shows only at a LATER in-place write): after every step the
memory of the block buffers of all live tensors is compared; new sharing must be a documented shallow copy (oracle, with an
active write probe) and every sharing pair must share a buffer in the model (Model/StoreShare.v: check_shares).  At the MPS
level every tensor-returning accessor is compared memory-wise with the buffers stored in the network.
"""
import common
from common import coq_lit, Nat, CoqRaw
import c04_gen

INPLACE_WRITE = {'iadd', 'isub', 'iadd_prefactor_other', 'iscale', 'iscale_prefactor'}       # may write into shared buffers
INPLACE_REBIND = {'itranspose', 'iconj', 'iscale_axis', 'ireplace_label', 'ipurge_zeros', 'isort_qdata', 'imake_contiguous'}
INPLACE = INPLACE_WRITE | INPLACE_REBIND | {'iproject', 'setitem'}
# functions DOCUMENTED to return a (possibly) shallow copy, i.e. a tensor that shares its block buffers with the operand:
# Array.copy(deep=False), gauge_total_charge ("a shallow copy"), sort_legcharge (nothing to sort: shallow copy),
# replace_label(s) ("Return a shallow copy"), add_trivial_leg ("A (possibly) *shallow* copy"), astype(copy=False)
SHALLOW_DOC = {'copy_shallow', 'gauge_total_charge', 'sort_legcharge', 'replace_label', 'add_trivial_leg', 'astype_nocopy'}


class Hist(c04_gen.Prog):
    """histories with aliasing: many shallow/deep copies, operands used twice, in-place writes through copies"""

    def __init__(self, rng, style='generic'):
        """style (block structure of the operands):
        'generic'  legs with 1-4 charge blocks, tensors with many blocks (as before);
        'single'   every leg is ONE charge block (tensors without charge conservation / of product states: exactly one
                   stored block, every pipe has a single q_map row -> the single-block fast paths of combine_legs/split_legs);
        'mixed'    half of the legs are one block;
        'oneblock' generic legs, but most tensors store exactly one of their allowed blocks (one populated charge sector)"""
        mods = None
        if style == 'single' and rng.random() < 0.4:
            mods = []                                   # no charges at all (ChargeInfo trivial)
        super().__init__(rng, mods=mods, empty_blocks=False, bad_rate=0.03, allow_alias_writes=True, worker_rate=0.0)
        self.style = style
        if style in ('single', 'mixed'):
            for l in self.pool:
                if style == 'single' or rng.random() < 0.5:
                    l['sizes'] = [rng.choice([1, 2, 2, 3])]
                    l['charges'] = l['charges'][:1]

    def new(self, *a, **kw):
        r = super().new(*a, **kw)
        spec = self.steps[r].get('spec')
        if self.style == 'oneblock' and spec and len(spec['blocks']) > 1 and self.rng.random() < 0.7:
            spec['blocks'] = spec['blocks'][:1]
        return r

    def dims(self, r):
        """index lengths of the legs of register r when they are base legs"""
        out = []
        for t in self.regs[r]['legs']:
            if t[0] != 'L':
                return None
            out.append(sum(self.pool[t[1]]['sizes']))
        return out

    def random_step(self):
        rng = self.rng
        arrs = [i for i in self.arrs() if not self.regs[i].get('opaque')]
        if len(arrs) < 2:
            return self.new(fill=rng.choice([1.0, 1.0, 0.6]))
        r = rng.random()
        a = rng.choice(arrs)
        A = self.regs[a]
        n = len(A['legs'])
        if r < 0.16:
            deep = rng.random() < 0.4
            return self.push({'op': 'copy_deep' if deep else 'copy_shallow', 'a': a}, self.arr(A['legs'], A['labels']))
        if r < 0.26:
            # aliased operands of a function
            k = rng.choice(['tensordot_self', 'add_self', 'add_shallow', 'concat_shallow', 'inner_self'])
            if k == 'tensordot_self':
                return self.tensordot(a, a)
            if k == 'add_self':
                return self.push({'op': rng.choice(['add', 'sub']), 'a': a, 'b': a}, self.arr(A['legs'], A['labels']))
            b = self.push({'op': 'copy_shallow', 'a': a}, self.arr(A['legs'], A['labels']))
            if k == 'add_shallow':
                return self.push({'op': 'add', 'a': a, 'b': b}, self.arr(A['legs'], A['labels']))
            if k == 'inner_self':
                c = self.push({'op': 'conj', 'a': a}, self.arr([c04_gen.conj_t(t) for t in A['legs']], [c04_gen.conj_label(l) for l in A['labels']]))
                return self.push({'op': 'inner', 'a': a, 'b': c, 'axes': 'range', 'do_conj': False}, {'kind': 'scalar'})
            return self.push({'op': 'concatenate', 'a': a, 'b': b, 'axis': rng.randrange(n)}, self.arr_opaque())
        if r < 0.43:
            d = self.dims(a)
            k = rng.choice(['iproject', 'scale_axis', 'iscale_axis', 'permute', 'gauge', 'ireplace_label', 'take_slice', 'setitem',
                            'ipurge_zeros', 'isort_qdata', 'legcharge_ops', 'to_ndarray', 'norm',
                            'combine_split', 'combine_split', 'replace_label', 'add_trivial_leg', 'astype_nocopy', 'zeros_like',
                            'getitem_slice'])
            if k == 'combine_split':
                # the combined tensor stays alive while it is split again (and both are used by later steps)
                c = self.combine(a)
                if c is None:
                    return self.new()
                if rng.random() < 0.3:
                    self.push({'op': 'copy_shallow', 'a': c}, self.arr_opaque())
                return self.push({'op': 'split', 'a': c, 'axes': None, 'cutoff': 0.0}, self.arr_opaque())
            if k == 'replace_label':
                labs = [l for l in A['labels'] if l not in (None, c04_gen.UNK)]
                new = rng.choice(['x', 'y', 'z', 'w'])
                if labs and new not in A['labels']:
                    old = rng.choice(labs)
                    return self.push({'op': 'replace_label', 'a': a, 'old': old, 'new': new},
                                     self.arr(A['legs'], [new if l == old else l for l in A['labels']]))
                k = 'zeros_like'
            if k == 'add_trivial_leg':
                t = self.push({'op': 'add_trivial_leg', 'a': a, 'axis': rng.randrange(n + 1), 'label': rng.choice([None, 'triv']),
                               'qconj': rng.choice([1, -1])}, self.arr_opaque())
                if rng.random() < 0.5:
                    return self.push({'op': 'squeeze', 'a': t}, self.arr_opaque())
                return t
            if k == 'astype_nocopy':
                return self.push({'op': 'astype_nocopy', 'a': a, 'dtype': rng.choice([None, None, 'complex128', 'float64'])},
                                 self.arr(A['legs'], A['labels']))
            if k in ('zeros_like', 'getitem_slice'):
                return self.push({'op': k, 'a': a}, self.arr(A['legs'], A['labels']))
            if d is None and k in ('iproject', 'scale_axis', 'iscale_axis', 'permute', 'take_slice', 'setitem', 'legcharge_ops'):
                k = 'norm'
            ax = rng.randrange(n)
            if k == 'iproject':
                mask = [rng.random() < 0.6 for _ in range(d[ax])]
                if not any(mask):
                    mask[0] = True
                A['legs'] = list(A['legs'])
                A['legs'][ax] = ['O', len(self.regs), ax, 1]
                A['labels'] = list(A['labels'])
                return self.push({'op': 'iproject', 'a': a, 'axis': ax, 'mask': mask}, {'kind': 'none'})
            if k in ('scale_axis', 'iscale_axis'):
                st = {'op': k, 'a': a, 'axis': ax, 's': [rng.choice([2.0, -1.0, 0.5, 3.0]) for _ in range(d[ax])]}
                return self.push(st, self.arr(A['legs'], A['labels']) if k == 'scale_axis' else {'kind': 'none'})
            if k == 'permute':
                p = list(range(d[ax]))
                rng.shuffle(p)
                return self.push({'op': 'permute', 'a': a, 'axis': ax, 'perm': p}, self.arr_opaque())
            if k == 'gauge':
                return self.push({'op': 'gauge_total_charge', 'a': a, 'axis': ax}, self.arr_opaque())
            if k == 'ireplace_label':
                labs = [l for l in A['labels'] if l not in (None, c04_gen.UNK)]
                if labs:
                    old = rng.choice(labs)
                    new = rng.choice(['x', 'y', 'z', 'w'])
                    if new not in A['labels']:
                        A['labels'] = [new if l == old else l for l in A['labels']]
                        return self.push({'op': 'ireplace_label', 'a': a, 'old': old, 'new': new}, {'kind': 'none'})
                k = 'norm'
            if k == 'take_slice':
                return self.push({'op': 'take_slice', 'a': a, 'axis': ax, 'i': rng.randrange(d[ax])}, self.arr_opaque())
            if k == 'setitem':
                return self.push({'op': 'setitem', 'a': a, 'idx': [rng.randrange(x) for x in d], 'v': 0.0}, {'kind': 'none'})
            if k == 'legcharge_ops':
                return self.push({'op': 'legcharge_ops', 'a': a, 'axis': ax, 'mask': [rng.random() < 0.6 for _ in range(d[ax])],
                                  'pick': rng.randrange(6)}, {'kind': 'leg'})
            if k in ('ipurge_zeros', 'isort_qdata'):
                return self.push({'op': k, 'a': a}, {'kind': 'none'})
            return self.push({'op': k, 'a': a}, {'kind': 'scalar'})
        if r < 0.48:
            types = [['L', rng.randrange(len(self.pool)), rng.choice([1, -1])] for _ in range(rng.choice([1, 2, 2, 3]))]
            qt = [rng.randint(-7, 9) for _ in self.mods]          # deliberately NOT reduced modulo mod
            return self.push({'op': 'zeros_qtotal', 'legs': types, 'qtotal': qt, 'dtype': rng.choice(['float64', 'complex128']),
                              'how': rng.choice(['zeros', 'from_func'])}, self.arr(types, [None] * len(types)))
        if r < 0.62:
            # in-place methods, preferably on something that has copies
            al = [i for i in arrs if len(self.alias.get(i, ())) > 1]
            if al and rng.random() < 0.7:
                a = rng.choice(al)
                A = self.regs[a]
            op = rng.choice(['iscale', 'iscale_prefactor', 'iadd_self', 'iadd_like', 'itranspose', 'iconj'])
            if op in ('iscale', 'iscale_prefactor'):
                return self.push({'op': op, 'a': a, 's': rng.choice([2.0, -1.0, 0.5, 3, ['c', 0.0, 1.0], 0.0])}, {'kind': 'none'})
            if op == 'iadd_self':
                return self.push({'op': rng.choice(['iadd', 'isub']), 'a': a, 'b': a}, {'kind': 'none'})
            if op == 'iadd_like':
                return self.addlike(a)
            if op == 'itranspose':
                p = list(range(len(A['legs'])))
                rng.shuffle(p)
                return self.transpose(a, p, inplace=True)
            A['legs'] = [c04_gen.conj_t(t) for t in A['legs']]
            A['labels'] = [c04_gen.conj_label(l) for l in A['labels']]
            return self.push({'op': 'iconj', 'a': a}, {'kind': 'none'})
        return super().random_step()


def gen_setitem_alias(rng):
    """targeted: write one entry through a shallow copy of a tensor that does not store the block yet"""
    p = Hist(rng)
    a = p.new(fill=1.0)
    spec = p.steps[a]['spec']
    if not spec['blocks']:
        return p.finish_random(4)
    q = spec['blocks'][0]['q']
    idx = []
    for t, qi in zip(spec['legs'], q):
        sizes = p.pool[t[1]]['sizes']
        idx.append(sum(sizes[:qi]))
    spec['blocks'] = []
    b = p.push({'op': 'copy_shallow', 'a': a}, p.arr(p.regs[a]['legs'], p.regs[a]['labels']))
    p.push({'op': 'setitem', 'a': b, 'idx': idx, 'v': 1.0}, {'kind': 'none'})
    return p.finish_random(2)


STYLES = ['generic'] * 11 + ['single'] * 4 + ['mixed'] * 3 + ['oneblock'] * 2


def gen_history(rng):
    p = Hist(rng, rng.choice(STYLES))
    return p.finish_random(rng.choice([6, 8, 10, 12]))


# ------------------------------------------------------------------------------------------------
# judging one history (the oracle) and translating it for the model
# ------------------------------------------------------------------------------------------------

class KeyedCtx:
    """appends the match key to the text of every failure (so that the replay file names it)"""

    def __init__(self, ctx):
        self.ctx = ctx

    def fail(self, kind, what, case, match_key=None):
        self.ctx.fail(kind, what + (' [%s]' % match_key if match_key else ''), case, match_key=match_key)


def natlist(xs):
    """Coq literal of a list of nat (typed also when empty: a replay may consist of empty lists only)"""
    xs = list(xs)
    return '[' + '; '.join('%d%%nat' % x for x in xs) + ']' if xs else '(@nil nat)'


def judge(ctx, stream, cfg, case, res, newshare=None):
    """rules of the property text applied to the runner's report; returns the list of model steps"""
    ctx = KeyedCtx(ctx)
    state = {'shares': set(), 'newshare': newshare if newshare is not None else {}}
    mshares = []        # per model step: the register pairs the implementation observed to own common block memory
    alias = {}          # register -> set of registers that share block buffers through copy(deep=False)
    msteps = []
    model_ok = True
    for si, (st, rec) in enumerate(zip(case['steps'], res['steps'])):
        op = st['op']
        recv = st.get('a') if op in INPLACE else None
        failed = 'error' in rec or 'skipped' in rec
        changed = {int(k): v for k, v in rec['changed'].items()}
        group = alias.get(recv, {recv}) if recv is not None else set()
        ctxinfo = {'stream': stream, 'config': cfg, 'case': {'mods': case['mods'], 'pool': case['pool'], 'steps': case['steps'][:si + 1]},
                   'step': si, 'report': rec}
        # rule 1: functions that are not in-place change no live tensor
        for x, what in changed.items():
            if recv is None:
                ctx.fail('oracle', '[%s] step %d: %s is not in-place but changed the observable %s of live tensor r%d (operands r%s, r%s)' % (
                    cfg, si, op, what, x, st.get('a'), st.get('b')), ctxinfo, match_key='C03:%s:operand-or-bystander-changed:%s' % (op, ','.join(sorted(what))))
            elif x == recv:
                pass
            elif x in group:
                # shallow copies of the receiver: values may or may not follow (Array.copy docstring); labels, legs,
                # total charge are per-object and the tensor must stay consistent
                bad = [w for w in what if w not in ('val', 'dtype', 'sane')]
                if bad:
                    ctx.fail('oracle', '[%s] step %d: in-place %s on r%d changed %s of its shallow copy r%d' % (cfg, si, op, recv, bad, x),
                             ctxinfo, match_key='C03:%s:shallow-copy-%s-changed' % (op, ','.join(sorted(bad))))
            else:
                ctx.fail('oracle', '[%s] step %d: in-place %s on r%d changed %s of r%d, which is not a shallow copy of the receiver' % (
                    cfg, si, op, recv, what, x), ctxinfo, match_key='C03:%s:non-view-changed:%s' % (op, ','.join(sorted(what))))
        # rule 2: nobody (except possibly the receiver of a failed call) is left inconsistent
        for x in rec.get('insane', []):
            if x != recv:
                rel = 'shallow-copy' if x in group else 'bystander'
                ctx.fail('oracle', '[%s] step %d: %s leaves live tensor r%d (%s of the receiver) inconsistent: test_sanity fails / blocks do not fit '
                         'the block indices' % (cfg, si, op, x, rel), ctxinfo, match_key='C03:%s:%s-corrupted' % (op, rel))
        # rule 3: LegCharge objects are never mutated
        if rec.get('legs_changed'):
            ctx.fail('oracle', '[%s] step %d: %s mutated a LegCharge object that is shared: %s' % (cfg, si, op, rec['legs_changed'][:2]),
                     ctxinfo, match_key='C03:%s:LegCharge-mutated' % op)
        # rule 4: numpy arrays passed as arguments are operands, too
        for name in rec.get('ext_changed', []):
            ctx.fail('oracle', '[%s] step %d: %s changed its argument `%s` (a numpy array of the caller)' % (cfg, si, op, name),
                     ctxinfo, match_key='C03:%s:argument-%s-mutated:%s' % (op, name, cfg))
        # rule 5: no hidden aliasing.  The fingerprints above only show that nothing changed AT THIS MOMENT; a result that
        # secretly shares a block buffer with a live tensor corrupts it at the next buffer-writing in-place method.  So the
        # memory of all block buffers is compared after every step: a NEW pair of tensors with common block memory may only
        # be (result of a documented shallow copy, its operand or a tensor the operand already shared memory with).
        sh = {tuple(p) for p in rec.get('shares', [])}
        newpairs = sh - state['shares']
        for (x, y) in sorted(newpairs):
            ok = y in alias.get(x, ())        # members of one family of documented shallow copies (e.g. the first block
            #                                     stored through a shallow copy of a tensor without blocks)
            if op in SHALLOW_DOC and si in (x, y):
                other = x if y == si else y
                ok = ok or other == st['a'] or (min(other, st['a']), max(other, st['a'])) in state['shares']
            stat = state['newshare'].setdefault(op, [0, 0])
            stat[0 if ok else 1] += 1
            if not ok:
                pr = rec.get('probe') or {}
                tgt = pr.get('target')
                who = 'its result' if recv is None else 'the receiver'
                shown = ('; writing +1 into the block buffers of r%s changed the dense values of r%s' % (tgt, pr.get('changed'))
                         if pr.get('changed') else '; (write probe: %s)' % pr)
                ctx.fail('oracle', '[%s] step %d: %s (operands r%s, r%s) is not documented to return a view, but afterwards r%d and r%d '
                         'own block buffers with common memory (%s = r%s)%s: the next buffer-writing in-place method (iscale_prefactor, '
                         'iadd_prefactor_other, __setitem__) on one of them silently changes the other' % (
                             cfg, si, op, st.get('a'), st.get('b'), x, y, who, si if recv is None else recv, shown),
                         ctxinfo, match_key='C03:%s:hidden-buffer-sharing' % op)
        state['shares'] = sh
        # bookkeeping of shallow copies
        if op in SHALLOW_DOC and not failed:      # documented to return a shallow copy
            g = alias.setdefault(st['a'], {st['a']})
            g.add(si)
            alias[si] = g
        # ---- model step
        if model_ok:
            ra, rb = st.get('a', 0), st.get('b', 0)
            if (failed and op in INPLACE) or (op == 'setitem' and newpairs):
                # a half-executed in-place method / __setitem__ storing a NEW block through a shallow copy (the model has no
                # block insertion; the oracle rules above judge it): stop the model replay here
                model_ok = False
                continue
            if failed:
                k = '(HNew 0%nat (@nil nat))'
            elif op == 'new' or op == 'zeros_qtotal':
                spec = st.get('spec') or st
                nb = len(spec['blocks']) if 'blocks' in spec else 1
                # at least one buffer: in-place methods can add blocks to a tensor that stores none (a += b), and the model
                # keeps the number of buffers of a tensor fixed; its shallow copies share the _data LIST in any case
                k = '(HNew %d%%nat %s)' % (max(1, min(nb, 30)), natlist(t[1] for t in spec['legs']))
            elif op == 'copy_deep' or op in SHALLOW_DOC:
                k = '(HCopy %s)' % ('true' if op == 'copy_deep' else 'false')
            elif op in ('iscale', 'iscale_prefactor'):
                k = 'HMapWrite' if cfg == 'cy' else 'HRebind'
            elif op in ('iadd', 'isub', 'iadd_prefactor_other'):
                k = 'HBinWrite' if cfg == 'cy' else 'HRebind'
            elif op == 'setitem':
                k = 'HMapWrite'
            elif op == 'iscale_axis':
                k = 'HRebind'           # t * s: fresh arrays
            elif op in INPLACE_REBIND:
                k = 'HMeta'             # np.transpose views / conj of real data / list rebinding: the block memory may stay shared
            elif op == 'iproject':
                k = 'HProject'
            elif op == 'scale_axis':
                k = 'HScaleAxis'
            elif op in ('add', 'sub'):
                k = 'HAdd'
            elif op in ('tensordot', 'inner', 'concatenate'):
                k = 'HTensordot'
            else:
                k = 'HUnary'
            mshares.append('[' + '; '.join('(%d%%nat, %d%%nat)' % p for p in sorted(sh)) + ']' if sh else '(@nil (nat * nat))')
            msteps.append('(%s, %d%%nat, %d%%nat, %s)' % (k, ra, rb, natlist(sorted(x for x, w in changed.items() if set(w) - {'sane'}))))   # consistency is judged by rule 2
    return list(zip(msteps, mshares))


def main(ctx):
    rng = ctx.rng
    ctx.proof = common.check_proofs('C03', extra_targets=['Model/StoreMpsCheck.vo'])
    mult = 3 if not ctx.proof.ok else 1
    import c03_mpsobj
    mpsobj_handle = c03_mpsobj.start(ctx, mult=mult)     # stream mps-object: runs in the background next to the other streams
    import c03_mpoobj
    mpoobj_handle = c03_mpoobj.start(ctx, mult=mult)     # stream mpo-object (sites / MPOs / graphs / models): background, too
    nh = ctx.pick(600, 5000) * mult
    cases = [c['case'] for c in common.corpus_cases('C03') if c.get('stream') == 'history']
    replay_doc = None
    if ctx.replay_in:
        import json
        replay_doc = (json.load(open(ctx.replay_in)).get('input') or {})
        nh = 0
        cases = [replay_doc['case']] if replay_doc.get('stream') == 'history' else []
    cases += [gen_history(rng) for _ in range(nh)] + [gen_setitem_alias(rng) for _ in range(min(nh, 8))]
    mps_cases = [replay_doc['case']] if replay_doc and replay_doc.get('stream') == 'mps' else []
    for i in range(ctx.pick(14, 70) if replay_doc is None else 0):
        mps_cases.append({'seed': ctx.seed * 1000 + i, 'model': rng.choice(['xxz', 'tfi']), 'L': rng.choice([4, 5, 6]),
                          'bc': rng.choice(['finite', 'finite', 'infinite']), 'conserve': None, 'form_A': rng.random() < 0.3,
                          'combine': rng.random() < 0.5})
        m = mps_cases[-1]
        m['conserve'] = rng.choice(['Sz', 'parity', None]) if m['model'] == 'xxz' else rng.choice(['parity', None])
        if m['bc'] == 'infinite':
            m['L'] = 4
        # how the MPS stores its tensors (B / A / C / Th on all sites, or a different form on every site) and whether it is
        # entangled or still the product state (one block per tensor, trivial bonds)
        sf = rng.choice([None, None, 'A', 'C', 'Th', 'mixed', 'mixed'])
        m['store_form'] = [rng.choice(['A', 'B', 'C', 'Th', 'B', 'A', 'G']) for _ in range(m['L'])] if sf == 'mixed' else sf
        m['entangle'] = rng.random() < 0.75
    items = [('mps', c) for c in mps_cases] + [('history', c) for c in cases]
    from concurrent.futures import ThreadPoolExecutor
    common.cy_build()
    n = ctx.pick(4, 8) if len(items) > 8 else 1
    chunks = [items[i::n] for i in range(n)]
    jobs = [(cfg, i) for i in range(n) for cfg in ('py', 'cy')]
    with ThreadPoolExecutor(max_workers=len(jobs)) as ex:
        futs = [ex.submit(common.run_impl, 'c03_impl.py', {'cases': [list(x) for x in chunks[i]]}, cfg) for cfg, i in jobs]
        res = [f.result() for f in futs]
    out = {'py': [None] * len(items), 'cy': [None] * len(items)}
    for (cfg, i), (r, err) in zip(jobs, res):
        if err or r['info'].get('have_cython') != (cfg == 'cy'):
            ctx.fail('correspondence', 'runner failed in configuration %s: %s' % (cfg, (err or str(r['info']))[-600:]), None)
            return ctx.finish(RULE)
        for j, x in enumerate(r['results']):
            out[cfg][i + n * j] = x
    # ---- histories
    coq_cases, coq_src = [], []
    opstat = {}
    newshare = {}
    npairs = 0
    for cfg in ('py', 'cy'):
        for ci, c in enumerate(cases):
            r = out[cfg][len(mps_cases) + ci]
            if 'runner_error' in r or 'crash' in r:
                ctx.fail('correspondence', 'history runner failed (%s): %s' % (cfg, str(r)[-500:]), {'stream': 'history', 'case': c})
                continue
            ms = judge(ctx, 'history', cfg, c, r, newshare)
            shallow = sum(1 for s in c['steps'] if s['op'] == 'copy_shallow')
            inpl = sum(1 for s in c['steps'] if s['op'] in INPLACE)
            for s, rec in zip(c['steps'], r['steps']):
                k = s['op'] + ('!' if 'error' in rec else '')
                opstat[k] = opstat.get(k, 0) + 1
            ctx.count('history-' + cfg, c, nontrivial=shallow > 0 or inpl > 0,
                      sample={'ops': [s['op'] for s in c['steps']], 'changed': [rec['changed'] for rec in r['steps']]})
            coq_cases.append('(%d%%nat, %s)' % (len(c['pool']), '[' + '; '.join('(%s, %s)' % p for p in ms) + ']' if ms
                                                   else '(@nil hstep_sh)'))
            coq_src.append((cfg, ci))
            npairs += sum(len(rec.get('shares', [])) for rec in r['steps'])
    ctx.cov['input_distribution'] = opstat
    ctx.cov['new_memory_sharing_by_op'] = {k: {'documented': v[0], 'undocumented': v[1]} for k, v in sorted(newshare.items())}
    # one evaluation per history: (1) the history is applicable and every observed change is allowed by may_change,
    # (2) every pair of tensors that owns common block memory in the implementation shares a buffer in the model
    imports = ['Base.Prelude', 'Model.Store', 'Model.StoreShare']
    both = '(fun c => check_history_applicable (fst c, map fst (snd c)) && check_shares c)'
    bad, err = common.coq_failing_indices('cases_c03', imports, both, coq_cases, shard=150)
    if err:
        ctx.fail('correspondence', 'model evaluation failed: ' + err[-600:], None)
    bad = bad[:12]
    bad_sh, err = common.coq_failing_indices('cases_c03_sh', imports, 'check_shares', [coq_cases[b] for b in bad]) if bad else ([], None)
    if err:
        ctx.fail('correspondence', 'model evaluation failed: ' + err[-600:], None)
    for k, b in enumerate(bad):
        cfg, ci = coq_src[b]
        what = ('two tensors own common block memory in the %s configuration, but share no buffer in Model/Store.v (a result or receiver '
                'that the model builds from fresh buffers is a view of another live tensor; the hypothesis shares_buffer = false of the '
                'frame theorems does not hold for the code)' % cfg if k in bad_sh else
                'Model/Store.v does not allow the change the %s configuration made (a tensor outside may_change changed)' % cfg)
        ctx.fail('correspondence', what, {'stream': 'history', 'config': cfg, 'case': cases[ci], 'report': out[cfg][len(mps_cases) + ci]})
    ctx.cov['traces_validated_against_impl'] = len(coq_cases)
    ctx.cov['memory_sharing_pairs_checked_against_model'] = npairs
    # ---- MPS / MPO / Krylov
    for cfg in ('py', 'cy'):
        for ci, c in enumerate(mps_cases):
            r = out[cfg][ci]
            ctx.count('mps-' + cfg, c, nontrivial=True, sample={'case': c})
            if 'runner_error' in r or 'crash' in r:
                ctx.fail('correspondence', 'mps runner failed (%s): %s' % (cfg, str(r)[-700:]), {'stream': 'mps', 'case': c})
                continue
            info = {'stream': 'mps', 'config': cfg, 'case': c, 'report': {k: v for k, v in r.items() if k != 'measurements'}}
            for k in ('ctor_mps_copies', 'ctor_mps_source_untouched', 'ctor_mpo_copies', 'get_B_nocopy_is_stored', 'get_B_copy_independent',
                      'get_B_form_conversion_pure', 'get_B_converted_independent', 'get_theta_independent', 'get_W_copy_independent'):
                if not r.get(k):
                    ctx.fail('oracle', '[%s] MPS/MPO aliasing contract violated: %s is False' % (cfg, k), info, match_key='C03:mps:' + k)
            acc = r.get('accessors') or {}
            ctx.cov['mps_accessor_calls'] = ctx.cov.get('mps_accessor_calls', 0) + acc.get('calls', 0)
            ctx.cov['mps_accessor_documented_views'] = ctx.cov.get('mps_accessor_documented_views', 0) + acc.get('shared_documented', 0)
            if not acc.get('pure', False):
                ctx.fail('oracle', '[%s] calling the accessors of the MPS/MPO (get_B, get_theta, get_SL/SR, get_W, get_rho_segment, copy) '
                         'changed the network' % cfg, info, match_key='C03:mps:accessors-not-pure')
            if acc.get('n_errors', 0) > 0.2 * max(1, acc.get('calls', 0)):
                ctx.fail('correspondence', '[%s] too many accessor calls failed: %s' % (cfg, acc.get('errors')), info)
            for sh in acc.get('shared_undocumented', []):
                ctx.fail('oracle', '[%s] %s (MPS stored in forms %s) returned a tensor that owns memory in common with %s stored in the '
                         'network, although only get_B/get_W(copy=False), MPO.copy and get_SL/get_SR are documented to hand out stored data; '
                         'writing +1 into the buffers of the returned tensor (what theta *= x / iadd_prefactor_other / theta[idx] = x do) '
                         'changed: %s' % (cfg, sh['call'], acc.get('forms'), sh['shares_with'], sh.get('write_changed')),
                         dict(info, accessor=sh), match_key='C03:mps:%s:hidden-buffer-sharing' % sh['accessor'])
            for name, m in r['measurements'].items():
                if m['psi_changed'] or m['psi2_changed'] or m['mpo_changed']:
                    ctx.fail('oracle', '[%s] %s changed its operands: psi parts %s, other state %s, MPO %s' % (
                        cfg, name, m['psi_changed'], m['psi2_changed'], m['mpo_changed']), dict(info, measurement=name, detail=m),
                        match_key='C03:mps:%s:operand-changed' % name)
            for name, m in r['krylov'].items():
                if m['psi0_changed'] or m['psi_changed']:
                    ctx.fail('oracle', '[%s] %s changed its start vector (%s) / the MPS (%s); the solver works on psi0.copy()' % (
                        cfg, name, m['psi0_changed'], m['psi_changed']), dict(info, solver=name), match_key='C03:krylov:%s:psi0-changed' % name)
    # ---- MPS-level histories (constructor, get_B, set_B, measurements, in-place methods on returned tensors) <-> Model/StoreMps.v
    import c03_mpshist
    c03_mpshist.run_stream(ctx, mult=mult)
    # ---- whole-object fingerprints of every live MPS/MPO around every public call (finite, infinite, segment; charge sectors/gauges)
    c03_mpsobj.finish(ctx, mpsobj_handle)
    # ---- whole-object fingerprints of the shared Site, lattice, MPS, every MPO / MPOGraph / term collection / model around every call
    c03_mpoobj.finish(ctx, mpoobj_handle)
    ctx.assumptions += [
        'C03 store model (coq/Model/Store.v): ten heap transformers (new, copy deep/shallow, buffer-writing and rebinding in-place methods, '
        'iproject, unary copy-then-modify, scale_axis, add, tensordot); all other tenpy operations are mapped to the nearest of them in '
        'harness/c03.py:judge and are covered by the fingerprint oracle only',
        'C03 observable value of a tensor = dense values (sum of embedded blocks), dtype, labels, qtotal, identity and content of its legs; '
        'the order/sortedness of _qdata and memory layout are representation, not value',
        'C03: effect of an in-place write on shallow copies is unspecified by Array.copy; the check only requires that a shallow copy keeps '
        'labels/legs/qtotal and stays consistent',
        'C03 documented sharing of block memory: Array.copy(deep=False), gauge_total_charge, sort_legcharge, replace_label(s), add_trivial_leg, '
        'astype(copy=False); MPS.get_B / MPO.get_W with copy=False, MPO.copy (shallow); MPS.get_SL/get_SR return the stored singular values '
        'themselves (plain accessors, no copy is claimed).  Every other common memory between a result and a live tensor is a violation',
        'C03 mpo-object: the ORDER of the axes of a completely labelled stored tensor is representation, not value (tenpy addresses the legs '
        'of W tensors by label; MPO.make_U_II, group_sites and _make_graph itranspose the stored W): the fingerprint of a labelled tensor is '
        'taken in sorted-label order, calls that only reordered axes are counted in coverage.mpo_object_calls_that_only_reordered_axes_of_stored_tensors',
        'C03 mpo-object: lazily computed private caches are not observable state: MPO._graph/_outer_permutation/_cycles, '
        'MPOGraph._ordered_states, Lattice._mps_sites_cache, Model._rng; the identity (not the value) of the inner python lists of a '
        'TermList is not judged (TermList.order_combine, called by MPOGraph.from_term_list, re-creates them)',
        'C03 mpo-object: Model.copy() and MPO.copy() are documented shallow copies; in-place methods that write INTO shared containers '
        '(MPO.set_W, Model.add_*, Model.enlarge_mps_unit_cell -> lattice) are exercised on deep copies, those that rebind the attributes of '
        'the receiver (MPO.group_sites / sort_legcharges / enlarge_mps_unit_cell, Model.group_sites) on the shallow copy',
    ]
    return ctx.finish(RULE + '  ' + c03_mpsobj.RULE + '  ' + c03_mpoobj.RULE, 'frame theorems on the store model for all heaps/aliasing patterns; every history is replayed on the model and judged by '
                      'fingerprints of all live objects in both configurations')


RULE = ('history: 6-12 steps over tensors of rank 1-4 (0-3 charges, both qconj, missing blocks, 5 dtypes) where every register stays alive; '
        '16 % of the steps are shallow/deep copies, 10 % use the same tensor (or a shallow copy) twice, 16 % are in-place methods preferably '
        'on tensors that have copies, plus iproject/scale_axis/permute/setitem/LegCharge methods; non-trivial = at least one shallow copy or '
        'in-place step; each history runs in the pure-Python and the compiled configuration.  Block structure of the operands: 55 % generic, '
        '20 % one block per leg (no charges / product states: single-block fast paths of combine_legs/split_legs), 15 % mixed, 10 % one '
        'populated charge sector; combine-then-split with the combined tensor kept alive, replace_label, add_trivial_leg/squeeze, '
        'astype(copy=False), zeros_like, full-slice getitem.  After every step the block memory of all live tensors is compared '
        '(np.shares_memory) and every new sharing that is not a documented shallow copy is probed by writing into the buffers.  '
        'mps: small MPS/MPO (finite and infinite; entangled or product state; stored in B, A, C, Th or per-site mixed forms); every accessor '
        '(get_B x 11 forms x copy x label_p, get_theta n=1,2,3 x formL x formR, get_SL/SR, get_W, get_rho_segment, copy, extract_segment) on '
        'every site is compared memory-wise with all buffers stored in the network.  mps-history: 6-14 steps on an entangled MPS of 2-4 '
        'sites built from the caller\'s tensors (random forms incl. non-canonical, random label orders; Sz / parity / no charge): 30 % get_B '
        '(form, copy), 12 % set_B, 14 % measurements, 24 % in-place methods (70 % of them through an alias of a stored tensor), 20 % copies / '
        'a*s / a+b; half of the histories in each configuration; non-trivial = an in-place step or a stored tensor changed.')
