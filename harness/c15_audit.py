"""C15 - streams added by the coverage audit (called from harness/c15.py):

truncate-float   truncate on arbitrary float spectra (not on the dyadic grid of the Coq model): values around the DEFAULT
                 thresholds (svd_min = trunc_cut = 1e-14, chi_max = 100), many decades, near-degenerate multiplets, values
                 below 1e-100 next to exact zeros, length > 100; input forms (strided view, read-only, Config instead of dict,
                 second call with the same options object).  Oracle: documented priority by brute force in exact rational
                 arithmetic; cases whose decisive comparison is closer than 1e-12 (relative) to its threshold without being
                 exactly equal are counted as trivial and not judged.
err-api          every public name of TruncationError (copy, +, +=, sum(), ov_err, repr, defaulted arguments, HDF5)
eig-svd          truncation._eig_based_svd called directly with every combination of need_U / need_Vd / trunc_params
callers          MPS.compress_svd: the accumulated error / norm against what the svd_theta calls reported and against the
                 dense state
"""
import math
from fractions import Fraction

import common

DEFAULTS = {'chi_max': 100, 'chi_min': None, 'degeneracy_tol': None, 'svd_min': 1.0e-14, 'trunc_cut': 1.0e-14}
OPTION_ORDER = ['chi_max', 'chi_min', 'degeneracy_tol', 'svd_min', 'trunc_cut']
KNOWN_TINY = 'C15:truncate:zero-replaced-by-1e-100-outranks-smaller-positive-value'
KNOWN_EIG_NOVEC = 'C15:_eig_based_svd:need_U=need_Vd=False:wrong-contraction-axes'


class Ambiguous(Exception):
    pass


def effective(opts):
    """option values truncate works with: absent -> documented default"""
    return {k: (DEFAULTS[k] if opts.get(k, 'absent') == 'absent' else opts[k]) for k in OPTION_ORDER}


def oracle_cut_exact(S, eff):
    """documented priority (chi_max, chi_min, degeneracy_tol, svd_min, trunc_cut; a constraint that cannot be fulfilled
    without violating a previous one is ignored; keep as many values as allowed), literally, by enumeration of all cuts of
    the ascending spectrum in exact arithmetic.  Cut c keeps ss[c:].  Raises Ambiguous when a decisive float comparison
    of the implementation is closer to its threshold than rounding can resolve."""
    ss = sorted(Fraction(x) for x in S)
    n = len(ss)
    A = list(range(n))

    def restrict(A, pred):
        B = [c for c in A if pred(c)]
        return B if B else A
    cm = eff['chi_max']
    if cm is not None and cm > 0:
        A = restrict(A, lambda c: n - c <= cm)
    cn = eff['chi_min']
    if cn is not None and cn > 1:
        A = restrict(A, lambda c: n - c >= cn)
    tol = eff['degeneracy_tol']
    if tol:
        def nondeg(c):
            if c == 0:
                return True
            lo, hi = ss[c - 1], ss[c]
            if lo == hi:
                return False
            if lo == 0:
                if hi < Fraction(1, 10 ** 90) or tol > 20:
                    raise Ambiguous('zero next to a tiny value under degeneracy_tol')
                return True
            r = (hi - lo) / lo
            d = math.log1p(float(r)) if r < 1 else math.log(float(hi / lo))
            if abs(d - tol) <= 1e-9 * tol + 1e-12:
                raise Ambiguous('degeneracy at the tolerance')
            return d >= tol
        A = restrict(A, nondeg)
    sm = eff['svd_min']
    if sm is not None:
        smq = Fraction(sm)

        def big_enough(c):
            v = ss[c]
            if v != smq and abs(v - smq) <= smq * Fraction(1, 10 ** 11):
                raise Ambiguous('value at svd_min')
            return v >= smq
        A = restrict(A, big_enough)
    tc = eff['trunc_cut']
    if tc is not None:
        tc2 = Fraction(tc) ** 2
        cum = []
        acc = Fraction(0)
        for v in ss:
            acc += v * v
            cum.append(acc)

        def weight(c):
            w = cum[c]
            if 0 < w < Fraction(1, 10 ** 290) or any(0 < v < Fraction(1, 10 ** 150) for v in ss[:c + 1]):
                raise Ambiguous('squares underflow')
            if abs(w - tc2) <= max(w, tc2) * Fraction(1, 10 ** 11) and (w != tc2 or c > 0 or ss[0] != Fraction(tc)):
                raise Ambiguous('weight at trunc_cut^2')
            return w > tc2
        A = restrict(A, weight)
    return min(A), ss


# ------------------------------------------------------------------------------------------------ generators
def _opt(rng, values, p_absent=0.2, p_none=0.25):
    r = rng.random()
    if r < p_absent:
        return 'absent'
    if r < p_absent + p_none:
        return None
    return rng.choice(values)


def gen_float_case(rng, i):
    fam = ['defaults', 'decades', 'multiplets', 'tiny', 'big-n', 'schmidt'][i % 6]
    opts = {}
    if fam == 'defaults':
        n = rng.randint(1, 10)
        pool = [0.0, 1e-16, 5e-15, 1e-14, 1e-14, 2e-14, 3e-14, 1e-12, 1e-11, 1e-10, 2e-10, 1e-7, 0.3, 0.7, 0.64]
        S = [rng.choice(pool) for _ in range(n)]
        if rng.random() < 0.3:
            S = [x for x in S if x <= 1e-10] or [1e-11]        # nothing above 1e-10: the warning path
        opts = {'chi_max': _opt(rng, [1, 2, n, 100], 0.6, 0.2), 'chi_min': _opt(rng, [2, n], 0.7, 0.2),
                'degeneracy_tol': _opt(rng, [1e-6, 0.0], 0.6, 0.2), 'svd_min': _opt(rng, [1e-14, 2e-14, 1e-13, 0.0], 0.6, 0.15),
                'trunc_cut': _opt(rng, [1e-14, 5e-15, 2e-14, 0.0, 1e-10], 0.6, 0.15)}
    elif fam == 'decades':
        n = rng.randint(1, 14)
        sc = rng.choice([1.0, 1.0, 1e-5, 37.5, 1e3])
        S = [sc * 10 ** rng.uniform(-30, 0) for _ in range(n)] + [0.0] * rng.choice([0, 0, 1, 2])
        v = rng.choice(S)
        opts = {'chi_max': _opt(rng, [1, 2, 3, n, n + 2, 0]), 'chi_min': _opt(rng, [0, 1, 2, 3, n, n + 1]),
                'degeneracy_tol': _opt(rng, [1e-8, 0.5, 3.0, 0.0]),
                'svd_min': _opt(rng, [v, v, v * 1.5, v * 0.5, 1e-20, 1e-3 * sc, 0.0]),
                'trunc_cut': _opt(rng, [min(x for x in S), v * 0.9, 1e-8, 1e-3, 0.5, 0.0])}
    elif fam == 'multiplets':
        S = []
        for _ in range(rng.randint(1, 5)):
            v = 10 ** rng.uniform(-6, 0)
            S.append(v)
            for _ in range(rng.choice([0, 1, 1, 2, 3])):
                S.append(v * (1 + rng.choice([0.0, 0.0, 1e-11, 1e-9, 1e-7, 1e-5, 1e-3, 1e-2])))
        n = len(S)
        opts = {'chi_max': _opt(rng, [1, 2, 3, max(1, n // 2), n - 1 if n > 1 else 1], 0.05, 0.15),
                'chi_min': _opt(rng, [2, 3, n], 0.5, 0.2),
                'degeneracy_tol': _opt(rng, [1e-10, 1e-8, 1e-6, 1e-4, 1e-2, 0.5], 0.05, 0.05),
                'svd_min': _opt(rng, [1e-8, 1e-3], 0.3, 0.5), 'trunc_cut': _opt(rng, [1e-8, 1e-2, 0.3], 0.3, 0.5)}
    elif fam == 'tiny':
        n = rng.randint(2, 7)
        pool = [0.0, 0.0, 5e-324, 1e-310, 1e-200, 1e-120, 1e-101, 1e-99, 1e-50, 1.0, 0.5]
        S = [rng.choice(pool) for _ in range(n)]
        opts = {'chi_max': _opt(rng, [1, 2, 3, n - 1], 0.1, 0.2), 'chi_min': _opt(rng, [2, 3], 0.6, 0.2),
                'degeneracy_tol': rng.choice(['absent', None, 0.0]),
                'svd_min': rng.choice([None, None, 0.0, 'absent']), 'trunc_cut': rng.choice([None, None, 0.0, 'absent'])}
    elif fam == 'big-n':
        n = rng.randint(101, 260)
        S = [10 ** rng.uniform(-6, 0) for _ in range(n)]
        opts = {'chi_max': rng.choice(['absent', 'absent', 'absent', None, 100, 101, n, n - 1, 99]),
                'chi_min': _opt(rng, [2, 100, 101, 120], 0.6, 0.2), 'degeneracy_tol': _opt(rng, [1e-6, 1e-2], 0.6, 0.2),
                'svd_min': _opt(rng, [1e-5, 1e-3], 0.4, 0.3), 'trunc_cut': _opt(rng, [1e-4, 1e-2], 0.4, 0.3)}
    else:   # a normalised, decaying Schmidt spectrum as an SVD returns it
        n = rng.randint(2, 40)
        raw = sorted((math.exp(-rng.uniform(0.2, 1.5) * k) * rng.uniform(0.5, 1.0) for k in range(n)), reverse=True)
        nrm = math.sqrt(sum(x * x for x in raw))
        S = [x / nrm for x in raw]
        opts = {'chi_max': _opt(rng, [1, 2, 4, 8, 16, n]), 'chi_min': _opt(rng, [2, 4, n], 0.6, 0.2),
                'degeneracy_tol': _opt(rng, [1e-8, 1e-3], 0.6, 0.2), 'svd_min': _opt(rng, [1e-10, 1e-6, 1e-3, 0.1]),
                'trunc_cut': _opt(rng, [1e-10, 1e-5, 1e-2, 0.3])}
    if opts.get('trunc_cut') not in ('absent', None) and not opts['trunc_cut'] < 1.0:
        opts['trunc_cut'] = 0.5                      # (trunc_cut >= 1 is an error by documentation: stream truncate-malformed)
    if fam not in ('schmidt',) and rng.random() < 0.7:
        rng.shuffle(S)
    form = {'view': rng.random() < 0.3, 'readonly': rng.random() < 0.3, 'config': rng.random() < 0.4, 'twice': rng.random() < 0.4}
    return {'S': S, 'opts': opts, 'form': form, 'family': fam}


def binding_categories(S, opts, cut):
    """category of every option of this case: absent / None / value, with ':binding' when ignoring the option would
    change the result (so the value - or the default - really decided)"""
    eff = effective(opts)
    out = {}
    for k in OPTION_ORDER:
        v = opts.get(k, 'absent')
        cat = 'absent' if v == 'absent' else ('None' if v is None else 'value')
        if eff[k] is not None:
            e2 = dict(eff)
            e2[k] = None
            try:
                if oracle_cut_exact(S, e2)[0] != cut:
                    cat += ':binding'
            except Ambiguous:
                pass
        out[k] = cat
    return out


def truncate_float_stream(ctx, rng, params):
    n = ctx.pick(600, 6000)
    if not ctx.proof.ok:
        n *= 2
    cases = [c['case'] for c in common.corpus_cases('C15') if c.get('stream') == 'truncate-float']
    cases += [gen_float_case(rng, i) for i in range(n)]
    nchunk = min(common.NPROC, ctx.pick(4, 8))
    chunks = [ch for ch in (cases[i::nchunk] for i in range(nchunk)) if ch]

    def judge(res):
        hist = {}
        for ch, (r, err) in zip(chunks, res):
            if err:
                ctx.fail('correspondence', 'truncate-float runner failed: ' + err[-400:], None)
                continue
            for c, x in zip(ch, r):
                judge_float_case(ctx, c, x, hist, params)
        ctx.cov['truncate_float'] = hist
    return 'truncate-float', 'truncate', chunks, judge


def judge_float_case(ctx, c, x, hist, params):
    S, opts = c['S'], c['opts']
    fam = c.get('family', '?')
    h = hist.setdefault(fam, {'cases': 0, 'ambiguous': 0, 'truncated': 0})
    h['cases'] += 1
    for k, v in (c.get('form') or {}).items():
        params.note('truncate', 'S' if k in ('view', 'readonly') else 'options', k if v else 'plain')
    rec = {'stream': 'truncate-float', 'case': c}
    if 'runner_error' in x:
        ctx.fail('correspondence', 'truncate-float runner failed: ' + x['runner_error'][-400:], rec)
        return
    if 'error' in x:
        ctx.count('truncate-float', [S, opts], nontrivial=True)
        ctx.fail('oracle', 'truncate raised %s on a valid spectrum/options' % x['error'], rec, match_key='C15:truncate-raises')
        return
    try:
        cut, ss = oracle_cut_exact(S, effective(opts))
    except Ambiguous:
        h['ambiguous'] += 1
        ctx.count('truncate-float', [S, opts], nontrivial=False)
        return
    for k, cat in binding_categories(S, opts, cut).items():
        params.note('truncate', 'options.' + k, cat)
    mask = x['mask']
    probs = []
    api = x.get('api') or {}
    if len(mask) != len(S):
        probs.append('mask has length %d for %d values' % (len(mask), len(S)))
        mask = (mask + [False] * len(S))[:len(S)]
    kept = sorted(Fraction(v) for v, m in zip(S, mask) if m)
    disc = [Fraction(v) for v, m in zip(S, mask) if not m]
    order_bad = bool(disc and kept and max(disc) > min(kept))
    if order_bad:
        probs.append('discarded %r > kept %r' % (float(max(disc)), float(min(kept))))
    if kept != ss[cut:]:
        probs.append('kept %d values %s, documented priority keeps %d: %s' % (
            len(kept), [float(v) for v in kept][:6], len(ss) - cut, [float(v) for v in ss[cut:]][:6]))
    e_true = sum(v * v for v in disc)
    n_true = sum(v * v for v in kept)
    if abs(Fraction(x['eps']) - e_true) > e_true * Fraction(1, 10 ** 12) + Fraction(1, 10 ** 300):
        probs.append('err.eps = %r, discarded weight %r' % (x['eps'], float(e_true)))
    if abs(Fraction(x['norm_new']) ** 2 - n_true) > n_true * Fraction(1, 10 ** 12) + Fraction(1, 10 ** 300):
        probs.append('norm_new^2 = %r, kept weight %r' % (x['norm_new'] ** 2, float(n_true)))
    if abs(x['ov'] - (1. - 2. * x['eps'])) > 1e-12:
        probs.append('ov != 1 - 2 eps')
    if api:
        if not api['S_unchanged']:
            probs.append('truncate modified its argument S')
        if api['mask_dtype'] != 'bool' or api['mask_shape'] != [len(S)]:
            probs.append('mask is %s %s, documented: 1D bool array' % (api['mask_dtype'], api['mask_shape']))
        if not api['norm_matches']:
            probs.append('norm_new != np.linalg.norm(S[mask])')
        if not api['err_type']:
            probs.append('err is not a TruncationError')
        if api.get('second_equal') is False:
            probs.append('a second call with the same options object gives a different result (%s)' % api.get('second_error', ''))
    trunc = not all(mask)
    h['truncated'] += 1 if trunc else 0
    ctx.count('truncate-float', [S, opts], nontrivial=trunc or len(set(S)) > 1,
              sample={'S': S[:12], 'opts': opts, 'family': fam, 'kept': len(kept)})
    if probs:
        # structural condition of the known defect: an exact zero (handled as 1e-100) next to a positive value below 1e-100
        tiny_zero = any(v == 0 for v in S) and any(0 < v < 1e-100 for v in S)
        only_order = tiny_zero and all(p.startswith(('discarded', 'kept')) for p in probs)
        ctx.fail('oracle', 'truncate (float spectrum): ' + '; '.join(probs[:4]), dict(rec, impl=x),
                 match_key=KNOWN_TINY if only_order else 'C15:truncate-float')


# ------------------------------------------------------------------------------------------------ TruncationError API
def err_api_stream(ctx, rng, params):
    cases = []
    for i in range(ctx.pick(60, 600)):
        def te():
            k = rng.random()
            if k < 0.15:
                return [0.0, 1.0]                      # the default "no truncation"
            if k < 0.3:
                return [0.0, rng.choice([0.5, 1.0 - 2 ** -20])]     # eps == 0, ov != 1 : first test of __repr__ false, second true
            if k < 0.45:
                return [rng.randint(1, 1 << 20) / (1 << 30), 1.0]   # eps != 0, ov == 1
            e = rng.randint(1, 1 << 20) / (1 << 30)
            return [e, 1.0 - 2.0 * e]
        cases.append({'a': te(), 'b': te(), 'norm_new': rng.randint(1, 4096) / 4096,
                      'norm_old': rng.choice([1.0, 2.0, 0.5, 4.0]),
                      'S_disc': [rng.randint(0, 1000) / 4096 for _ in range(rng.randint(0, 5))]})
    def judge(res):
        (r, err), = res
        if err:
            ctx.fail('correspondence', 'err-api runner failed: ' + err[-300:], None)
            return
        for c, x in zip(cases, r):
            judge_err_api(ctx, c, x, params)
    return 'err-api', 'err_api', [cases], judge


def judge_err_api(ctx, c, x, params):
    if True:
        rec = {'stream': 'err-api', 'case': c}
        if 'runner_error' in x:
            ctx.fail('oracle', 'TruncationError API raised: ' + x['runner_error'][-300:], rec, match_key='C15:err-api')
            return
        (ae, ao), (be, bo) = c['a'], c['b']
        p = []

        def close(got, want, what, tol=1e-15):
            if len(got) < len(want) or any(abs(g - w) > tol for g, w in zip(got, want)):
                p.append('%s = %s, expected %s' % (what, got[:len(want)], want))
        if x['default'] != [0.0, 1.0]:
            p.append('TruncationError() = %s, documented "no truncation" (0, 1)' % x['default'])
        if x['repr_default'] != 'TruncationError()':
            p.append('repr of the default is %r' % x['repr_default'])
        want_repr = 'TruncationError()' if (ae == 0 and ao == 1.0) else 'TruncationError(eps=%.4e, ov=%.10f)' % (ae, ao)
        if x['repr_a'] != want_repr:
            p.append('repr = %r, expected %r' % (x['repr_a'], want_repr))
        close([x['ov_err_a']], [1.0 - ao], 'ov_err')
        close(x['copy'][:2], [ae, ao], 'copy()', 0)
        if x['copy'][2] or x['copy'][3] != 'TruncationError':
            p.append('copy() returned self / a %s' % x['copy'][3])
        close(x['a_after_copy_mutation'], [ae, ao], 'original after changing its copy', 0)
        close(x['sum'][:2], [ae + be, ao * bo], 'a + b')
        if x['sum'][2]:
            p.append('a + b returned one of its operands')
        close(x['operands_after_add'], [ae, ao, be, bo], 'operands after a + b', 0)
        close(x['sum2'], [ae + be + ae, ao * bo * ao], '(a + b) + a.copy()')
        close(x['s_after_second_add'], [ae + be, ao * bo], 'a + b after it was used as an operand')
        close(x['neutral'], [ae, ao, 0.0, 1.0], 'TruncationError() + a and the neutral element afterwards')
        close(x['iadd'], [ae + be + ae, ao * bo * ao], 'acc += a, b, a')
        close(x['builtin_sum'], [ae + be + ae, ao * bo * ao], 'sum([a, b, a], TruncationError())')
        close(x['operands_after_loops'], [ae, ao, be, bo], 'operands after accumulation loops', 0)
        nn, no = c['norm_new'], c['norm_old']
        close(x['from_norm_default'][:2], [1 - nn * nn, 1 - 2 * (1 - nn * nn)], 'from_norm(norm_new)', 1e-13)
        close(x['from_norm'], [1 - nn * nn / no ** 2, 1 - 2 * (1 - nn * nn / no ** 2)], 'from_norm(norm_new, norm_old)', 1e-13)
        w = sum(v * v for v in c['S_disc'])
        close(x['from_S_default'][:2], [w, 1 - 2 * w], 'from_S(S)', 1e-13)
        close(x['from_S'], [w / no ** 2, 1 - 2 * w / no ** 2], 'from_S(S, norm_old)', 1e-13)
        if x['from_norm_default'][2] != 'TruncationError' or x['from_S_default'][2] != 'TruncationError':
            p.append('from_norm / from_S return %s / %s' % (x['from_norm_default'][2], x['from_S_default'][2]))
        if not x['S_disc_unchanged']:
            p.append('from_S modified its argument')
        if x['hdf5'] is not None:
            close(x['hdf5'][:2] + x['hdf5'][3:], [ae, ao, 0.0, 1.0], 'HDF5 round trip', 0)
            if x['hdf5'][2] != 'TruncationError':
                p.append('HDF5 round trip returns a %s' % x['hdf5'][2])
        params.note('TruncationError.from_norm', 'norm_old', 'default')
        params.note('TruncationError.from_norm', 'norm_old', repr(no))
        params.note('TruncationError.from_S', 'norm_old', 'default')
        params.note('TruncationError.from_S', 'norm_old', repr(no))
        params.note('TruncationError.__repr__', 'self', 'default' if want_repr == 'TruncationError()' else 'eps=0' if ae == 0 else 'ov=1' if ao == 1.0 else 'generic')
        ctx.count('err-api', c, nontrivial=ae != 0 or be != 0)
        if p:
            ctx.fail('oracle', 'TruncationError: ' + '; '.join(p[:4]), dict(rec, impl=x), match_key='C15:err-api')


# ------------------------------------------------------------------------------------------------ _eig_based_svd
def eig_svd_stream(ctx, rng, params):
    cases = []
    for i in range(ctx.pick(96, 600)):
        mod = rng.choice([None, None, 1, 2, 3])
        legs = []
        for l in range(2):
            nb = rng.randint(1, 3)
            legs.append([[rng.randint(1, 4) for _ in range(nb)], [rng.randint(-1, 2) for _ in range(nb)], 1 if l == 0 else -1])
        qt = 0 if mod is None else rng.choice([0, 0, legs[0][1][0] - legs[1][1][0]])
        flags = [(True, False), (False, True), (False, False), (True, True)][i % 4]
        if flags == (True, True) and i % 8 != 3:
            flags = [(True, False), (False, True), (False, False)][(i // 4) % 3]      # the documented NotImplementedError: few cases
        with_opts = (i // 2) % 3 != 0
        opts = None
        if with_opts:
            opts = {'chi_max': rng.choice([1, 2, 3, 5, 100, None, 'absent']), 'svd_min': rng.choice([None, 1e-14, 1e-3, 0.2, 'absent']),
                    'trunc_cut': rng.choice([None, 1e-14, 1e-2, 0.3, 'absent']), 'chi_min': rng.choice(['absent', None, 2]),
                    'degeneracy_tol': rng.choice(['absent', None, 1e-6])}
        cases.append({'seed': ctx.seed * 100000 + 70000 + i, 'need_U': flags[0], 'need_Vd': flags[1], 'opts': opts,
                      'normalize': with_opts or rng.random() < 0.5, 'defaults': opts is None and rng.random() < 0.5,
                      'inner_labels': rng.choice([None, ['vR', 'vL'], ['r', 'l']]),
                      'spec': {'mod': mod, 'legs': legs, 'qtotal': qt, 'complex': rng.random() < 0.5,
                               'lowrank': rng.random() < 0.2}})
    nchunk = min(common.NPROC, 4)
    chunks = [ch for ch in (cases[i::nchunk] for i in range(nchunk)) if ch]
    def judge(res):
        for ch, (r, err) in zip(chunks, res):
            if err:
                ctx.fail('correspondence', 'eig-svd runner failed: ' + err[-400:], None)
                continue
            for c, x in zip(ch, r):
                judge_eig_svd(ctx, c, x, params)
    return 'eig-svd', 'eig_svd', chunks, judge


def judge_eig_svd(ctx, c, x, params):
    rec = {'stream': 'eig-svd', 'case': c}
    both = c['need_U'] and c['need_Vd']
    novec = not c['need_U'] and not c['need_Vd']
    if 'skip' in x:
        ctx.count('eig-svd', c, nontrivial=False)
        return
    params.note('_eig_based_svd', 'need_U', str(c['need_U']))
    params.note('_eig_based_svd', 'need_Vd', str(c['need_Vd']))
    params.note('_eig_based_svd', 'trunc_params', 'None' if c['opts'] is None else 'options')
    params.note('_eig_based_svd', 'inner_labels', 'default' if c['inner_labels'] is None else str(c['inner_labels']))
    if 'runner_error' in x:
        ctx.fail('correspondence', 'eig-svd runner failed: ' + x['runner_error'][-400:], rec)
        return
    ctx.count('eig-svd', c, nontrivial=not both)
    if both:
        if x.get('error') != 'NotImplementedError':
            ctx.fail('oracle', '_eig_based_svd(need_U=True, need_Vd=True) is documented as not supported (NotImplementedError); got %s'
                     % (x.get('error') or 'a result'), rec, match_key='C15:eig-svd')
        return
    mk = KNOWN_EIG_NOVEC if novec else 'C15:eig-svd'
    if 'error' in x:
        ctx.fail('oracle', '_eig_based_svd(need_U=%s, need_Vd=%s) raised %s: %s' % (c['need_U'], c['need_Vd'], x['error'], x.get('msg')),
                 dict(rec, impl=x), match_key=mk)
        return
    p = []
    S, ren = x['S'], x['renorm']
    sv = sorted(x['dense_sv'], reverse=True)
    top = max(sv[0], 1e-300)
    if abs(math.sqrt(sum(s * s for s in S)) - 1) > 1e-10:
        p.append('returned S not normalised')
    got = sorted((s * ren for s in S), reverse=True)
    # eigenvalue route: absolute accuracy ~ sqrt(machine precision) * largest singular value
    tol = 3e-7 * top
    # (the eigenvalue route returns one value per row resp. column: min(M, N) singular values and |M - N| zeros)
    m = max(len(got), len(sv))
    sv = sv + [0.0] * (m - len(sv))
    if c['opts'] is None:
        if any(abs(a - b) > tol for a, b in zip(got + [0.0] * (m - len(got)), sv)):
            p.append('S*renormalization %s are not the singular values %s' % (got[:5], sv[:5]))
        if abs(ren - x['norm_A']) > 1e-9 * x['norm_A']:
            p.append('renormalization %r != norm of the matrix %r (nothing truncated)' % (ren, x['norm_A']))
        if x['eps'] != 0.0:
            p.append('nothing truncated but eps = %r' % x['eps'])
    else:
        if any(abs(a - b) > tol for a, b in zip(got, sv)):
            p.append('S*renormalization %s are not the largest singular values %s' % (got[:5], sv[:5]))
        cm = c['opts'].get('chi_max')
        if cm not in (None, 'absent') and len(got) > cm:
            p.append('%d values kept, chi_max = %d' % (len(got), cm))
        kept2 = sum(v * v for v in sv[:len(got)])
        if abs(ren * ren - kept2) > 1e-6 * top * top:
            p.append('renormalization^2 %r != kept weight %r' % (ren * ren, kept2))
        if c.get('normalize') and abs(x['eps'] - sum(v * v for v in sv[len(got):])) > 1e-6:
            p.append('eps %r != discarded weight %r of the normalised matrix' % (x['eps'], sum(v * v for v in sv[len(got):])))
    if abs(x['ov'] - (1 - 2 * x['eps'])) > 1e-12:
        p.append('ov != 1 - 2 eps')
    if x['U_none'] == c['need_U'] or x['Vd_none'] == c['need_Vd']:
        p.append('U is None: %s, Vd is None: %s for need_U=%s, need_Vd=%s' % (x['U_none'], x['Vd_none'], c['need_U'], c['need_Vd']))
    for f in ('U', 'Vd'):
        if f + '_iso' in x:
            if x[f + '_iso'] > 1e-9:
                p.append('%s is not an isometry (%.2e)' % (f, x[f + '_iso']))
            if x[f + '_vec'] > tol:
                p.append('columns of %s are not singular vectors: | |A^d u_i| - S_i*renormalization | = %.2e' % (f, x[f + '_vec']))
    if not x['A_unchanged']:
        p.append('_eig_based_svd modified its argument')
    if p:
        ctx.fail('oracle', '_eig_based_svd(need_U=%s, need_Vd=%s, trunc_params=%s): %s' % (
            c['need_U'], c['need_Vd'], c['opts'], '; '.join(p[:4])), dict(rec, impl=x), match_key=mk)


# ------------------------------------------------------------------------------------------------ callers
def callers_stream(ctx, rng, params):
    cases = []
    for i in range(ctx.pick(24, 160)):
        model = rng.choice(['tfi', 'xxz'])
        cases.append({'model': model, 'conserve': rng.choice([None, 'parity']) if model == 'tfi' else rng.choice([None, 'Sz', 'parity']),
                      'L': rng.choice([4, 5, 6]), 'seed': ctx.seed * 100000 + 80000 + i, 'g': rng.choice([0.5, 1.0, 1.5]),
                      'shuffle_prod': rng.random() < 0.5, 'pre_steps': rng.choice([2, 3]), 'pre_chi': 16,
                      'norm0': rng.choice([1.0, 1.0, 2.0, 0.25]), 'via_compress': rng.random() < 0.3,
                      'trunc': {'chi_max': rng.choice([None, 1, 2, 3, 4, 100, 'absent']), 'svd_min': rng.choice([None, 1e-12, 1e-2, 0.2, 'absent']),
                                'trunc_cut': rng.choice([None, 1e-14, 1e-2, 0.3, 'absent'])}})
    nchunk = min(common.NPROC, 8)
    chunks = [ch for ch in (cases[i::nchunk] for i in range(nchunk)) if ch]
    def judge(res):
        for ch, (r, err) in zip(chunks, res):
            if err:
                ctx.fail('correspondence', 'callers runner failed: ' + err[-400:], None)
                continue
            for c, x in zip(ch, r):
                rec = {'stream': 'callers', 'case': c}
                if 'runner_error' in x:
                    ctx.fail('correspondence', 'callers runner failed: ' + x['runner_error'][-400:], rec)
                    continue
                if 'error' in x:
                    ctx.fail('oracle', 'MPS.compress_svd raised ' + x['error'], rec, match_key='C15:callers')
                    continue
                p = []
                calls = x['calls']
                es = sum(k[0] for k in calls)
                ov = 1.0
                keep = 1.0
                ren = 1.0
                for k in calls:
                    ov *= k[1]
                    keep *= (1 - k[0])
                    ren *= k[2]
                if len(calls) != c['L'] - 1:
                    p.append('%d svd_theta calls for %d bonds' % (len(calls), c['L'] - 1))
                if abs(x['eps'] - es) > 1e-13 + 1e-10 * es or abs(x['ov'] - ov) > 1e-12:
                    p.append('returned error (eps %.6e, ov %.12f) != accumulated reports of the calls (%.6e, %.12f)' % (x['eps'], x['ov'], es, ov))
                if abs(x['norm'] - x['norm0'] * ren) > 1e-10 * x['norm0']:
                    p.append('psi.norm %.12e != old norm x product of the reported renormalizations %.12e' % (x['norm'], x['norm0'] * ren))
                # nested orthogonal projections: |psi_old - psi_new|^2 / |psi_old|^2 = 1 - prod(1 - eps_i)
                if abs(x['dist2'] - (1 - keep)) > 1e-9:
                    p.append('dense distance^2 %.6e of the compressed state != 1 - prod(1 - eps_i) = %.6e' % (x['dist2'], 1 - keep))
                cm = c['trunc']['chi_max']
                cm = 100 if cm == 'absent' else cm
                if cm is not None and max(x['chi']) > cm:
                    p.append('chi %s > chi_max %d' % (x['chi'], cm))
                ctx.count('callers', c, nontrivial=es > 1e-20, sample={'case': c, 'eps': x['eps'], 'chi': x['chi']})
                if p:
                    ctx.fail('oracle', 'MPS.compress_svd: ' + '; '.join(p[:4]), dict(rec, impl=x), match_key='C15:callers')
    return 'callers', 'callers', chunks, judge


def run_all(ctx, rng, run_kinds, params):
    """all audit streams in ONE parallel round of implementation processes"""
    plans = [f(ctx, rng, params) for f in (truncate_float_stream, err_api_stream, eig_svd_stream, callers_stream)]
    results = run_kinds(ctx, [(stream, kind, chunks) for stream, kind, chunks, _ in plans])
    for (stream, kind, chunks, judge), res in zip(plans, results):
        judge(res)
