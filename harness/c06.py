"""C06 - leg fusion is a lossless, consistently ordered bijection.

proof gate (coq/Props/C06.v) + correspondence LegPipe / LegCharge operations <-> Model/Pipe.v, Model/Leg.v, Model/PipeOps.v
(vm_compute on every generated case, exhaustive over small legs) + oracles written from the documentation
(bijection, fusion rule, q_map layout, to_qflat before/after, dense reshape/transposition of combine_legs/split_legs;
c06_ops.py: every public method that returns a leg, applied to legs and to pipes, with the pipe contract on every
resulting LegPipe).
"""
import itertools
import time

import common
import c06_ops
import c06_cov
import c06_forms
from common import CoqRaw, coq_lit, Nat

F2A = 'C06:LegPipe.outer_conj:qconj=-1-not-flipped'
F2B = 'C06:LegPipe.outer_conj:sorted-flag-kept-after-negating-charges'
F3A = 'C06:LegCharge.get_qindex:flat_index==ind_len-accepted'
F3B = 'C06:Array.get_leg_index:label==rank-accepted'
F5 = 'C06:Array.combine_legs:unlabeled-non-combined-leg-renamed-?#'
F6 = 'C06:Array.sort_legcharge:sort=False,bunch=False-IndexError'
F7 = 'C06:Array.sort_legcharge:sort=perm-array-ValueError'
F8 = 'C06:Array.combine_legs:new_axes-tuple-with-negative-entry-TypeError'
ARRAY_KEYS = {'get_leg_index:rank': F3B, 'labels:qmark': F5, 'sort_legcharge:nothing-requested': F6, 'sort_legcharge:perm-array': F7,
              'combine:new_axes-tuple-negative': F8}


# ------------------------------------------------------------------------------------------------
# generators
# ------------------------------------------------------------------------------------------------

def enum_legs(mods, maxb, sizes, window):
    """all legs with 1..maxb blocks, block sizes from `sizes`, every charge from `window`, both qconj"""
    qn = len(mods)
    vecs = [list(v) for v in itertools.product(window, repeat=qn)]
    out = []
    for b in range(1, maxb + 1):
        for sz in itertools.product(sizes, repeat=b):
            for ch in itertools.product(vecs, repeat=b):
                for qc in (1, -1):
                    out.append([list(sz), [list(c) for c in ch], qc])
    return out


def enum_pipes(mods, maxlegs, maxb, sizes, window):
    legs = enum_legs(mods, maxb, sizes, window)
    for n in range(1, maxlegs + 1):
        for ls in itertools.product(legs, repeat=n):
            for qconj in (1, -1):
                for srt in (True, False):
                    for bun in (True, False):
                        yield {'mods': mods, 'legs': [list(l) for l in ls], 'qconj': qconj, 'sort': srt, 'bunch': bun}


def rand_leg(rng, mods, maxb=3, sizes=(0, 1, 1, 2, 2), lo=-2, hi=2):
    b = rng.randint(1, maxb)
    return [[rng.choice(sizes) for _ in range(b)], [[rng.randint(lo, hi) for _ in mods] for _ in range(b)], rng.choice([1, -1])]


MODS = [[], [1], [2], [3], [1, 1], [1, 2], [3, 1], [2, 3], [1], [1]]


def rand_pipe(rng, maxlegs=4):
    mods = rng.choice(MODS)
    n = rng.choice([1, 2, 2, 3, 3, 4][:maxlegs + 2])
    n = min(n, maxlegs)
    mb = 3 if n <= 3 else 2
    legs = [rand_leg(rng, mods, maxb=mb) for _ in range(n)]
    if rng.random() < 0.15:      # all single-block legs: the fast path of LegPipe.__init__
        legs = [[l[0][:1], l[1][:1], l[2]] for l in legs]
    return {'mods': mods, 'legs': legs, 'qconj': rng.choice([1, -1]), 'sort': rng.random() < 0.6, 'bunch': rng.random() < 0.6}


def norm_charge(mods, c):
    return [x if m == 1 else x % m for m, x in zip(mods, c)]


# ------------------------------------------------------------------------------------------------
# Coq literals (typed empty lists)
# ------------------------------------------------------------------------------------------------

def zl(xs):
    return '(@nil Z)' if not xs else '[' + '; '.join('(%d)' % x for x in xs) + ']'


def zll(xss):
    return '(@nil (list Z))' if not xss else '[' + '; '.join(zl(x) for x in xss) + ']'


def nl(xs):
    return '(@nil nat)' if not xs else '[' + '; '.join('%d%%nat' % x for x in xs) + ']'


def blocks_lit(mods, sizes, charges):
    if not sizes:
        return '(@nil (Z * list Z))'
    return '[' + '; '.join('((%d), %s)' % (s, zl(norm_charge(mods, c))) for s, c in zip(sizes, charges)) + ']'


def blocks_lit2(bl):
    if not bl:
        return '(@nil (Z * list Z))'
    return '[' + '; '.join('((%d), %s)' % (s, zl(c)) for s, c in bl) + ']'


def leg_lit(mods, leg):
    return '(%s, (%d))' % (blocks_lit(mods, leg[0], leg[1]), leg[2])


def bl(b):
    return 'true' if b else 'false'


def pipe_case_lit(case, r):
    legs = '[' + '; '.join(leg_lit(case['mods'], l) for l in case['legs']) + ']'
    mif = '(@nil (option Z))' if not r['mif'] else '[' + '; '.join('(@None Z)' if k is None else '(Some (%d))' % k for k in r['mif']) + ']'
    return '(%s, %s, (%d), %s, %s, (%s, %s, %s, %s, %s))' % (
        zl(case['mods']), legs, case['qconj'], bl(case['sort']), bl(case['bunch']),
        zll(r['charges']), zl(r['slices']), zll(r['q_map']), zl(r['q_map_slices']), mif)


def pipe_case2_lit(case, r, coq_ops):
    """(case of check_pipe_case, [(op, (directions of the stored legs of the result, qconj, charges, same_blocks, same_layout))])"""
    mods = case['mods']
    nblocks = [[l[0], [norm_charge(mods, c) for c in l[1]]] for l in case['legs']]
    ops = []
    for code, x in coq_ops:
        same_blocks = [[l[0], [norm_charge(mods, c) for c in l[1]]] for l in x['legs']] == nblocks
        same_layout = all(x[k] == r[k] for k in ('slices', 'q_map', 'q_map_slices'))
        ops.append('(%d%%nat, (%s, (%d), %s, %s, %s))' % (code, zl([l[2] for l in x['legs']]), x['qconj'], zll(x['charges']),
                                                        bl(same_blocks), bl(same_layout)))
    return '(%s, %s)' % (pipe_case_lit(case, r),
                         '[' + '; '.join(ops) + ']' if ops else '(@nil (nat * (list Z * Z * list (list Z) * bool * bool)))')


def leg_case_lit(case, r):
    mods = case['mods']
    n = sum(case['leg'][0])
    ex = case['extra']
    if isinstance(ex, int):
        ex = [[ex], [[0] * len(mods)], case['leg'][2]]
    gq = []
    for i, res in r['get_qindex']:
        if i == n:
            continue      # boundary handled by the oracle (see F3A)
        gq.append('((%d), %s)' % (i, '(@None (nat * Z))' if not isinstance(res, list) else '(Some (%d%%nat, (%d)))' % tuple(res)))

    def pb(perm, blocks):
        return '(%s, %s)' % (nl(perm), blocks_lit2(blocks))
    mask = '(@nil bool)' if not case['mask'] else '[' + '; '.join(bl(b) for b in case['mask']) + ']'
    return '(%s, %s, %s, %s, (%s, %s, %s, %s, (%s, %s), %s, %s, %s))' % (
        zl(mods), leg_lit(mods, case['leg']), mask, leg_lit(mods, ex),
        pb(r['sort_1']['perm'], r['sort_1']['blocks']), pb(r['sort_0']['perm'], r['sort_0']['blocks']),
        zl(r['sort_0']['perm_flat']), pb(r['bunch']['idx'], r['bunch']['blocks']),
        zl(r['project']['map_qind']), blocks_lit2(r['project']['blocks']),
        blocks_lit2(r['extend']['blocks']), blocks_lit2(r['flip']['blocks']),
        '(@nil (Z * option (nat * Z)))' if not gq else '[' + '; '.join(gq) + ']')


# ------------------------------------------------------------------------------------------------
# oracles (from the documentation of LegPipe / LegCharge; independent of the Coq model)
# ------------------------------------------------------------------------------------------------

def mod_eq(mods, a, b):
    return all((x - y) % m == 0 if m != 1 else x == y for m, x, y in zip(mods, a, b))


def lexsorted(rows):
    keys = [tuple(reversed(r)) for r in rows]
    return all(keys[i] <= keys[i + 1] for i in range(len(keys) - 1))


def pipe_core_oracle(case, r):
    """the pipe contract for a LegPipe described by r (charges, slices, q_map, q_map_slices, flags, qflat, map_incoming_flat on
    every index tuple) whose incoming legs are case['legs'] and whose direction is case['qconj']; case['sort'] / case['bunch']
    are what was requested at construction (False when unknown).  Used for the constructed pipes and for every pipe
    returned by a public method (c06_ops.py).  returns list of (match_key or None, text)"""
    probs = []
    mods = case['mods']
    legs = case['legs']
    nl_ = len(legs)
    leg_qflat = [c06_ops.qflat_of(mods, l[0], l[1]) for l in legs]      # recomputed from the leg data, not from the pipe
    lens = [sum(l[0]) for l in legs]
    total = 1
    for x in lens:
        total *= x
    mif = r['mif']
    tuples = list(itertools.product(*[range(x) for x in lens]))
    if r['ind_len'] != total or r['slices'][-1] != total or r['slices'][0] != 0:
        probs.append((None, 'ind_len/slices of the pipe do not match the product of the incoming ind_len'))
    if None in mif:
        probs.append((None, 'map_incoming_flat raised: %s' % r.get('mif_error')))
        return probs
    if sorted(mif) != list(range(total)):
        probs.append((None, 'map_incoming_flat is not a bijection onto range(%d): %s' % (total, mif[:12])))
        return probs
    # fusion rule on every index
    for t, k in zip(tuples, mif):
        want = [sum(legs[l][2] * leg_qflat[l][t[l]][c] for l in range(nl_)) for c in range(len(mods))]
        got = [case['qconj'] * x for x in r['qflat'][k]]
        if not mod_eq(mods, want, got):
            probs.append((None, 'fusion rule violated at incoming indices %s -> outgoing index %d: qconj*charge of the pipe %s, '
                                'sum of qconj_l*charge_l of the incoming legs %s (mod %s)' % (list(t), k, got, want, mods)))
            break
    # charges valid
    for c in r['charges']:
        if c != norm_charge(mods, c):
            probs.append((None, 'pipe charge %s is not reduced modulo %s' % (c, mods)))
            break
    # q_map layout
    qm = r['q_map']
    sl = r['slices']
    qms = r['q_map_slices']
    nb = [len(l[0]) for l in legs]
    if sorted(tuple(row[3:]) for row in qm) != sorted(itertools.product(*[range(b) for b in nb])):
        probs.append((None, 'q_map rows are not exactly the block tuples'))
    keys = [(row[2],) + tuple(row[3:]) for row in qm]
    if case['sort'] and case['bunch'] and keys != sorted(keys):
        probs.append((None, 'q_map rows are not lexsorted by (I_s, i_1..i_n)'))
    if [row[2] for row in qm] != sorted(row[2] for row in qm):
        probs.append((None, 'q_map is not sorted by the outgoing block'))
    if qms[0] != 0 or qms[-1] != len(qm) or len(qms) != len(sl):
        probs.append((None, 'q_map_slices has the wrong ends/length'))
    else:
        for I in range(len(qms) - 1):
            rows = qm[qms[I]:qms[I + 1]]
            if any(row[2] != I for row in rows) or not rows:
                probs.append((None, 'q_map_slices does not delimit I_s=%d' % I))
                break
            pos = 0
            for row in rows:
                size = 1
                for l in range(nl_):
                    size *= legs[l][0][row[3 + l]]
                if row[0] != pos or row[1] != pos + size:
                    probs.append((None, 'slices inside the fused block %d do not tile it' % I))
                    break
                pos += size
            if pos != sl[I + 1] - sl[I]:
                probs.append((None, 'fused block %d: rows do not fill the block' % I))
    # C order inside the block and position of the block
    lsl = [[sum(l[0][:i]) for i in range(len(l[0]) + 1)] for l in legs]
    rowof = {tuple(row[3:]): row for row in qm}
    for t, k in zip(tuples, mif):
        q = []
        w = []
        for l in range(nl_):
            qi = max(i for i in range(nb[l]) if lsl[l][i] <= t[l] and legs[l][0][i] > 0 and t[l] < lsl[l][i + 1])
            q.append(qi)
            w.append(t[l] - lsl[l][qi])
        row = rowof.get(tuple(q))
        if row is None:
            break
        within = 0
        for l in range(nl_):
            within = within * legs[l][0][q[l]] + w[l]
        if k != sl[row[2]] + row[0] + within:
            probs.append((None, 'map_incoming_flat%s = %d, but q_map places it at %d' % (list(t), k, sl[row[2]] + row[0] + within)))
            break
    # flags and requests
    if (case['sort'] or r['sorted']) and len(mods) > 0 and not lexsorted(r['charges']):
        probs.append((None, 'pipe is not sorted although sort=%s / flag sorted=%s' % (case['sort'], r['sorted'])))
    adjacent_equal = any(r['charges'][i] == r['charges'][i + 1] for i in range(len(r['charges']) - 1))
    if (case['bunch'] or r['bunched']) and adjacent_equal:
        probs.append((None, 'pipe is not bunched although bunch=%s / flag bunched=%s' % (case['bunch'], r['bunched'])))
    if case['sort'] and case['bunch'] and len(set(map(tuple, r['charges']))) != len(r['charges']):
        probs.append((None, 'sorted and bunched pipe is not blocked by charge'))
    if r['sane'] is not None:
        probs.append((None, 'test_sanity of the pipe fails: %s' % r['sane']))
    if not r['qind_ok']:
        probs.append((None, '_map_incoming_qind does not find the q_map row of a block tuple'))
    return probs


def pipe_oracle(case, r):
    """returns list of (match_key or None, text)"""
    probs = pipe_core_oracle(case, r)
    if None in r['mif'] or sorted(r['mif']) != list(range(r['ind_len'])):
        return probs
    mods = case['mods']
    legs = case['legs']
    sl = r['slices']
    if not c06_ops.same_legs(mods, r['legs'], legs) or not r['attrs_ok']:
        probs.append((None, 'the pipe does not store the legs it was built from: %s' % (r['legs'],)))
    # conj
    c = r['conj']
    if (c['qconj'] != -case['qconj'] or c['legs_qconj'] != [-l[2] for l in legs] or not c['charges_same']
            or not c['qmap_same'] or not c['mif_same'] or c['sane'] is not None or not c['contractible']):
        probs.append((None, 'LegPipe.conj: %s' % c))
    # to_LegCharge
    tl_ = r['to_leg']
    if (not tl_['type_ok'] or [b[1] for b in tl_['blocks']] != r['charges'] or tl_['qconj'] != case['qconj']
            or [b[0] for b in tl_['blocks']] != [sl[i + 1] - sl[i] for i in range(len(sl) - 1)]):
        probs.append((None, 'to_LegCharge does not carry the charges/slices of the pipe'))
    # outer_conj: "like conj, but don't change qconj for incoming legs"
    o = r['outer_conj']
    if o['qconj'] != -case['qconj']:
        key = F2A if (case['qconj'] == -1 and o['qconj'] == -1) else None
        probs.append((key, 'outer_conj of a pipe with qconj=%d returns qconj=%d' % (case['qconj'], o['qconj'])))
    else:
        if (o['legs_qconj'] != [l[2] for l in legs] or o['slices'] != sl or len(o['charges']) != len(r['charges'])
                or not all(mod_eq(mods, [-x for x in a], b) for a, b in zip(r['charges'], o['charges']))
                or any(b != norm_charge(mods, b) for b in o['charges'])):
            probs.append((None, 'outer_conj does not negate the outgoing charges / keep the incoming legs: %s' % o))
        elif o['sane'] is not None:
            key = F2B if (o['sorted'] and not o['is_sorted'] and (not o['bunched'] or o['is_bunched'])) else None
            probs.append((key, 'outer_conj result fails test_sanity (sorted=%s, is_sorted()=%s): %s' % (o['sorted'], o['is_sorted'], o['sane'])))
    return probs


def accessor_problems(mods, sizes, nch, qc, acc):
    """accessors / constructors / comparisons of a LegCharge with blocks (sizes, nch reduced charges) and direction qc"""
    if acc is None:
        return ['the runner returned no accessor results']
    probs = []
    nb = len(sizes)
    sl = [sum(sizes[:i]) for i in range(nb + 1)]
    if acc['get_slice'] != [[sl[q], sl[q + 1]] for q in range(nb)]:
        probs.append('get_slice: %s' % acc['get_slice'])
    if acc['get_charge'] != [[qc * x for x in c] for c in nch]:
        probs.append('get_charge(q) is not charges[q]*qconj: %s' % acc['get_charge'])
    if acc['block_sizes'] != list(sizes):
        probs.append('get_block_sizes: %s' % acc['block_sizes'])
    tup = [tuple(c) for c in nch]
    want_flags = [len(set(tup)) == nb, (not mods) or lexsorted(nch), all(tup[i] != tup[i + 1] for i in range(nb - 1)) and (bool(mods) or nb <= 1)]
    if acc['flags'] != want_flags:
        probs.append('is_blocked/is_sorted/is_bunched: %s, expected %s' % (acc['flags'], want_flags))
    want_sec = sorted(set(tup), key=lambda c: tuple(reversed(c)))
    if [tuple(c) for c in acc['charge_sectors']] != want_sec:
        probs.append('charge_sectors: %s, expected %s' % (acc['charge_sectors'], want_sec))
    if want_flags[0]:
        want_qd = sorted([list(c), sl[q], sl[q + 1]] for q, c in enumerate(nch))
        if acc['to_qdict'] != want_qd:
            probs.append('to_qdict: %s, expected %s' % (acc['to_qdict'], want_qd))
    elif acc['to_qdict'] != 'ValueError':
        probs.append('to_qdict of a leg that is not blocked: %s, documented ValueError' % (acc['to_qdict'],))
    for c, got in acc['qindex_of_charges']:
        # inverse of get_charge: blocks whose charges[q]*qconj equals c (modulo)
        hits = [q for q in range(nb) if mod_eq(mods, [qc * x for x in nch[q]], c)]
        want = hits[0] if len(hits) == 1 else 'ValueError'
        if got != want:
            probs.append('get_qindex_of_charges(%s) = %s, expected %s (blocks with that charge: %s)' % (c, got, want, hits))
    qf = [list(c) for s, c in zip(sizes, nch) for _ in range(s)]
    for name in ('from_qflat', 'from_qflat_1d'):
        f = acc.get(name)
        if f is not None and (f['blocks'] != [[1, c] for c in qf] or f['qconj'] != qc or f['sane'] is not None):
            probs.append('%s(to_qflat()) is not one block per index with the same charges: %s' % (name, f))
    for what, got in sorted(acc.get('rejects', {}).items()):
        if got not in ('ValueError', 'AssertionError', 'skipped'):
            probs.append('a malformed leg / argument is not rejected: %s -> %s' % (what, got))
    f = acc.get('from_qdict') if mods else None      # (qnumber 0: from_qdict cannot parse the empty charge tuples; constructor, not a statement of C06)
    if f is not None and (isinstance(f, str) or f['blocks'] != [[s, list(c)] for s, c in zip(sizes, nch)] or f['qconj'] != qc or f['sane'] is not None):
        probs.append('from_qdict(to_qdict()) does not rebuild the leg: %s' % (f,))
    n = sum(sizes)
    f = acc['from_trivial']
    if f['blocks'] != [[n, [0] * len(mods)]] or f['qconj'] != qc or f['sane'] is not None:
        probs.append('from_trivial(ind_len, chinfo, qconj): %s' % f)
    f = acc['from_trivial_default']
    if f['blocks'] != [[n, []]] or f['qconj'] != 1 or f['sane'] is not None or f['qnumber'] != 0:
        probs.append('from_trivial(ind_len): %s' % f)
    e = acc['eq']
    want_e = {'self': True, 'copy': True, 'rebuilt': True, 'fine_blocks': e['fine_same_structure'], 'ne_fine_blocks': not e['fine_same_structure'],
              'fine_same_structure': e['fine_same_structure'], 'longer': False, 'other_chinfo': 'ValueError',
              'doubled_blocks': n == 0, 'test_equal_doubled_blocks': 'accepted' if n == 0 else 'ValueError',
              'test_equal_other_chinfo': 'ValueError', 'test_equal_longer': 'ValueError', 'test_contractible_longer': 'ValueError'}
    if e != want_e:
        probs.append('==/!=/test_equal/test_contractible with a copy / other block structure / longer leg / other ChargeInfo: %s, expected %s' % (e, want_e))
    ag = acc['again']
    for b in (1, 0):
        x = ag['sort_%d' % b]
        if not x['same'] or x['perm'] != list(range(len(x['perm']))):
            probs.append('sort(bunch=%d) of the sorted leg is not the identity: %s' % (b, x))
    x = ag['bunch']
    if not x['same'] or x['idx'] != list(range(x['n'] + 1)):
        probs.append('bunch() of the bunched leg is not the identity: %s' % x)
    return probs


def nested_oracle(case, r):
    """pipe of pipes: -> (the case as seen by the outer pipe: first incoming leg = outgoing leg of the inner pipe, problems)"""
    probs = []
    mods = case['mods']
    ic = case['inner']
    ri = r['inner']
    inner_case = {'mods': mods, 'legs': case['legs'][:ic['n']], 'qconj': ic['qconj'], 'sort': ic['sort'], 'bunch': ic['bunch']}
    for _, text in pipe_core_oracle(inner_case, ri):
        probs.append('inner pipe of a pipe of pipes: ' + text)
    spec = [[b - a for a, b in zip(ri['slices'], ri['slices'][1:])], ri['charges'], ic['qconj']]
    eff = dict(case, legs=[spec] + case['legs'][ic['n']:])
    # the composed index map (inner map_incoming_flat, then outer) fuses the ORIGINAL legs
    legs = case['legs']
    lens = [sum(l[0]) for l in legs]
    total = 1
    for x in lens:
        total *= x
    comp = r['composed']
    if None in comp or sorted(comp) != list(range(total)):
        probs.append('pipe of pipes: the composed index map is not a bijection onto range(%d): %s' % (total, comp[:12]))
    else:
        leg_qflat = [c06_ops.qflat_of(mods, l[0], l[1]) for l in legs]
        for t, k in zip(itertools.product(*[range(x) for x in lens]), comp):
            want = [sum(legs[l][2] * leg_qflat[l][t[l]][c] for l in range(len(legs))) for c in range(len(mods))]
            got = [case['qconj'] * x for x in r['qflat'][k]]
            if not mod_eq(mods, want, got):
                probs.append('pipe of pipes: fusion rule violated at the original incoming indices %s -> outgoing index %d: qconj*charge %s, '
                             'sum of qconj_l*charge_l %s (mod %s)' % (list(t), k, got, want, mods))
                break
    ci_ = r['conj_inner']
    if not ci_['is_pipe'] or ci_['qconj'] != -ic['qconj'] or ci_['legs_qconj'] != [-l[2] for l in legs[:ic['n']]]:
        probs.append('conj() of a pipe of pipes: the inner pipe %s, documented: conjugated together with its incoming legs' % ci_)
    return eff, probs


def leg_oracle(case, r):
    probs = []
    mods = case['mods']
    sizes, charges, qc = case['leg']
    n = sum(sizes)
    qf = r['qflat']
    want_qf = [norm_charge(mods, c) for s, c in zip(sizes, charges) for _ in range(s)]
    if qf != want_qf:
        probs.append((None, 'to_qflat of the constructed leg'))
    if r['sane'] is not None:
        probs.append((None, 'leg fails test_sanity: ' + r['sane']))
    for b in (1, 0):
        s = r['sort_%d' % b]
        pf = s['perm_flat']
        if sorted(pf) != list(range(n)):
            probs.append((None, 'sort(bunch=%d): perm_flat is not a permutation' % b))
            continue
        if s['qflat'] != [qf[i] for i in pf] or s['qconj'] != qc:
            probs.append((None, 'sort(bunch=%d): charges of the surviving indices are not qflat[perm_flat]' % b))
        chs = [c for _, c in s['blocks']]
        if len(mods) > 0 and not lexsorted(chs):
            probs.append((None, 'sort(bunch=%d): result not sorted' % b))
        if b and len(set(map(tuple, chs))) != len(chs):
            probs.append((None, 'sort(bunch=True): result not blocked'))
        if s['sane'] is not None:
            probs.append((None, 'sort(bunch=%d): result fails test_sanity: %s' % (b, s['sane'])))
        if sorted(s['perm']) != list(range(len(sizes))):
            probs.append((None, 'sort: perm_qind is not a permutation'))
    if n > 0 and r.get('perm_qind_back') != r['sort_0']['perm'] and all(x > 0 for x in sizes):
        # not named by the property (only perm_flat_from_perm_qind is): recorded as a note, see the report
        probs.append(('NOTE', 'LegCharge.perm_qind_from_perm_flat does not invert perm_flat_from_perm_qind for blocks larger than 1: %s' % r.get('perm_qind_back')))
    bu = r['bunch']
    chs = [c for _, c in bu['blocks']]
    if bu['qflat'] != qf or any(chs[i] == chs[i + 1] for i in range(len(chs) - 1)) or bu['sane'] is not None:
        probs.append((None, 'bunch changes qflat or leaves equal neighbours: %s' % bu))
    nch = [norm_charge(mods, c) for c in charges]
    want_idx = [0] + [i for i in range(1, len(sizes)) if nch[i] != nch[i - 1]] + [len(sizes)]
    if len(mods) == 0:
        want_idx = [0, len(sizes)]
    if bu['idx'] != want_idx:
        probs.append((None, 'bunch idx %s, documented %s' % (bu['idx'], want_idx)))
    pr = r['project']
    mask = case['mask']
    if pr['qflat'] != [q for q, m in zip(qf, mask) if m] or (pr['sane'] is not None and len(pr['blocks']) > 0):
        probs.append((None, 'project: charges of surviving indices changed'))
    pos = 0
    nxt = 0
    bms = []
    for i, s in enumerate(sizes):
        bm = mask[pos:pos + s]
        pos += s
        if any(bm):
            if pr['map_qind'][i] != nxt:
                probs.append((None, 'project: map_qind wrong'))
            nxt += 1
            bms.append(bm)
        elif pr['map_qind'][i] != -1:
            probs.append((None, 'project: map_qind of a removed block is not -1'))
    if bms != pr['block_masks']:
        probs.append((None, 'project: block_masks wrong'))
    ex = case['extra']
    e = r['extend']
    if isinstance(ex, int):
        want = qf + [[0] * len(mods)] * ex
    else:
        sgn = qc * ex[2]      # same physical charge seen from direction qc
        want = qf + [norm_charge(mods, [sgn * x for x in c]) for s, c in zip(ex[0], ex[1]) for _ in range(s)]
    if e['qflat'] != want or e['qconj'] != qc or e['sane'] is not None:
        probs.append((None, 'extend: %s, expected qflat %s' % (e, want)))
    fl = r['flip']
    if (fl['qconj'] != -qc or [b[0] for b in fl['blocks']] != sizes or fl['sane'] is not None
            or not all(mod_eq(mods, [-x for x in a], b[1]) for a, b in zip(nch, fl['blocks']))):
        probs.append((None, 'flip_charges_qconj changes the physical charges'))
    cj = r['conj']
    if cj['qconj'] != -qc or cj['blocks'] != r['blocks']:
        probs.append((None, 'conj'))
    rel = r['rel']
    selfconj = all(mod_eq(mods, c, [-x for x in c]) for c in nch)
    want_rel = {'equal_self_flip': True, 'equal_flip_self': True, 'contr_self_conj': True, 'contr_conj_self': True,
                'contr_flipconj': True, 'equal_self_conj': selfconj, 'contr_self_self': selfconj, 'contr_self_flip': selfconj}
    if rel != want_rel:
        probs.append((None, 'test_equal/test_contractible: %s, expected %s' % (rel, want_rel)))
    probs += [(None, t) for t in accessor_problems(mods, sizes, nch, qc, r.get('acc'))]
    # get_qindex
    sl = [sum(sizes[:i]) for i in range(len(sizes) + 1)]
    for i, got in r['get_qindex']:
        j = i + n if i < 0 else i
        if 0 <= j < n:
            q = max(k for k in range(len(sizes)) if sl[k] <= j < sl[k + 1])
            want = [q, j - sl[q]]
        else:
            want = 'IndexError'
        if got != want:
            key = F3A if (i == n and got == [len(sizes), 0]) else None
            probs.append((key, 'get_qindex(%d) on a leg with ind_len %d returned %s, expected %s' % (i, n, got, want)))
    return probs


# ------------------------------------------------------------------------------------------------

CMP_KEYS = ('charges', 'slices', 'q_map', 'q_map_slices', 'sorted', 'bunched', 'ind_len', 'mif', 'qflat', 'qind_ok', 'to_leg',
            'legs', 'attrs_ok', 'ops')


def run_chunks(script, kind, cases, config, optimize0=True, extra=None):
    n = common.NPROC
    if config == 'cy':
        common.cy_build()      # build/overlay once in this thread: cy_build is not safe under run_impl_parallel's threads
    chunks = [cases[i::n] for i in range(n)]
    res = common.run_impl_parallel(script, [dict({'kind': kind, 'cases': ch}, **(extra or {})) for ch in chunks if ch], config=config,
                                   optimize0=optimize0)
    out = [None] * len(cases)
    k = 0
    for i, ch in enumerate(chunks):
        if not ch:
            continue
        r, err = res[k]
        k += 1
        if err:
            return None, err
        c06_cov.add_lines(kind + '-' + config, r.get('lines'))
        for j, x in enumerate(r['res']):
            out[i + j * n] = x
    return out, None


def default_mask(n):
    return [((5 * i + n) % 3) != 0 for i in range(n)]      # the mask c06ops_impl.py uses for LegPipe.project


def merge_seen(total, seen):
    for k, v in seen.items():
        t = total.setdefault(k, [0, 0, 0])
        for i in range(3):
            t[i] += v[i]


def coverage_table(ctx, cls, tables, seen, expect):
    """reflection table of the public names of `cls` + how often each leg-returning method was applied in this run"""
    if not tables:
        ctx.fail('correspondence', 'no reflection table of %s came back from the runner' % cls, None)
        return None
    table = {n: dict(e) for n, e in tables[0].items()}
    for t in tables[1:]:      # the probe calls are made on different objects: keep the most informative outcome
        for n, e in t.items():
            m = table.setdefault(n, dict(e))
            if e.get('returns_leg') and not m.get('returns_leg') or (str(m.get('result', '')).startswith('raised') and not str(e.get('result', '')).startswith('raised')):
                keep = m.get('applied')
                m.update(e)
                if isinstance(keep, list) and isinstance(e.get('applied'), list):
                    m['applied'] = sorted(set(keep) | set(e['applied']))
            elif isinstance(m.get('applied'), list) and isinstance(e.get('applied'), list):
                m['applied'] = sorted(set(m['applied']) | set(e['applied']))
    for t in c06_ops.table_problems(table, expect):
        ctx.fail('correspondence', '%s: %s' % (cls, t), None)
    for n in sorted(expect):
        if seen.get(n, [0])[0] == 0:
            ctx.fail('correspondence', '%s.%s was never applied by the method stream' % (cls, n), None)
    for t in c06_ops.table_notes(table, cls):
        if t not in ctx.notes:
            ctx.notes.append(t)
    out = {}
    for n, e in sorted(table.items()):
        e = dict(e)
        if n in seen:
            e['results_checked'], e['pipe_results_checked'], e['array_split_checks'] = seen[n]
        out[n] = e
    return out


def main(ctx):
    rng = ctx.rng
    timing = ctx.cov['timing_s'] = {}
    t_last = [time.time()]

    def lap(name):
        now = time.time()
        timing[name] = round(timing.get(name, 0) + now - t_last[0], 1)
        t_last[0] = now
    ctx.proof = common.check_proofs('C06', extra_targets=['Model/PipeCase.vo', 'Model/PipeOps.vo'])
    lap('proofs')
    boost = 1 if ctx.proof.ok else 3
    thorough = ctx.thorough()
    # ---------------- pipes: exhaustive small domains + random larger ones
    pipes = [c['case'] for c in common.corpus_cases('C06') if c.get('stream') == 'pipe']
    ex1 = list(enum_pipes([1], 2, 2, (1, 2), (0, 1)))                 # U(1), <= 2 legs x <= 2 blocks, sizes 1-2
    ex2 = list(enum_pipes([2], 2, 3, (1,), (0, 1)))                    # Z_2, <= 2 legs x <= 3 blocks
    ex3 = list(enum_pipes([3], 2, 2, (0, 2), (1, 2)))                  # Z_3, sizes 0 and 2
    ex4 = list(enum_pipes([1], 1, 3, (0, 1, 2), (-1, 0, 1)))           # single legs, <= 3 blocks, all sizes
    ex5 = list(enum_pipes([1, 2], 2, 2, (1,), (0, 1)))                 # two charges
    ex6 = list(enum_pipes([], 3, 2, (1, 2), (0,)))                     # no charges, <= 3 legs
    n_ex = 0
    stride_note = []
    for name, ex, budget in (('U1', ex1, 2400), ('Z2', ex2, 1200), ('Z3', ex3, 900), ('single', ex4, 1500),
                             ('U1xZ2', ex5, 900), ('q0', ex6, 400)):
        budget = budget * (6 if thorough else 1) * boost
        if len(ex) > budget:
            step = len(ex) / float(budget)
            off = rng.random() * step
            ex = [ex[min(len(ex) - 1, int(off + i * step))] for i in range(budget)]
            stride_note.append('%s: every %.1f-th of the enumeration' % (name, step))
        else:
            stride_note.append('%s: complete (%d)' % (name, len(ex)))
        pipes += ex
        n_ex += len(ex)
    n_enum_end = len(pipes)
    nrand = ctx.pick(1000, 6000) * boost
    for _ in range(nrand):
        c = rand_pipe(rng, maxlegs=4)
        tot = 1
        for l in c['legs']:
            tot *= sum(l[0])
        if tot <= 64:
            pipes.append(c)
    # pipes of pipes: the first n legs are fused into an inner pipe (own direction / sort / bunch), which is the first incoming leg
    n_nested = 0
    while n_nested < ctx.pick(250, 1500) * boost:
        c = rand_pipe(rng, maxlegs=4)
        tot = 1
        for l in c['legs']:
            tot *= sum(l[0])
        if len(c['legs']) < 2 or tot > 64:
            continue
        c['inner'] = {'n': rng.randint(1, len(c['legs']) - 1), 'qconj': rng.choice([1, -1]), 'sort': rng.random() < 0.6, 'bunch': rng.random() < 0.6}
        pipes.append(c)
        n_nested += 1
    # method stream: every public method that returns a leg is applied to every pipe; for a budgeted subset an Array
    # carrying each resulting pipe is split / recombined (all random pipes + a stride of the enumeration)
    narr = ctx.pick(1500, 10000) * boost
    stride = max(1, int(round(len(pipes) / float(narr))))
    arr_off = rng.randrange(stride)
    for i, c in enumerate(pipes):
        if i >= n_enum_end or i % stride == arr_off:
            c['arr_seed'] = ctx.seed * 7919 + i
        if i < common.NPROC:
            c['table'] = True
        c['legs_tuple'] = bool(i % 2)      # `legs` given as a tuple / as a list
    lap('generate')
    res_py, err = run_chunks('c06_impl.py', 'pipe', pipes, 'py')
    lap('pipe-impl-py')
    if err:
        ctx.fail('correspondence', 'pipe runner (py) failed: ' + err[-600:], None)
        return ctx.finish(RULE)
    # the compiled replacements are only active at TENPY_OPTIMIZE >= 1 (tools/optimization.use_cython)
    # (compiled: _init_from_legs and the Array functions; the leg methods themselves are python in both configurations, so the
    # compiled run applies them only where an Array is split / recombined)
    res_cy, err = run_chunks('c06_impl.py', 'pipe', pipes, 'cy', optimize0=False, extra={'ops_all': False})
    lap('pipe-impl-cy')
    if err:
        ctx.fail('correspondence', 'pipe runner (cy) failed: ' + err[-600:], None)
        res_cy = [None] * len(pipes)
    lits = []
    lit_idx = []
    n_op_lits = 0
    method_fails = []
    tables = []
    seen_pipe = {}
    hist = {'collisions': 0, 'single_block': 0, 'qconj-1': 0, 'zero_size': 0, 'nested': 0, 'nlegs': {}}
    for i, (case, r) in enumerate(zip(pipes, res_py)):
        if 'runner_error' in r:
            ctx.fail('oracle', 'LegPipe construction / methods raised on valid legs: ' + r['runner_error'][-400:],
                     {'stream': 'pipe', 'config': 'py', 'case': case})
            continue
        rc = res_cy[i]
        if rc is not None:
            if 'runner_error' in rc:
                ctx.fail('oracle', 'LegPipe (compiled) raised on valid legs: ' + rc['runner_error'][-400:],
                         {'stream': 'pipe', 'config': 'cy', 'case': case})
            else:
                diff = [k for k in CMP_KEYS if r[k] != rc.get(k) and not (k == 'ops' and rc.get('ops') is None)]
                if diff:
                    def show(x, k):
                        if k != 'ops':
                            return x.get(k)
                        return [o for o, o2 in zip(x['ops'], (rc if x is r else r)['ops']) if o != o2][:3]
                    ctx.fail('oracle', 'compiled and python configuration differ in %s of a LegPipe (ops: results of its public methods / '
                             'split_legs, combine_legs of an Array carrying them)' % diff,
                             {'stream': 'pipe', 'config': 'cy', 'case': case, 'py': {k: show(r, k) for k in diff}, 'cy': {k: show(rc, k) for k in diff}})
        orig_case = eff_case = case
        if case.get('inner'):
            case, nprobs = nested_oracle(case, r)
            eff_case = case
            hist['nested'] += 1
            for text in nprobs:
                ctx.fail('oracle', text, {'stream': 'pipe-nested', 'config': 'py', 'case': orig_case})
        for text in r.get('mif_forms', []):
            ctx.fail('oracle', text, {'stream': 'pipe', 'config': 'py', 'case': orig_case})
        for key, text in pipe_oracle(case, r):
            ctx.fail('oracle', text, {'stream': 'pipe', 'config': 'py', 'case': orig_case}, match_key=key)
        # every public method that returns a leg, applied to this pipe
        if 'method_table' in r:
            tables.append(r['method_table'])
        mods = case['mods']
        nlegs_ = [[l[0], [norm_charge(mods, c) for c in l[1]], l[2]] for l in case['legs']]
        base = {'mods': mods, 'sizes': [b - a for a, b in zip(r['slices'], r['slices'][1:])], 'charges': r['charges'],
                'qconj': case['qconj'], 'is_pipe': True, 'qflat': r['qflat'], 'legs': nlegs_, 'legs_plain': not case.get('inner')}
        aux = {'mask': default_mask(r['ind_len']), 'extend_int': 1, 'extend_leg': nlegs_[0]}
        oprobs, seen, coq_ops = c06_ops.ops_oracle(mods, base, aux, r['ops'], r, pipe_core_oracle)
        merge_seen(seen_pipe, seen)
        for key, text in oprobs[:6]:
            method_fails.append((0 if ('breaks the pipe contract' in text or 'an Array carrying' in text) else 1, key, text, orig_case))
        case = orig_case
        ctx.count('pipe-methods', case, nontrivial=len(r['q_map']) > 1 and any(any(c) for c in r['charges']),
                  sample={'case': case, 'methods': sorted(seen)})
        n_op_lits += len(coq_ops)
        nrows = len(r['q_map'])
        coll = nrows > len(r['charges'])
        hist['collisions'] += coll
        hist['single_block'] += nrows == 1
        hist['qconj-1'] += case['qconj'] == -1
        hist['zero_size'] += any(0 in l[0] for l in case['legs'])
        hist['nlegs'][len(case['legs'])] = hist['nlegs'].get(len(case['legs']), 0) + 1
        ctx.count('pipe', case, nontrivial=nrows > 1,
                  sample={'case': case, 'charges': r['charges'], 'q_map': r['q_map'], 'mif': r['mif']})
        lits.append(pipe_case2_lit(eff_case, r, coq_ops))
        lit_idx.append(i)
    method_fails.sort(key=lambda x: x[0])      # replay: prefer an input on which the contract itself (fusion rule / split) fails
    for _, key, text, case in method_fails[:200]:
        ctx.fail('oracle', text, {'stream': 'pipe-methods', 'config': 'py', 'case': case}, match_key=key)
    lap('pipe-oracles')
    bad, err = common.coq_failing_indices('cases_c06_pipe', ['Base.Prelude', 'Model.ChargeL', 'Model.Leg', 'Model.Pipe', 'Model.PipeCase',
                                                             'Model.PipeOps'], 'check_pipe_case2', lits, shard=300)
    if err:
        ctx.fail('correspondence', 'pipe model evaluation failed: ' + err[-600:], None)
    for b in bad[:5]:
        i = lit_idx[b]
        r = res_py[i]
        ctx.fail('correspondence', 'Model/Pipe.v + Model/PipeOps.v and LegPipe disagree (charges/slices/q_map/q_map_slices/map_incoming_flat of the pipe, '
                 'or stored incoming legs/qconj/charges/slices/q_map/q_map_slices of its copy() / conj() / flip_charges_qconj() / outer_conj())',
                 {'stream': 'pipe', 'case': pipes[i], 'impl': {k: r[k] for k in ('charges', 'slices', 'q_map', 'q_map_slices', 'mif')},
                  'impl_methods': [[o['method'], o.get('legs')] for o in r['ops'] if o['method'] in ('copy', 'conj', 'flip_charges_qconj', 'outer_conj')]})
    lap('pipe-coq')
    method_cov = {'LegPipe': coverage_table(ctx, 'LegPipe', tables, seen_pipe, c06_ops.EXPECT_PIPE)}
    ctx.cov['traces_validated_against_impl'] = len(lits) + n_op_lits
    ctx.cov['pipe_enumeration'] = stride_note
    ctx.cov['input_distribution'] = hist
    # ---------------- leg operations
    lcases = [c['case'] for c in common.corpus_cases('C06') if c.get('stream') == 'leg']
    ex_legs = [([1], l) for l in enum_legs([1], 3, (0, 1, 2), (0, 1))] + [([2, 1], l) for l in enum_legs([2, 1], 2, (1, 2), (0, 1))]
    lbudget = ctx.pick(800, 5000) * boost
    if len(ex_legs) > lbudget:
        step = len(ex_legs) / float(lbudget)
        ex_legs = [ex_legs[int(i * step)] for i in range(lbudget)]
    for mods, l in ex_legs:
        n = sum(l[0])
        lcases.append({'mods': mods, 'leg': l, 'mask': [rng.random() < 0.6 for _ in range(n)],
                       'extra': rng.choice([0, 1, 2, rand_leg(rng, mods)])})
    for _ in range(ctx.pick(600, 4000) * boost):
        mods = rng.choice(MODS)
        l = rand_leg(rng, mods, maxb=rng.choice([3, 3, 5]))
        n = sum(l[0])
        mk = rng.choice([0.0, 0.3, 0.7, 1.0])
        lcases.append({'mods': mods, 'leg': l, 'mask': [rng.random() < mk for _ in range(n)],
                       'extra': rng.choice([0, 1, 3, rand_leg(rng, mods), rand_leg(rng, mods)])})
    for c in lcases[:common.NPROC]:
        c['table'] = True
    res_l, err = run_chunks('c06_impl.py', 'leg', lcases, 'py')
    lap('leg-impl')
    if err:
        ctx.fail('correspondence', 'leg runner failed: ' + err[-600:], None)
        res_l = []
    lits = []
    lit_idx = []
    tables = []
    seen_leg = {}
    for i, (case, r) in enumerate(zip(lcases, res_l)):
        if 'runner_error' in r:
            ctx.fail('oracle', 'LegCharge operation raised on a valid leg: ' + r['runner_error'][-400:], {'stream': 'leg', 'case': case})
            continue
        for key, text in leg_oracle(case, r):
            if key == 'NOTE':
                if text[:60] not in [x[:60] for x in ctx.notes]:
                    ctx.notes.append(text)
                continue
            ctx.fail('oracle', text, {'stream': 'leg', 'case': case, 'impl_get_qindex': r['get_qindex']}, match_key=key)
        if 'method_table' in r:
            tables.append(r['method_table'])
        mods = case['mods']
        ex = case['extra']
        base = {'mods': mods, 'sizes': case['leg'][0], 'charges': [norm_charge(mods, c) for c in case['leg'][1]],
                'qconj': case['leg'][2], 'is_pipe': False,
                'qflat': c06_ops.qflat_of(mods, case['leg'][0], case['leg'][1])}
        aux = {'mask': case['mask'], 'extend_int': ex if isinstance(ex, int) else 1, 'extend_leg': None if isinstance(ex, int) else ex}
        oprobs, seen, _ = c06_ops.ops_oracle(mods, base, aux, r['ops'], None, pipe_core_oracle)
        merge_seen(seen_leg, seen)
        for key, text in oprobs[:6]:
            ctx.fail('oracle', text, {'stream': 'leg-methods', 'case': case}, match_key=key)
        ctx.count('leg', case, nontrivial=len(case['leg'][0]) > 1, sample={'case': case, 'sort': r['sort_1'], 'bunch': r['bunch']})
        lits.append(leg_case_lit(case, r))
        lit_idx.append(i)
    lap('leg-oracles')
    bad, err = common.coq_failing_indices('cases_c06_leg', ['Base.Prelude', 'Model.ChargeL', 'Model.Leg', 'Model.Pipe', 'Model.PipeCase'],
                                          'check_leg_case', lits, shard=300)
    if err:
        ctx.fail('correspondence', 'leg model evaluation failed: ' + err[-600:], None)
    for b in bad[:5]:
        i = lit_idx[b]
        ctx.fail('correspondence', 'Model/Leg.v and LegCharge disagree (sort/bunch/project/extend/flip/get_qindex/perm_flat)',
                 {'stream': 'leg', 'case': lcases[i], 'impl': res_l[i]})
    ctx.cov['traces_validated_against_impl'] += len(lits)
    method_cov['LegCharge'] = coverage_table(ctx, 'LegCharge', tables, seen_leg, c06_ops.EXPECT_LEG) if res_l else None
    ctx.cov['leg_method_coverage'] = method_cov
    lap('leg-coq')
    # ---------------- arrays: combine_legs / split_legs / sort_legcharge / as_completely_blocked, both configs
    acases = [c['case'] for c in common.corpus_cases('C06') if c.get('stream') == 'array']
    na = ctx.pick(300, 2000) * boost
    wishes = list(c06_forms.FEATURES) * ctx.pick(1, 3)      # every option class is forced at least once, the rest is a random mix
    for k in range(len(wishes) + na):
        wish = wishes[k] if k < len(wishes) else None
        for _ in range(200):
            c = c06_forms.gen_array_case(rng, ctx.seed * 1000003 + k, wish)
            if c06_forms.case_size(c) <= 400:
                break
        acases.append(c)
    tag_counts = {}
    for config in ('py', 'cy'):
        res_a, err = run_chunks('c06_impl.py', 'array', acases, config, optimize0=(config == 'py'))
        if err:
            ctx.fail('correspondence', 'array runner (%s) failed: %s' % (config, err[-600:]), None)
            continue
        for case, r in zip(acases, res_a):
            if 'runner_error' in r:
                ctx.fail('oracle', 'combine_legs/split_legs/sort_legcharge raised on a valid tensor: ' + r['runner_error'][-500:],
                         {'stream': 'array', 'config': config, 'case': case})
                continue
            for key, text in r['problems']:
                ctx.fail('oracle', text, {'stream': 'array', 'config': config, 'case': case}, match_key=ARRAY_KEYS.get(key))
            if r.get('note_new_axes_mutated'):
                t = 'Array.combine_legs rewrites negative entries of the list passed as new_axes in place (argument of the caller modified; not a statement of C06)'
                if t not in ctx.notes:
                    ctx.notes.append(t)
            for t in list(case.get('tags', [])) + list(r.get('tags', [])):
                tc = tag_counts.setdefault(t, {})
                tc[config] = tc.get(config, 0) + 1
            ctx.count('array-' + config, case, nontrivial=r['stored_blocks'] > 1,
                      sample={'case': case, 'stored_blocks': r['stored_blocks']})
    ctx.cov['array_option_table'] = c06_cov.option_table(ctx, tag_counts, c06_forms.REQUIRED, c06_forms.REQUIRED_STRUCT)
    lap('array')
    # ---------------- coverage audit tables: lines of the anchored pure-python code, public names, signatures, option classes
    refl, err = common.run_impl('c06_impl.py', {'kind': 'reflect', 'cases': []}, config='py')
    if err:
        ctx.fail('correspondence', 'reflection runner failed: ' + err[-400:], None)
    reflect = refl['res'] if not err else None
    ftable, fsum = c06_cov.function_table(ctx, common.REPO, reflect)
    ctx.cov['anchored_function_coverage'] = ftable
    ctx.cov['anchored_coverage_summary'] = fsum
    ctx.cov['public_name_classification'] = c06_cov.public_table(ctx, reflect)
    lap('coverage-tables')
    ctx.assumptions += [
        'C06 model: block sizes / flat indices are integers, charges unbounded integers (no int64 overflow); cached flags sorted/bunched '
        'are not modelled (checked by test_sanity at TENPY_OPTIMIZE=0 in the oracle)',
        'C06: placement of tensor entries by combine_legs/split_legs (dense reshape/transpose oracle), nested pipes, sort_legcharge, '
        'as_completely_blocked and labels are oracle-checked only (not proved)',
        'C06 coverage audit: excluded from the line demand (reasons in coverage.anchored_function_coverage): HDF5 I/O of legs (C17), '
        'from_add/drop/change_charge (change the ChargeInfo), __repr__, branches of _make_stride/_map_blocks/_partial_qtotal only used by tensordot, '
        'the early returns of optimisation level 3 (skip_arg_checks), one dead line of _split_legs_worker',
        'C06: split_legs(cutoff > 0): dropping of split blocks whose largest |entry| is <= cutoff is tolerated as documented (the implementation '
        'ignores the cutoff); LegCharge.from_qdict for qnumber 0 (cannot parse empty charge tuples) and perm_qind_from_perm_flat are not judged '
        '(constructors / helpers not named by the property)',
    ]
    return ctx.finish(RULE, 'theorems of coq/Props/C06.v (any number of legs/blocks/sizes/charges) on Model/Pipe.v + Model/Leg.v; model tied '
                      'to LegPipe/LegCharge by vm_compute evaluation of every generated case in both the python and the compiled configuration')


RULE = ('pipe: enumeration of all pipes over small legs (domains listed in coverage.pipe_enumeration: U(1)/Z_2/Z_3/two charges/no charge, 1-3 legs, '
        '<= 3 blocks, sizes 0-2, both directions of every leg and of the pipe, sort/bunch on/off; strided when larger than the tier budget) plus '
        'random 1-4 leg pipes; every index tuple of every pipe is compared; non-trivial = more than one block tuple.  leg: enumerated + random legs '
        'x random mask/extension.  pipe-methods / leg-methods: every public LegCharge / LegPipe method that returns a leg (found by reflection, '
        'table in coverage.leg_method_coverage) applied to every pipe of the pipe stream and every leg of the leg stream; every resulting LegPipe '
        'has to obey the pipe contract (fusion rule recomputed from its stored incoming legs, bijection, q_map layout), the documented effect of '
        'the method on charges / direction / incoming legs, and - for all random pipes and a stride of the enumeration - an Array carrying it has '
        'to split into the stored legs with the dense-reshape entries and recombine; non-trivial = more than one block tuple and a non-zero charge.  '
        'pipe-nested: pipes whose first incoming leg is itself a pipe of the first n legs (own direction/sort/bunch): contract of the inner and the '
        'outer pipe, the composed index map is a bijection obeying the fusion rule of the ORIGINAL legs, conj() reaches the inner legs; the outer '
        'pipe is also evaluated by the Coq model.  map_incoming_flat additionally with negative / tuple / ndarray arguments and its rejections '
        '(index == ind_len, wrong number of indices).  leg: additionally every accessor (get_slice, get_charge, get_qindex_of_charges, to_qdict, '
        'charge_sectors, is_*), the constructors from_qflat / from_qdict / from_trivial rebuilt from the accessors, ==/test_equal against other '
        'block structures / ChargeInfo, second application of sort / bunch, rejection of malformed legs.  '
        'array: rank 1-5 tensors over the OPTION SPACES and CALL FORMS of combine_legs (nested/flat list/tuple/ndarray/generator of int/label/mixed; '
        'new_axes None/list/tuple/ndarray/int, negative; qconj None/int/list/tuple/ndarray; pipes None/list/tuple/single, given in the same or the '
        'conjugated direction, partially None, built by LegPipe or make_pipe with/without kwargs), split_legs (axes None/int/label/negative/tuple/'
        'one by one; cutoff 0 / below / above entries), as_completely_blocked, sort_legcharge (bool/list/perm array), tensors with all / some / one / '
        'no stored block, shuffled _qdata, non-contiguous blocks, float/complex/int, zero-size blocks, unlabeled legs; every class is forced at '
        'least once per run (coverage.array_option_table, a class that was not drawn is a failure); results are used again (recombination with the '
        'pipes of the result and of the conjugate, nested combine, second sort/blocking, projected pipe through the documented work-around) and the '
        'input tensor has to be unchanged; invalid calls have to raise; python and compiled; non-trivial = more than one stored block.  '
        'coverage.anchored_function_coverage: executed lines of every function of LegCharge / LegPipe and of the fusion entry points and workers '
        '(sys.monitoring in every runner process); an unexecuted line of a covered function, an unclassified public name and a changed signature '
        'are failures.')
