"""C03, stream `mpo-object`: whole-object fingerprints of every live Site / lattice / MPS / MPO / MPOGraph / term collection / model
around every public MPO, Site, MPOGraph and model call.

Generator + judge; the runner is harness/impl/c03_mpoobj_impl.py (its docstring says what is built, called and fingerprinted).
Quantifier of the property reached here: "tensor stored inside an ... MPO" and "leg-charge objects ... shared between tensors, tensors
in a network and SITES": ONE Site object is shared by the lattice, an MPS and every MPO / graph / model of the case; the W tensors of
the main MPO are additionally shared with a shallow copy (MPO.copy()) and with the model that holds the MPO.
Oracle rule (property text): a call that is not documented in-place changes NO part of any live object; a documented in-place method
changes only its receiver (MPOGraph.add on the graph, CouplingModel.add_* on the model; MPO / Site / model in-place methods run on a
copy, which is not among the live objects)."""
import random

import common

SITE_KINDS = [('spinhalf', [None, 'Sz', 'parity']), ('spin1', [None, 'Sz', 'parity']), ('fermion', [None, 'N', 'parity']),
              ('boson', [None, 'N', 'parity'])]
MAINS = ['H_grid', 'H_M', 'H_graph', 'H_SM', 'H_terms', 'H_tl']
NONUNIT = [0.5, -1.0, 2.0, 0.999, -0.3, 1.5]


def stock_model(kind, conserve, cplx, unit, bc):
    a = -1.0 if unit else -0.7
    if kind in ('spinhalf', 'spin1'):
        p = {'Jx': 1.0, 'Jy': 1.0, 'Jz': 0.5}
        if conserve is None:
            p.update({'hx': a, 'hz': -0.5})                       # onsite  (-hx) Sx + (-hz) Sz: first prefactor exactly 1.0 when unit
            if cplx:
                p['hy'] = 0.3
        else:
            p.update({'hz': a, 'D': 0.5})                         # (-hz) Sz + D Sz Sz
            if conserve == 'parity':
                p['Jy'] = 0.5
            if cplx:
                p['muJ'] = 0.4
        return {'module': 'tenpy.models.spins', 'cls': 'SpinChain', 'params': p}
    if kind == 'fermion':
        p = {'J': 1.0, 'V': 0.5, 'mu': a}
        return {'module': 'tenpy.models.fermions_spinless', 'cls': 'FermionChain', 'params': p}
    p = {'t': 1.0, 'U': 2.0 if unit else 1.4, 'V': 0.3, 'mu': -2.0 if unit else -0.3}      # (-mu - U/2) N + (U/2) NN
    return {'module': 'tenpy.models.hubbard', 'cls': 'BoseHubbardChain', 'params': p}


def gen_case(rng, k=None):
    """k: running number; site kind, conservation, boundary conditions, real/complex Hamiltonian, the MPO the calls run on and
    "sum entry whose first prefactor is exactly 1" are stratified over k, so that every run contains all of them"""
    if k is None:
        k = rng.randrange(48)
    kind, cons = SITE_KINDS[k % 4]
    conserve = cons[(k // 4 + k) % 3]
    bc = ['finite', 'infinite'][(k // 2) % 2]
    cplx = (k % 3) == 2
    main = MAINS[(k // 2 + k // 12) % len(MAINS)]      # every block of 12 has all six; the pairing with site kind / bc shifts per block
    if main == 'H_grid':
        bc = 'infinite'       # from_grids projects the outer legs of a finite MPO to one state: no IdL/IdR pair for make_U_I there
    unit = (k % 2) == 0 or rng.random() < 0.3
    c = {'site': {'kind': kind, 'conserve': conserve}, 'bc': bc, 'L': rng.choice([3, 4]) if bc == 'finite' else rng.choice([2, 3, 4]),
         'seed': rng.randrange(10 ** 6), 'main': main, 'complex': cplx,
         'entangle': rng.random() < 0.8, 'state': [rng.randrange(3) for _ in range(4)]}
    # onsite sum: 2-3 operators in 85 % of the cases; the first prefactor is exactly 1 (float 1.0, int 1 or -(-1.0)) when `unit`
    n_on = rng.choice([2, 2, 3]) if (unit or rng.random() < 0.7) else 1
    on = []
    for j in range(n_on):
        s = rng.choice([1.0, 1.0, 1]) if (j == 0 and unit) else rng.choice(NONUNIT + ([1.0] if j else []))
        on.append([rng.randrange(12) + j * 5, s])
    c['onsite'] = on
    chans = []
    for j in range(rng.choice([1, 2, 2])):
        form = rng.choice(['str', 'single', 'sum', 'sum'])
        a = [[0, rng.choice([1.0, 1.0, 0.5, 2.0])]]
        if form == 'sum':
            a += [[rng.randrange(12), rng.choice(NONUNIT)] for _ in range(rng.choice([1, 2]))]
        J = ['c', 0.4, 0.3] if (cplx and j == 0) else rng.choice([1.0, 1.0, 0.5, -0.7])
        chans.append({'pair': rng.randrange(12), 'a': a, 'J': J, 'form': form})
    c['channels'] = chans
    c['stock'] = stock_model(kind, conserve, cplx, unit, bc)
    return c


def describe(c):
    return 'site %s(conserve=%r) shared by a %s Chain of L=%d, an MPS and all MPOs/graphs/models; calls run on %s (%s Hamiltonian)' % (
        c['site']['kind'], c['site']['conserve'], c['bc'], c['L'], c.get('main'), 'complex' if c.get('complex') else 'real-strength')


ROLE = {'site': 'the Site object shared by lattice, MPS and all MPOs', 'lat': 'the lattice', 'psi': 'the MPS psi (same sites)',
        'H': 'the MPO H the method was called on', 'Hs': 'the shallow copy Hs = H.copy() (shares the W tensors)',
        'M': 'the CouplingModel M', 'MM': 'the MPOModel MM holding H_M', 'SM': 'the stock model SM built on the shared lattice',
        'ot': 'the OnsiteTerms', 'ct': 'the CouplingTerms', 'tl': 'the TermList'}


def role_key(obj):
    if obj in ('site', 'lat', 'psi', 'H', 'Hs'):
        return obj
    if obj in ('M', 'MM', 'SM'):
        return 'model'
    if obj in ('ot', 'ct', 'tl'):
        return 'terms'
    if obj.startswith('G'):
        return 'graph'
    return 'other-MPO'


def judge(ctx, cfg, c, r, stat):
    info = {'stream': 'mpo-object', 'config': cfg, 'case': c}
    cplxH = str(r.get('H_dtype', '')).startswith('complex')
    for rec in r['calls']:
        g = rec['group']
        s = stat['groups'].setdefault(g, [0, 0])
        s[1 if 'error' in rec else 0] += 1
        if 'error' in rec:
            stat['errors'].setdefault(g, rec['error'][:90])
        else:
            if g in ('MPO.make_U_I', 'MPO.make_U') and ("'II'" not in rec['call']):
                dtc = 'j' in rec['call'].split('(', 1)[1]
                stat['make_U_I_same_dtype'] += int(dtc == cplxH)
                stat['make_U_I_by_dtype']['%s H, %s dt' % ('complex' if cplxH else 'real', 'complex' if dtc else 'real')] = \
                    stat['make_U_I_by_dtype'].get('%s H, %s dt' % ('complex' if cplxH else 'real', 'complex' if dtc else 'real'), 0) + 1
            if g in ('MPO.from_grids', 'MPOGraph.build_MPO', 'model.calc_H_MPO', 'stock-model') and r.get('unit_first_prefactor_sum'):
                stat['builders_ok_with_unit_first_prefactor_sum'] += 1
        for obj, parts in sorted(rec.get('axis_order_changed', {}).items()):
            stat['axis_order'][g] = stat['axis_order'].get(g, 0) + 1
        fails = []
        site_changed = 'site' in rec['changed'] and 'site' not in rec.get('recv', [])
        seen_through = []
        for obj, parts in sorted(rec['changed'].items()):
            if obj in rec.get('recv', []):
                continue
            if site_changed and obj != 'site':
                # the same change of the shared Site seen through another reference (lattice, MPS, MPO, graph, model)
                rest = [p for p in parts if not p.endswith('.content')]
                if len(rest) < len(parts):
                    seen_through.append(obj)
                parts = rest
                if not parts:
                    continue
            role = ROLE.get(obj, 'the live object `%s`' % obj)
            kind = 'a documented in-place method of another object (receiver %s)' % rec['recv'] if rec.get('recv') else 'not an in-place function'
            what = ('[%s] %s is %s but changed %s: parts %s differ afterwards (whole-object fingerprint of every live object: identity, '
                    'dense values, dtype, labels, qtotal, legs of every stored tensor / of every onsite operator of the site, perm, state labels, '
                    'lists and dicts) - %s; resolved terms: onsite %s, channels %s%s' % (
                        cfg, rec['call'][:300], kind, role, parts, describe(c), r['resolved']['onsite'], r['resolved']['channels'],
                        '; the call raised ' + rec['error'] if 'error' in rec else ''))
            key = 'C03:mpo-object:%s:%s-changed' % (g, role_key(obj))
            fails.append((what, key, dict(info, call=rec['call'], changed=rec['changed']), obj))
        for what, key, inf2, obj in fails:
            if obj == 'site' and seen_through:
                what += '; the changed site is the one held by %s' % seen_through
            ctx.fail('oracle', what + ' [%s]' % key, inf2, match_key=key)


def start(ctx, mult=1):
    """generate the cases and start the runners in the background (they run next to the other streams); -> handle"""
    from concurrent.futures import ThreadPoolExecutor
    if ctx.replay_in:
        import json
        doc = (json.load(open(ctx.replay_in)).get('input') or {})
        if doc.get('stream') != 'mpo-object':
            return None
        parts = [(doc.get('config', 'py'), [doc['case']])]
    else:
        rng = random.Random(ctx.seed * 7907 + 311)          # own seeded stream: the cases of the other streams stay as they were
        cases = [gen_case(rng, k + 12 * (ctx.seed % 2)) for k in range(ctx.pick(12, 96) * mult)]
        flip = ctx.seed % 2
        parts = [('py', [c for k, c in enumerate(cases) if (k + flip) % 2 == 0]), ('cy', [c for k, c in enumerate(cases) if (k + flip) % 2 == 1])]
    jobs = []
    ex = ThreadPoolExecutor(max_workers=6)
    for cfg, part in parts:
        nchunk = max(1, min(3, len(part) // 2))
        for k in range(nchunk):
            ch = part[k::nchunk]
            jobs.append((cfg, ch, ex.submit(common.run_impl, 'c03_impl.py', {'cases': [['mpoobj', c] for c in ch]}, cfg)))
    return {'jobs': jobs, 'ex': ex}


def finish(ctx, handle):
    if handle is None:
        return
    stat = {'groups': {}, 'errors': {}, 'make_U_I_same_dtype': 0, 'make_U_I_by_dtype': {}, 'builders_ok_with_unit_first_prefactor_sum': 0,
            'axis_order': {}}
    coverage, kinds, mains = {}, {}, {}
    for cfg, chunk, fut in handle['jobs']:
        r, err = fut.result()
        if err or r['info'].get('have_cython') != (cfg == 'cy'):
            ctx.fail('correspondence', 'mpo-object runner failed (%s): %s' % (cfg, (err or str(r['info']))[-600:]), None)
            continue
        for c, x in zip(chunk, r['results']):
            info = {'stream': 'mpo-object', 'config': cfg, 'case': c}
            if not isinstance(x, dict) or 'calls' not in x:
                ctx.fail('correspondence', 'mpo-object runner failed (%s) on %s: %s' % (cfg, describe(c), str(x)[-600:]), info)
                continue
            ctx.count('mpo-object-' + cfg, c, nontrivial=bool(x.get('unit_first_prefactor_sum')) or str(x.get('H_dtype', '')).startswith('complex'),
                      sample={'case': c, 'built': x['built'], 'main': x['main'], 'H_dtype': x.get('H_dtype'), 'resolved': x['resolved'],
                              'calls': len(x['calls']), 'errors': sum(1 for rec in x['calls'] if 'error' in rec)})
            kk = '%s(%s)/%s/%s' % (c['site']['kind'], c['site']['conserve'], x['bc'], x.get('H_dtype'))
            kinds[kk] = kinds.get(kk, 0) + 1
            mains[str(x['main'])] = mains.get(str(x['main']), 0) + 1
            for n, v in x['coverage'].items():
                if coverage.get(n, 'UNCOVERED') == 'UNCOVERED' or coverage.get(n, '').startswith('in-place (not'):
                    coverage[n] = v
            judge(ctx, cfg, c, x, stat)
    handle['ex'].shutdown()
    ctx.cov['mpo_object_public_interface_coverage'] = dict(sorted(coverage.items()))       # MPO / Site / MPOGraph / model, by reflection
    ctx.cov['mpo_object_calls_by_group_ok_error'] = {k: {'ok': v[0], 'raised': v[1]} for k, v in sorted(stat['groups'].items())}
    ctx.cov['mpo_object_first_error_by_group'] = dict(sorted(stat['errors'].items()))
    ctx.cov['mpo_object_case_kinds'] = kinds
    ctx.cov['mpo_object_main_mpo'] = mains
    ctx.cov['mpo_object_make_U_I_calls_ok_by_dtype'] = stat['make_U_I_by_dtype']
    ctx.cov['mpo_object_builders_ok_with_sum_entry_first_prefactor_1'] = stat['builders_ok_with_unit_first_prefactor_sum']
    ctx.cov['mpo_object_calls_that_only_reordered_axes_of_stored_tensors'] = dict(sorted(stat['axis_order'].items()))
    unc = sorted(n for n, v in coverage.items() if v == 'UNCOVERED')
    for n in unc:
        ctx.notes.append('mpo-object: public name %s is neither classified as documented in-place nor has argument variants in '
                         'harness/impl/c03_mpoobj_impl.py (not exercised)' % n)
    dead = sorted(g for g, v in stat['groups'].items() if v[0] == 0)
    if dead:
        ctx.notes.append('mpo-object: every call of the groups %s raised (first errors in coverage.mpo_object_first_error_by_group)' % dead)
    if not ctx.replay_in and (stat['make_U_I_same_dtype'] == 0 or stat['builders_ok_with_unit_first_prefactor_sum'] == 0):
        ctx.fail('correspondence', 'mpo-object: the generators no longer reach make_U_I with result_type(dt, H.dtype) == H.dtype (%d) / '
                 'builders with a sum entry whose first prefactor is 1 (%d)' % (
                     stat['make_U_I_same_dtype'], stat['builders_ok_with_unit_first_prefactor_sum']), None)


RULE = ('mpo-object: 12 (thorough 96) cases, half per configuration, stratified over {SpinHalfSite, SpinSite(1), FermionSite, BosonSite} x '
        'conserve {None, Sz/N, parity} x {finite L 3-4, infinite L 2-4} x {real, complex Hamiltonian} x the MPO the calls run on '
        '(from_grids / graph / terms / term list / CouplingModel.calc_H_MPO / H_MPO of a stock model on the shared lattice).  ONE Site '
        'object is shared by the lattice, an MPS and everything built.  Onsite terms: sums of 2-3 operators in 85 % of the cases, first '
        'prefactor exactly 1 (1.0 or int 1) in every second case at least; coupling channels A_i B_{i+1} as name / [(op, s)] / sums.  '
        'Phase 1: MPO.from_grids, grid_insert_ops, MPOGraph + add/add_string/add_missing_IdL_IdR + build_MPO, OnsiteTerms/CouplingTerms + '
        'from_terms, TermList + from_term_list, CouplingModel + add_onsite/add_coupling + calc_H_MPO + MPOModel, SpinChain / FermionChain / '
        'BoseHubbardChain(lattice=lat), from_Wflat, from_wavepacket, MPO(...).  Phase 2 (random order): every public method, property and '
        'dunder of MPO found by reflection that is not documented in-place (make_U_I / make_U_II / make_U x dt real, imaginary, complex; '
        'dagger, is_hermitian, is_equal, expectation_value*, variance, prefactor, to_TermList, plus_identity, overlap, distance, __add__, '
        'extract_segment, get_W, apply* on psi.copy(), MPOEnvironment, ...), the pure methods of Site and of the three models.  Phase 3: '
        'in-place methods of MPO (on H.copy() / deepcopy), Site (deepcopy) and models (copy / deepcopy).  After EVERY call all live '
        'objects are fingerprinted as wholes; non-trivial = sum entry with unit first prefactor or complex Hamiltonian.')
