"""C08 - MPS measurements equal dense quantum mechanics.

proof gate (coq/Props/C08.v: ordering/sign logic of correlation_function and _term_to_ops_list, unbounded) + streams
  state     random finite / segment / infinite MPS (harness/c08_gen.py) x every measurement function, each returned number next
            to the dense <bra|O|ket> built with numpy.kron from the documentation operators (oracle)
            states without charge, with U(1), Z_2 and Z_3 charges (clock sites, Sz / N modulo 3); term lists mix charged and
            uncharged terms; the measurement functions are enumerated by reflection, coverage table function x charge type in the evidence
  options   (part of the stream state) every documented option of the measurement methods drawn from its option space: Renyi index n in
            {default, 1, 2, 0.5, 3, inf} of entanglement_entropy / _segment / _segment2 / mutinf_two_site, bonds, for_matrix_S (matrix S),
            segment shapes, first_site, max_range, by_charge, bond, target / charge_sector / return_charges of correlation_length(2), shift of
            overlap_translate_finite, autoJW=False / opstr / default offsets of the term correlation functions ...; the runner logs the
            arguments of every call that was compared with its dense value; all public methods and their parameters are read by reflection and
            a method / parameter that is neither reached with all required value classes (OPTION_SPACE) nor classified is a failure
  env       MPSEnvironment with bra != ket and bra.norm, ket.norm != 1 (incl. full_contraction); the dense value carries both norms
  overlap   finite (norms, ignore_form) and infinite (dominant eigenvalue of the dense transfer matrix)
  ops_list  _term_to_ops_list  vs  Model/JW.v term_to_ops_list (vm_compute)
  corr_words  per-site operator words of Model/Corr.v (computed inside Coq) -> dense kron -> compared with correlation_function
  window / sample_ops  expectation_value windows vs Model/Window.v, operator selection of sample_measurements vs Model/Sample.v
  sample_loop  per-site weights and returned weight of sample_measurements on exactly representable MPS vs the weight loop of
            Model/Sample.v instantiated over Gaussian rationals (Model/SampleCheck.v, exact comparison)
  tcf_words per-site operator words contracted by term_correlation_function_right/_left (recorded from outside) vs Model/CorrTerm.v
            (Model/CorrTermCheck.v), including the ValueErrors
"""
import json
import re

import numpy as np

import common
import c12_oracle as orc
from common import coq_lit, CoqRaw, Some, opt

TOL = 1e-10
F16_KEY = 'C08:correlation_function:autoJW:op_needs_JW(ops1)-used-for-sites2:ValueError'
F19_KEY = 'C08:sample_measurements:complex_amplitude=False:squared-inside-loop:n_sites>=2'
F20_KEY = 'C08:term_correlation_function_left:autoJW:odd-parity-terms:JW_from_right-overwritten'
F21_KEY = 'C08:expectation_value_terms_sum:infinite:max_range-in-sites-passed-as-unit-cells:term-beyond-contracted-sites'
F08_1_KEY = 'C08:MPSEnvironment.correlation_function:i==j:bra.norm*ket.norm-applied-twice'
# (bra.norm, ket.norm) of the stream env, in turn: MPSEnvironment documents that its measurements include both norms
ENV_NORMS = [[0.5, 1.5], [2.0, 0.25], [1.0, 1.0], [1.5, 1.5], [1.0, 0.5]]


# which measurement functions of tenpy.networks.mps one measurement record of the stream state/env calls
CALLS = {'ev': ['expectation_value'], 'ev_multi': ['expectation_value'], 'ev_multi_sites': ['expectation_value_multi_sites'],
         'ev_term': ['expectation_value_term'], 'terms_sum': ['expectation_value_terms_sum'], 'corr': ['correlation_function'],
         'corr_words': ['correlation_function'], 'tcf_right': ['term_correlation_function_right'], 'tcf_left': ['term_correlation_function_left'],
         'tlcf_right': ['term_list_correlation_function_right'], 'rho': ['get_rho_segment'],
         'mutinf': ['mutinf_two_site', 'entanglement_entropy_segment'],
         'ent': ['entanglement_entropy', 'entanglement_spectrum', 'entanglement_entropy_segment2'],
         'prob_charge': ['probability_per_charge', 'average_charge', 'charge_variance'], 'sample': ['sample_measurements'], 'overlap': ['overlap']}
# reflected names that are deliberately not compared with a dense reference here (reason)
NOT_COMPARED = {'correlation_length_charge_sectors': 'returns the list of charge sectors of the transfer matrix in which correlation_length '
                                                     'may look (no number with a dense counterpart)',
                'compute_K': 'momentum-resolved entanglement spectrum of cylinder states: permute_sites + TransferMatrix (C09), not in the '
                             'property\'s list of measurements',
                'norm_test': 'deviation from the canonical form: C07'}

UNCHARGED_ONLY = {'correlation_length': 'states without charges only: the eigenvalues of the dense transfer matrix carry no sector labels',
                  'correlation_length2': 'same'}

# ---------------------------------------------------------------------- option space of the measurement methods
# method -> parameter -> list of value classes that every run has to reach in a call COMPARED with the dense value (classes as logged
# by harness/impl/c08_impl.py:summ; 'default' = the keyword is not passed; a trailing ':' or a leading "'" is a prefix pattern, '<int>' any
# integer, '<pos>' a positive integer, '*' anything), or a string: the option is explicitly classified as not compared (reason).
N_ALL = ['default', '1', '2', '0.5', '3', 'inf']
NAME = "'"
BC3 = ['finite', 'segment', 'infinite']
_CORR = {'ops1': [NAME, 'strs:'], 'ops2': [NAME, 'strs:'], 'sites1': ['default', 'ints:'], 'sites2': ['default', 'ints:'],
         'opstr': ['default', NAME], 'str_on_first': ['default', 'True', 'False'], 'hermitian': ['default', 'True'], 'autoJW': ['default', 'False']}
_TCF = {'term_L': ['term:len1', 'term:len2'], 'term_R': ['term:'], 'autoJW': ['default', 'False'], 'opstr': ['default', 'None', NAME]}
_XI = {'target': ['default', '1', '2'], 'charge_sector': ['default', '0', 'None'], 'return_charges': ['default', 'False', 'True'],
       'tol_ev0': 'threshold of a warning about the dominant eigenvalue; no effect on the returned value of a canonical MPS',
       '<boundary conditions>': ['infinite']}
_BOND = {'bond': ['default', '0', '<pos>'], '<boundary conditions>': ['finite']}
OPTION_SPACE = {
    'MPS': {
        'expectation_value': {'ops': [NAME, 'strs:', 'Array'], 'sites': ['default', 'ints:'], 'axes': ['default', 'seq:len2'], '<boundary conditions>': BC3},
        'expectation_value_multi_sites': {'operators': ['strs:len2', 'strs:len3'], 'i0': ['0', '<pos>'], '<boundary conditions>': BC3},
        'expectation_value_term': {'term': ['term:len1', 'term:len2', 'term:len3', 'term:len4+'], 'autoJW': ['default', 'False'], '<boundary conditions>': BC3},
        'expectation_value_terms_sum': {'term_list': ['TermList'], '<boundary conditions>': ['finite', 'infinite']},
        'correlation_function': dict(_CORR, **{'<boundary conditions>': BC3}),
        'term_correlation_function_right': dict(_TCF, i_L=['<int>'], j_R=['default', 'ints:'], **{'<boundary conditions>': BC3}),
        'term_correlation_function_left': dict(_TCF, i_L=['default', 'ints:'], j_R=['<int>'], **{'<boundary conditions>': BC3}),
        'term_list_correlation_function_right': {'term_list_L': ['TermList'], 'term_list_R': ['TermList'], 'i_L': ['0', '<pos>', '-1'],
                                                 'j_R': ['None', 'ints:single', 'ints:unsorted'], 'autoJW': ['default', 'False'],
                                                 'opstr': ['default', 'None', NAME], '<boundary conditions>': BC3},
        'entanglement_entropy': {'n': N_ALL, 'bonds': ['default', 'None', '<int>', 'ints:'], 'for_matrix_S': ['default', 'False', 'True'],
                                 '<boundary conditions>': BC3},
        'entanglement_entropy_segment': {'segment': ['default', 'ints:single', 'ints:consec:len2', 'ints:gaps:len2', 'ints:consec:len3', 'ints:unsorted'],
                                         'first_site': ['default', 'None', 'ints:'], 'n': N_ALL, '<boundary conditions>': BC3},
        'entanglement_entropy_segment2': {'segment': ['ints:single', 'ints:consec', 'ints:gaps'], 'n': N_ALL, '<boundary conditions>': BC3},
        'entanglement_spectrum': {'by_charge': ['default', 'False', 'True'], '<boundary conditions>': BC3},
        'get_rho_segment': {'segment': ['ints:consec:len2', 'ints:gaps:len2', 'ints:gaps:len3'], '<boundary conditions>': BC3},
        'mutinf_two_site': {'max_range': ['default', 'None', '1', '2', '3'], 'n': N_ALL, '<boundary conditions>': BC3},
        'probability_per_charge': _BOND, 'average_charge': _BOND, 'charge_variance': _BOND,
        'overlap': {'other': ['MPS'], 'charge_sector': ['default', 'None', '0'], 'ignore_form': ['default', 'True'],
                    'understood_infinite': ['default', 'True'], 'kwargs': 'passed on to TransferMatrix.eigenvectors (Arnoldi parameters)',
                    '<boundary conditions>': ['finite', 'infinite']},
        'overlap_translate_finite': {'psi': ['MPS'], 'shift': ['default', '1', '2', '-1'], '<boundary conditions>': ['finite']},
        'sample_measurements': {'first_site': ['default', '0', '<pos>'], 'last_site': ['default', '<pos>'], 'ops': ['None', 'strs:len1', 'strs:len2', 'strs:len3'],
                                'rng': ['Generator'], 'complex_amplitude': ['True', 'False'],
                                'norm_tol': 'threshold of the ValueError for a state that is not normalised; no effect on the returned values',
                                '<boundary conditions>': ['finite', 'infinite']},
        'correlation_length': _XI, 'correlation_length2': _XI,
    },
    'MPSEnvironment': {
        'expectation_value': {'ops': [NAME, 'strs:', 'Array'], 'sites': ['default', 'ints:'], 'axes': ['default', 'seq:len2']},
        'expectation_value_multi_sites': {'operators': ['strs:'], 'i0': ['<int>']},
        'expectation_value_term': {'term': ['term:'], 'autoJW': ['default', 'False']},
        'expectation_value_terms_sum': {'term_list': ['TermList']},
        'correlation_function': dict(_CORR, ops1=[NAME], ops2=[NAME], hermitian='hermitian=True assumes <bra|O|ket> = conj(<ket|O^dagger|bra>) with bra = ket: compared on MPS only'),
        'term_correlation_function_right': dict(_TCF, i_L=['<int>'], j_R=['ints:']),
        'term_correlation_function_left': dict(_TCF, i_L=['ints:'], j_R=['<int>']),
        'term_list_correlation_function_right': {'term_list_L': ['TermList'], 'term_list_R': ['TermList'], 'i_L': ['<int>'], 'j_R': ['ints:'],
                                                 'autoJW': ['default', 'False'], 'opstr': ['default', NAME]},
        'full_contraction': {'i0': ['0', '<pos>']},
    },
}
# every other public method of the classes, classified (reason): not a measurement
_GROUPS = {
    'constructor (C07)': ['from_Bflat', 'from_desired_bond_dimension', 'from_full', 'from_hdf5', 'from_lat_product_state', 'from_product_mps_covering',
                          'from_product_state', 'from_random_unitary_evolution', 'from_singlets', 'project_onto_charge_sector', 'copy', 'save_hdf5'],
    'changes / rewrites the state (C07, C09)': ['add', 'apply_local_op', 'apply_local_term', 'apply_product_op', 'canonical_form', 'canonical_form_finite',
                                                'canonical_form_infinite1', 'canonical_form_infinite2', 'compress', 'compress_svd', 'convert_form', 'enlarge_chi',
                                                'enlarge_mps_unit_cell', 'extract_enlarged_segment', 'extract_segment', 'gauge_total_charge', 'get_grouped_mps',
                                                'group_sites', 'group_split', 'permute_sites', 'perturb', 'roll_mps_unit_cell', 'set_B', 'set_SL', 'set_SR',
                                                'set_svd_theta', 'spatial_inversion', 'subspace_expansion', 'swap_sites'],
    'accessor of tensors / sites / charges, helper': ['apply_JW_string_left_of_virt_leg', 'get_B', 'get_SL', 'get_SR', 'get_charge_tree_for_given_charge_sector',
                                                      'get_op', 'get_site', 'get_theta', 'get_total_charge', 'outer_virtual_legs', 'shift_Array_unit_cells',
                                                      'shift_Site_unit_cells', 'shift_charges_unit_cells', 'test_sanity'],
    'environment storage (C18 / C20)': ['cache_optimize', 'clear', 'del_LP', 'del_RP', 'get_LP', 'get_LP_age', 'get_RP', 'get_RP_age', 'get_initialization_data',
                                        'has_LP', 'has_RP', 'init_LP', 'init_RP', 'init_first_LP_last_RP', 'set_LP', 'set_RP'],
}
NOT_MEASUREMENT = {n: g for g, names in _GROUPS.items() for n in names}


def value_reached(pattern, values):
    """is some logged value class of `values` an instance of the required `pattern`"""
    for v in values:
        if pattern == '*' or v == pattern:
            return True
        if pattern == '<int>' and re.fullmatch(r'-?\d+', v):
            return True
        if pattern == '<pos>' and re.fullmatch(r'[1-9]\d*', v):
            return True
        if (pattern.endswith(':') or pattern == NAME or pattern.startswith(('ints:', 'strs:', 'term:', 'seq:'))) and v.startswith(pattern):
            return True
    return False


def option_coverage(reflected, options):
    """reflected: {'MPS': {method: [parameter names]}, ...} of the tree under test; options: what the compared calls passed.
    Returns (table for the evidence, list of complaints)"""
    rows, missing = {}, []
    base = set(reflected.get('BaseMPSExpectationValue', {}))
    for cname in ('MPS', 'MPSEnvironment'):
        space = OPTION_SPACE[cname]
        if cname == 'MPS':
            for fn in sorted(base - set(reflected.get('MPS', {}))):
                missing.append('BaseMPSExpectationValue.%s is not a method of MPS' % fn)
        for fn, params in sorted(reflected.get(cname, {}).items()):
            name = '%s.%s' % (cname, fn)
            if fn in space:
                reached = options.get(name, {})
                row = {}
                for pn in list(params) + [k for k in space[fn] if k.startswith('<')]:
                    want = space[fn].get(pn)
                    if want is None:
                        missing.append('%s: option %r is neither drawn from its option space nor classified' % (name, pn))
                        row[pn] = 'NOT COVERED'
                    elif isinstance(want, str):
                        row[pn] = 'not compared: ' + want
                    else:
                        got_ = reached.get(pn, {})
                        row[pn] = dict(sorted(got_.items(), key=lambda kv: -kv[1])[:16])
                        lack = [w for w in want if not value_reached(w, got_)]
                        if lack:
                            missing.append('%s: option %s: required value classes %s not reached in a compared call (reached: %s)'
                                           % (name, pn, lack, sorted(got_)[:12]))
                for pn in space[fn]:
                    if not pn.startswith('<') and pn not in params:
                        missing.append('%s: option %r of the option space is not a parameter of the method any more' % (name, pn))
                rows[name] = row
            elif fn in NOT_COMPARED:
                rows[name] = 'not compared: ' + NOT_COMPARED[fn]
            elif fn in NOT_MEASUREMENT:
                rows[name] = 'not a measurement: ' + NOT_MEASUREMENT[fn]
            else:
                missing.append('%s(%s): public method that is neither compared with a dense value nor classified' % (name, ', '.join(params)))
                rows[name] = 'NOT COVERED'
        for fn in space:
            if fn not in reflected.get(cname, {}):
                missing.append('%s.%s: method of the option space does not exist' % (cname, fn))
    return rows, missing


def charge_type(sites):
    """'none' | 'U1' | 'Z2' | 'Z3' (joined with + when the sites carry several charges)"""
    out = set()
    for cls, kw in sites:
        vals = [kw.get(k) for k in ('conserve', 'cons_N', 'cons_Sz') if k in kw]
        for v in vals:
            if v in (None, 'None'):
                continue
            if kw.get('_mod'):
                out.add('Z%d' % kw['_mod'])
            elif v == 'parity':
                out.add('Z2')
            elif cls == 'ClockSite':
                out.add('Z%d' % kw['q'])
            else:
                out.add('U1')
    return '+'.join(sorted(out)) or 'none'


def terms_sum_truncated(state, m):
    """infinite MPS: expectation_value_terms_sum passes ct.max_range() (in sites) to MPO.expectation_value_power, which contracts only
    max(max_range, 1) * L sites; True when some term starting in the first unit cell reaches beyond them"""
    if state['kind'] != 'infinite':
        return False
    L = len(state['sites'])
    rng_ = [max(i for _, i in t) - min(i for _, i in t) for t in m['terms']]
    mr = max(rng_ + [0])
    last = max(mr, 1) * L - 1
    return any((min(i for _, i in t) % L) + r > last for t, r in zip(m['terms'], rng_)) or last == 0
NEUTRAL = {'SpinHalfSite': [('Sp', 'Sm'), ('Sm', 'Sp'), ('Sz', 'Sz')], 'SpinSite': [('Sp', 'Sm'), ('Sm', 'Sp'), ('Sz', 'Sz')],
           'FermionSite': [('Cd', 'C'), ('C', 'Cd'), ('N', 'N'), ('dN', 'N')], 'BosonSite': [('Bd', 'B'), ('B', 'Bd'), ('N', 'N')],
           'SpinHalfFermionSite': [('Cdu', 'Cu'), ('Cu', 'Cdu'), ('Cdd', 'Cd'), ('Ntot', 'Sz'), ('Sp', 'Sm')],
           'ClockSite': [('X', 'Xhc'), ('Xhc', 'X'), ('Z', 'Zhc'), ('Z', 'Z'), ('Zhc', 'Z')]}


def spec(cls, **kw):
    return [cls, kw]


def cplx(lst):
    return np.array([complex(a, b) for a, b in lst])


SPIN_OPS = ['Sz', 'Sp', 'Sm']
FERM = {'FermionSite': ['C', 'Cd'], 'SpinHalfFermionSite': ['Cu', 'Cdu', 'Cd', 'Cdd']}
EVEN = {'FermionSite': ['N', 'dN'], 'SpinHalfFermionSite': ['Nu', 'Nd', 'Ntot', 'Sz', 'Sp', 'Sm'], 'SpinHalfSite': ['Sz', 'Sp', 'Sm'],
        'SpinSite': ['Sz', 'Sp', 'Sm'], 'BosonSite': ['N', 'B', 'Bd'], 'ClockSite': ['X', 'Xhc', 'Z', 'Zhc']}
# hermitian conjugates (operator names of the documentation tables)
HC = {'Sp': 'Sm', 'Sm': 'Sp', 'Sz': 'Sz', 'Sx': 'Sx', 'Sy': 'Sy', 'N': 'N', 'dN': 'dN', 'B': 'Bd', 'Bd': 'B', 'Nu': 'Nu', 'Nd': 'Nd',
      'Ntot': 'Ntot', 'X': 'Xhc', 'Xhc': 'X', 'Z': 'Zhc', 'Zhc': 'Z', 'Xphc': 'Xphc', 'Zphc': 'Zphc'}
HC_F = {'FermionSite': {'C': 'Cd', 'Cd': 'C'}, 'SpinHalfFermionSite': {'Cu': 'Cdu', 'Cdu': 'Cu', 'Cd': 'Cdd', 'Cdd': 'Cd'}}


def has_xy(s):
    cls, kw = s
    return cls in ('SpinHalfSite', 'SpinSite') and kw.get('conserve') in ('None', 'parity')


def even_ops(s):
    return EVEN[s[0]] + (['Sx', 'Sy'] if has_xy(s) else []) + (['Xphc', 'Zphc'] if s[0] == 'ClockSite' and s[1].get('conserve') == 'None' else [])


def state_specs(rng, ctx):
    """list of (state spec, tag)"""
    out = []
    SH = lambda c: spec('SpinHalfSite', conserve=c)   # noqa: E731
    F = lambda c: spec('FermionSite', conserve=c)      # noqa: E731
    for L in [2, 3, 4, 5, 6, 7]:
        out.append(({'kind': 'finite', 'sites': [SH(rng.choice(['Sz', 'parity', 'None']))] * L, 'chi_max': rng.choice([None, None, 2, 3])}, 'finite'))
    for L in [2, 3, 4, 5, 6]:
        out.append(({'kind': 'finite', 'sites': [F(rng.choice(['N', 'parity', 'None']))] * L, 'chi_max': rng.choice([None, 2, 3])}, 'finite'))
    # conserve=None spin chains: the only ones on which sample_measurements can measure Sx / Sy (lists of different operators)
    out.append(({'kind': 'finite', 'sites': [SH('None')] * 5, 'chi_max': None}, 'finite'))
    out.append(({'kind': 'finite', 'sites': [SH('None')] * 4, 'chi_max': 3}, 'finite'))
    out.append(({'kind': 'finite', 'sites': [spec('SpinSite', S=1.0, conserve='None')] * 3}, 'finite'))
    out.append(({'kind': 'finite', 'sites': [spec('SpinSite', S=1.0, conserve='parity')] * 4}, 'finite'))
    out.append(({'kind': 'finite', 'sites': [spec('SpinSite', S=1.0, conserve='Sz')] * 3}, 'finite'))
    out.append(({'kind': 'finite', 'sites': [spec('SpinHalfFermionSite', cons_N='N', cons_Sz='Sz')] * 3}, 'finite'))
    out.append(({'kind': 'finite', 'sites': [spec('SpinHalfFermionSite', cons_N='parity', cons_Sz='None')] * 3}, 'finite'))
    out.append(({'kind': 'finite', 'sites': [spec('SpinHalfFermionSite', cons_N='None', cons_Sz='None')] * 2}, 'finite'))
    out.append(({'kind': 'finite', 'sites': [spec('BosonSite', Nmax=2, conserve='N')] * 4, 'chi_max': 3}, 'finite'))
    out.append(({'kind': 'finite', 'sites': [F('None'), SH('None')] * 2 + [F('None')]}, 'finite'))
    out.append(({'kind': 'finite', 'sites': [F('None'), F('None'), SH('None'), F('None')]}, 'finite'))
    # Z_3 charges: clock sites, and U(1) charges kept only modulo 3 (Sz of spin 1, fermion number) through Site.change_charge
    CL3 = lambda c: spec('ClockSite', q=3, conserve=c)   # noqa: E731
    S1M3 = spec('SpinSite', S=1.0, conserve='Sz', _mod=3)
    FM3 = spec('FermionSite', conserve='N', _mod=3)
    for L in [3, 4, 5]:
        out.append(({'kind': 'finite', 'sites': [CL3('Z')] * L, 'chi_max': rng.choice([None, None, 3])}, 'finite'))
    out.append(({'kind': 'finite', 'sites': [CL3('None')] * 3}, 'finite'))
    out.append(({'kind': 'finite', 'sites': [S1M3] * rng.choice([3, 4])}, 'finite'))
    out.append(({'kind': 'finite', 'sites': [FM3] * rng.choice([4, 5, 6]), 'chi_max': rng.choice([None, 3])}, 'finite'))
    out.append(({'kind': 'finite', 'sites': [spec('SpinHalfSite', conserve='Sz', _mod=2)] * 5}, 'finite'))
    for (big, first, n) in [(6, 1, 3), (7, 2, 4), (5, 1, 2)]:
        s = SH(rng.choice(['Sz', 'None', 'parity']))
        out.append(({'kind': 'segment', 'big_sites': [s] * big, 'first': first, 'sites': [s] * n}, 'segment'))
        f = F(rng.choice(['N', 'None', 'parity']))
        out.append(({'kind': 'segment', 'big_sites': [f] * big, 'first': first, 'sites': [f] * n}, 'segment'))
    z3 = rng.choice([CL3('Z'), S1M3, FM3])
    out.append(({'kind': 'segment', 'big_sites': [z3] * 5, 'first': 1, 'sites': [z3] * 3}, 'segment'))
    # infinite MPS with charges (U(1), Z_2, Z_3)
    for cell in [[SH(rng.choice(['Sz', 'parity']))] * 2, [F(rng.choice(['N', 'parity']))] * rng.choice([2, 3]), [SH('parity')] * 2, [F('parity')] * 2,
                 [rng.choice([CL3('Z'), S1M3, FM3])] * 2]:
        out.append(({'kind': 'infinite', 'sites': cell, 'chi': 4, 'charged': True, 'steps': rng.choice([3, 4])}, 'infinite'))
    for cell in [[SH('None')], [SH('None')] * 2, [SH('None')] * 3, [F('None')], [F('None')] * 2, [F('None'), SH('None')],
                 [spec('SpinSite', S=1.0, conserve='None')], [F('None'), F('None'), SH('None')]]:
        out.append(({'kind': 'infinite', 'sites': cell, 'chi': rng.choice([2, 3])}, 'infinite'))
    if ctx.thorough():
        out = out * 6
    return out


N_SET = [1, 2, 0.5, 3, 'inf']       # Renyi indices: von Neumann, integer, fractional, min-entropy
CYC = {}


def cyc(name, values):
    """values[0], values[1], ... in turn (per name): every documented option value is reached in every run, whatever the seed"""
    k = CYC.get(name, 0)
    CYC[name] = k + 1
    return values[k % len(values)]


ABSENT = '<absent>'       # the keyword is not passed at all: the documented default


def put(kw, key, value):
    if value != ABSENT:
        kw[key] = value
    return kw


def gen_option_measurements(rng, st, sites, L, fin, homog):
    """entropies, spectra, mutual information, correlation length, translation overlap: every documented option of the methods drawn
    from its option space (Renyi index n, bonds, segment shapes, first_site, max_range, by_charge, for_matrix_S, target, shift ...)"""
    ms = []
    kind = st['kind']
    ctype = charge_type(sites)
    span = L if fin else 2 * L + 1
    tg = kind[:3]
    # entanglement_entropy(n, bonds, for_matrix_S)
    kw = put({}, 'n', cyc(tg + 'n_bonds', [ABSENT] + N_SET))
    b = cyc(tg + 'bonds', [ABSENT, None, 'int', 'list', 'list'])
    if b == 'int':
        b = rng.randint(0, L)
    elif b == 'list':
        b = sorted(rng.sample(range(0, L + 1), rng.randint(1, min(L + 1, 3))))
        if rng.random() < 0.3:
            rng.shuffle(b)
    put(kw, 'bonds', b)
    put(kw, 'for_matrix_S', cyc(tg + 'fms', [ABSENT, False, True]))
    ms.append({'f': 'ent_bonds', 'kw': kw})
    if kind == 'finite' and ctype == 'none' and L >= 2:
        ms.append({'f': 'ent_matrixS', 'bond': rng.randint(1, L - 1), 'n': cyc('n_matrixS', N_SET)})
    # entanglement_entropy_segment(segment, first_site, n)
    shapes = [ABSENT, [0], [0, 1], [0, 2], [1, 2], [0, 1, 2], [1, 0], [0, 1, 3], [2, 0]]
    shapes = [x for x in shapes if x == ABSENT or max(x) < (L if fin else span - 1)]
    seg = cyc(tg + 'seg_shape%d' % len(shapes), shapes)
    kw = put({}, 'segment', seg)
    top = max(seg) if seg != ABSENT else 0
    fs = cyc(tg + 'first_site', [ABSENT, None, 'list', 'list'])
    if fs == 'list':
        pool = list(range(L - top)) if fin else list(range(0, 2 * L + 1 - top))
        fs = sorted(rng.sample(pool, rng.randint(1, min(len(pool), 3))))
        if rng.random() < 0.3:
            rng.shuffle(fs)
    put(kw, 'first_site', fs)
    put(kw, 'n', cyc(tg + 'n_seg', [ABSENT] + N_SET))
    ms.append({'f': 'ent_seg', 'kw': kw})
    # entanglement_entropy_segment2(segment, n)
    if span >= 2:
        if fin:
            seg = sorted(rng.sample(range(L), rng.randint(1, min(L - 1, 3))))
        else:
            lo = rng.randrange(L)
            seg = sorted(rng.sample(range(lo, lo + 5), rng.randint(1, 3)))
        if rng.random() < 0.3:
            rng.shuffle(seg)
        ms.append({'f': 'ent_seg2', 'kw': put({'segment': seg}, 'n', cyc(tg + 'n_seg2', [ABSENT] + N_SET))})
    # entanglement_spectrum(by_charge)
    bc_ = cyc(tg + 'by_charge', [ABSENT, False, True])
    if bc_ is True and kind != 'finite':
        bc_ = False      # per-charge reference: total charge of the sites left of the bond, finite chains
    ms.append(put({'f': 'spectrum'}, 'by_charge', bc_))
    # mutinf_two_site(max_range, n)
    if span >= 2:
        kw = put({}, 'n', cyc(tg + 'n_mutinf', [ABSENT] + N_SET))
        put(kw, 'max_range', cyc(tg + 'max_range', [ABSENT, None, 1, 2, 3] if fin else [1, 2, 3]))
        ms.append({'f': 'mutinf', 'kw': kw})
    # correlation_length2 / correlation_length(target, charge_sector, return_charges)
    if kind == 'infinite' and ctype == 'none':
        kw = put({}, 'target', cyc('target', [ABSENT, 1, 2]))
        put(kw, 'charge_sector', cyc('xi_sector', [ABSENT, 0, None, ABSENT]))
        put(kw, 'return_charges', cyc('xi_return', [ABSENT, False, True, ABSENT, True]))
        ms.append({'f': 'corr_len', 'kw': kw})
    # overlap_translate_finite(psi, shift)
    if kind == 'finite' and homog and L >= 3:
        ms.append(put({'f': 'translate', 'chi_b': rng.choice([None, 2])}, 'shift', cyc('shift', [ABSENT, 1, 2, -1, L - 1])))
    return ms


def gen_measurements(rng, st, tag, env=False):
    """measurement list for a state; env=True: only what is meaningful for MPSEnvironment with bra != ket"""
    sites = st['sites']
    L = len(sites)
    fin = st['kind'] != 'infinite'
    span = L if fin else 2 * L + 1       # sites usable for multi-site operators (infinite: beyond the unit cell)
    ms = []
    cls = [s[0] for s in sites]

    def rs(lo=0, hi=None):
        return rng.randrange(lo, hi if hi is not None else (L if fin else 2 * L))
    fsites = [k for k in range(L) if cls[k] in FERM]
    ev = lambda k: rng.choice(even_ops(sites[k % L]))   # noqa: E731
    fo = lambda k: rng.choice(FERM[cls[k % L]])          # noqa: E731
    homog = len(set(json.dumps(s) for s in sites)) == 1
    # --- expectation_value
    if homog:
        ops = even_ops(sites[0])
        ms.append({'f': 'ev', 'ops': [rng.choice(ops)]})
        ms.append({'f': 'ev', 'ops': [rng.choice(ops), rng.choice(ops) + ' ' + rng.choice(ops)], 'sites': sorted(rng.sample(range(L if fin else 2 * L), min(L, 2)))})
        if span >= 2:
            n = rng.choice([2, 2, 3]) if span >= 3 else 2
            starts = list(range(0, (L - n + 1) if fin else L + 1))
            ms.append({'f': 'ev_multi', 'names': [[rng.choice(ops) for _ in range(n)]], 'sites': starts, 'axes': rng.random() < 0.5})
            ms.append({'f': 'ev_multi_sites', 'ops': [rng.choice(ops + ['Id']) for _ in range(n)], 'i0': rng.choice(starts)})
    else:
        ms.append({'f': 'ev', 'ops': [ev(k) for k in range(L)]})
    # --- terms
    for _ in range(3):
        n = rng.choice([1, 2, 3, 4])
        term = []
        for _ in range(n):
            k = rs()
            term.append([ev(k), k])
        if fsites and rng.random() < 0.8:
            # even number of fermionic operators anywhere in the term, in any order, also on equal sites
            for _ in range(rng.choice([2, 2, 4])):
                k = rng.choice(fsites) + (0 if fin else L * rng.choice([0, 0, 1]))
                term.insert(rng.randrange(len(term) + 1), [fo(k), k])
        if not fin and max(i for _, i in term) - min(i for _, i in term) > 6:
            continue
        ms.append({'f': 'ev_term', 'term': term})
        if len(ms) % 2 == 0 and len(term) <= 4:
            # autoJW=False: the plain product of the operators, no Jordan-Wigner strings
            ms.append({'f': 'ev_term', 'term': term, 'autoJW': False})
    if fin and st['kind'] == 'finite' or not fin:
        terms, strength = [], []
        for _ in range(rng.choice([2, 4])):
            k = rs(0, L)
            if homog:
                # all terms of one MPO need the same total charge: charge-neutral pairs
                k2 = rs(0, L) if fin else k + rng.choice([0, 1, 2])
                a, b = rng.choice(NEUTRAL[cls[0]])
                t = [[a, k], [b, k2]]
            elif fsites and rng.random() < 0.6:
                a, b = rng.choice(fsites), rng.choice(fsites)
                if not fin:
                    b += L * rng.choice([0, 1])
                t = [[fo(a), a], [fo(b), b]]
            else:
                k2 = rs(0, L) if fin else k + rng.choice([0, 1, 2])
                t = [[ev(k), k], [ev(k2), k2]]
            terms.append(t)
            strength.append(round(rng.uniform(-1, 1), 3))
        if not env or fin:
            ms.append({'f': 'terms_sum', 'terms': terms, 'strength': strength})
    # --- correlation functions
    if homog:
        ops = even_ops(sites[0])
        a, b = rng.choice(ops), rng.choice(ops)
        kw = {}
        if rng.random() < 0.6:
            kw['opstr'] = rng.choice(ops)
            kw['str_on_first'] = rng.random() < 0.5
        if not fin:
            kw['sites1'] = sorted(rng.sample(range(2 * L + 1), 2))
            kw['sites2'] = sorted(rng.sample(range(2 * L + 1), 2))
        elif rng.random() < 0.5:
            kw['sites1'] = sorted(rng.sample(range(L), rng.randint(1, L)))
            kw['sites2'] = sorted(rng.sample(range(L), rng.randint(1, L)))
        ms.append({'f': 'corr', 'ops1': [a], 'ops2': [b], 'kwargs': kw})
        # hermitian shortcut (op2 = op1^dagger), with equal and with different site lists
        hc = HC
        a = rng.choice([o for o in ops if o in hc])
        kw = {'hermitian': True}
        if rng.random() < 0.4 and L >= 3 and fin:
            kw['sites1'] = [0, 1]
            kw['sites2'] = [1, 2]
        ms.append({'f': 'corr', 'ops1': [a], 'ops2': [hc[a]], 'kwargs': kw})
        if cls[0] in FERM:
            f1, f2 = rng.choice(FERM[cls[0]]), rng.choice(FERM[cls[0]])
            kw = {}
            if not fin:
                kw['sites1'] = sorted(rng.sample(range(2 * L + 1), 2))
                kw['sites2'] = sorted(rng.sample(range(2 * L + 1), 3))
            ms.append({'f': 'corr', 'ops1': [f1], 'ops2': [f2], 'kwargs': kw})
            ms.append({'f': 'corr', 'ops1': [f1], 'ops2': [f2], 'kwargs': dict(kw, opstr='JW', autoJW=False, str_on_first=True)})
            hcf = {'C': 'Cd', 'Cd': 'C', 'Cu': 'Cdu', 'Cdu': 'Cu', 'Cdd': 'Cd'}
            if f1 in hcf and cls[0] == 'FermionSite':
                ms.append({'f': 'corr', 'ops1': [f1], 'ops2': [hcf[f1]], 'kwargs': {'hermitian': True}})
            if L >= 2 and fin:
                # site-dependent operator lists: fermionic operators of ops1 on sites1, of ops2 on sites2 only
                ev_ = rng.choice(EVEN[cls[0]])
                o1 = [f1, ev_]
                o2 = [ev_, f2]
                ms.append({'f': 'corr', 'ops1': o1, 'ops2': o2, 'kwargs': {'sites1': list(range(0, L, 2)), 'sites2': list(range(1, L, 2))},
                           'lists': True})
    elif fsites and fin:
        f1, f2 = fo(fsites[0]), fo(fsites[0])
        ms.append({'f': 'corr', 'ops1': [f1], 'ops2': [f2], 'kwargs': {'sites1': fsites, 'sites2': fsites}})
    # --- term correlation functions
    if L >= 3 or not fin:
        if fsites and (homog or not fin):
            tL = [[fo(fsites[0]), 0]]
            tR = [[fo(fsites[0]), 0]]
        else:
            tL = [[ev(0), 0]]
            tR = [[ev(k), 0] for k in [0]]
        if fin:
            if homog:
                tL = tL + [[ev(1), 1]] if rng.random() < 0.5 and L >= 4 else tL
                wL = max(i for _, i in tL) + 1
                jR = sorted(rng.sample(range(wL, L), min(2, L - wL)))
                ms.append({'f': 'tcf_right', 'term_L': tL, 'term_R': tR, 'i_L': 0, 'j_R': jR})
                iL = sorted(rng.sample(range(0, L - wL), min(2, L - wL)))
                ms.append({'f': 'tcf_left', 'term_L': tL, 'term_R': tR, 'i_L': iL, 'j_R': L - 1})
        elif homog:
            ms.append({'f': 'tcf_right', 'term_L': tL, 'term_R': tR, 'i_L': 0, 'j_R': [L, 2 * L]})
            ms.append({'f': 'tcf_left', 'term_L': tL, 'term_R': tR, 'i_L': [-L, -2 * L], 'j_R': 0})
        if homog and fin and L >= 4 and cyc('tcf_default_jR', [True, False]):
            # documented default j_R=None of a finite MPS: every position right of term_L
            ms.append({'f': 'tcf_right', 'term_L': tL, 'term_R': [tR[0][:1] + [0]], 'i_L': rng.randint(0, 1), 'j_R': None})
        if homog and not fin and L == 1 and site_dim(sites[0]) == 2:
            # documented defaults of an infinite MPS: one value per unit cell up to a distance of 10 unit cells
            ms.append({'f': 'tcf_right', 'term_L': tL, 'term_R': tR, 'i_L': 0, 'j_R': None})
            ms.append({'f': 'tcf_left', 'term_L': tL, 'term_R': tR, 'i_L': None, 'j_R': 0})
        if homog and [x for x in ms if x['f'] == 'tcf_left']:
            # autoJW=False with the documented opstr between the terms (operators without Jordan-Wigner string)
            pool = [o for o in even_ops(sites[0]) if o in NEUTRAL_OPS or charge_type(sites) == 'none']
            for base in ([x for x in ms if x['f'] == 'tcf_right' and x['j_R'] is not None][-1], [x for x in ms if x['f'] == 'tcf_left' and x['i_L'] is not None][-1]):
                m2 = dict(base, term_L=[[ev(0), 0]] + ([[ev(1), 1]] if len(base['term_L']) > 1 else []), term_R=[[ev(0), 0]], autoJW=False)
                put(m2, 'opstr', cyc('tcf_opstr', [ABSENT, None] + [rng.choice(pool)] * 3) if pool else ABSENT)
                ms.append(m2)
    # --- correlation functions between sums of terms (TermLists mixing charged and uncharged, bosonic and fermionic terms)
    for _ in range(3 if homog else 2):
        m = gen_tlcf(rng, st, sites, L, fin, homog, ev, fo, fsites)
        if m is not None:
            ms.append(m)
    if env:
        ms.append({'f': 'full_contraction', 'i0': list(range(L))})
        return [m for m in ms if m['f'] in ('ev', 'ev_multi', 'ev_multi_sites', 'ev_term', 'corr', 'terms_sum', 'tcf_right', 'tcf_left', 'tlcf_right', 'full_contraction')
                and not m.get('lists') and not m.get('kwargs', {}).get('hermitian')]
    # --- density matrices, entropies
    if span >= 2:
        ms.append({'f': 'rho', 'segment': [0, 1]})
    if span >= 3:
        seg = sorted(rng.sample(range(min(span, 5)), 2))
        ms.append({'f': 'rho', 'segment': seg})
        if span >= 4:
            ms.append({'f': 'rho', 'segment': [0, 2, 3]})
    if st['kind'] == 'finite' and L >= 2:
        ms.append({'f': 'ent', 'n': rng.choice(N_SET), 'segment': sorted(rng.sample(range(L), rng.randint(1, min(L - 1, 3))))})
    ms.extend(gen_option_measurements(rng, st, sites, L, fin, homog))
    # --- charges, sampling
    if st['kind'] == 'finite':
        if any(s[1].get('conserve', s[1].get('cons_N')) not in (None, 'None') for s in sites):
            b = cyc('charge_bond', ['default', 0, 'any', 'any'])
            ms.append({'f': 'prob_charge', 'bond': 0, 'default_bond': True} if b == 'default' else
                      {'f': 'prob_charge', 'bond': rng.randint(1, L - 1) if L > 1 and b == 'any' else 0})
        for _ in range(8 if (homog and cls[0] in ('SpinHalfSite', 'SpinSite') and sites[0][1].get('conserve') == 'None') else 4):
            m = {'f': 'sample', 'seed': rng.randrange(10 ** 6), 'complex_amplitude': rng.random() < 0.6}
            r = rng.random()
            if r < 0.3 and L >= 3:
                m['first'], m['last'] = 1, rng.randint(1, L - 1)
            if rng.random() < 0.5 and homog and cls[0] in ('SpinHalfSite', 'SpinSite'):
                pool = ['Sz'] + (['Sx', 'Sy'] if sites[0][1].get('conserve') == 'None' else [])
                # lists of several different operators: ops[(i - first_site) % len(ops)] acts on site i
                m['ops'] = [rng.choice(pool) for _ in range(rng.randint(1, 3))]
                if L >= 3 and rng.random() < 0.7:
                    m['first'] = rng.randint(1, L - 2)
                    m['last'] = rng.randint(m['first'], L - 1)
            ms.append(m)
    elif st['kind'] == 'infinite':
        ms.append({'f': 'sample', 'seed': rng.randrange(10 ** 6), 'first': 0, 'last': L, 'complex_amplitude': True})
    return ms


NEUTRAL_OPS = {'Sz', 'N', 'dN', 'Nu', 'Nd', 'Ntot', 'Z', 'Zhc'}


def site_dim(s):
    cls, kw = s
    return {'SpinHalfSite': 2, 'FermionSite': 2, 'SpinHalfFermionSite': 4}.get(cls) or (
        int(kw['q']) if cls == 'ClockSite' else int(kw['Nmax']) + 1 if cls == 'BosonSite' else int(round(2 * float(kw.get('S', 0.5)) + 1)))


def gen_tlcf(rng, st, sites, L, fin, homog, ev, fo, fsites):
    """one call of term_list_correlation_function_right: two TermLists (2-4 terms of 1-3 operators in windows of 1-2 sites, written
    relative to arbitrary origins, also negative relative indices), i_L, j_R (several offsets / the default None), complex strengths;
    operators of every kind the sites offer (charged and uncharged, fermionic and bosonic)"""
    if fin and L < 2:
        return None
    cls = [s_[0] for s_ in sites]
    auto = not (rng.random() < 0.2)
    if fin:
        wL = rng.randint(1, min(2, L - 1))
        wR = rng.randint(1, min(2, L - wL))
        a = rng.randint(0, L - wL - wR)
        starts = list(range(a + wL, L - wR + 1))
        bs = sorted(rng.sample(starts, min(len(starts), rng.randint(1, 3)))) if homog else [rng.choice(starts)]
    else:
        # the dense reference builds the operator on the whole window: at most 256 dimensions
        dmax = max(site_dim(s_) for s_ in sites)
        nmax = 8 if dmax == 2 else (5 if dmax == 3 else 4)
        wL, wR = rng.randint(1, 2), rng.randint(1, 2)
        a = rng.randint(-L, L)
        starts = list(range(a + wL, a + nmax - wR + 1))
        b0 = rng.choice(starts[:3])
        more = [b for b in starts if b > b0 and (b - b0) % L == 0]
        bs = sorted(set([b0] + rng.sample(more, min(len(more), rng.randint(0, 2)))))

    def one_term(start, w):
        t = []
        for _ in range(rng.choice([1, 1, 2, 3])):
            k = start + rng.randrange(w)
            fermi = auto and (k % L) in fsites and rng.random() < 0.5
            t.append([fo(k) if fermi else ev(k), k])
        return t

    def one_list(start, w):
        n = rng.randint(2, 4)
        return [one_term(start, w) for _ in range(n)]
    absL, absR = one_list(a, wL), one_list(bs[0], wR)
    # make it likely that charged terms of the left list find a partner of opposite charge in the right list
    singles = [t[0] for t in absL if len(t) == 1]
    if singles and rng.random() < 0.8:
        op, k = rng.choice(singles)
        kR = bs[0] + rng.randrange(wR)
        if homog or (not fin and (kR - k) % L == 0):
            partner = HC.get(op) or HC_F.get(cls[k % L], {}).get(op)
            if partner is not None:
                absR.insert(rng.randrange(len(absR) + 1), [[partner, kR]])
    oL = a + rng.choice([0, 0, 0, 1, -1])
    oR = bs[0] + rng.choice([0, 0, 0, 1, -2])
    tLs = [[[op, k - oL] for op, k in t] for t in absL]
    tRs = [[[op, k - oR] for op, k in t] for t in absR]

    def strengths(n):
        return [[round(rng.uniform(-1, 1), 3), round(rng.uniform(-1, 1), 3) if rng.random() < 0.5 else 0.0] for _ in range(n)]
    m = {'f': 'tlcf_right', 'terms_L': tLs, 'strength_L': strengths(len(tLs)), 'terms_R': tRs, 'strength_R': strengths(len(tRs)),
         'i_L': oL, 'j_R': [oR + (b - bs[0]) for b in bs]}
    rng.shuffle(m['j_R'])
    min_L = min(i for t in tLs for _, i in t)
    min_R = min(i for t in tRs for _, i in t)
    max_R = max(i for t in tRs for _, i in t)
    if st['kind'] == 'finite' and homog and min_L == min_R and max_R >= 0 and rng.random() < 0.3:
        m['j_R'] = None     # documented default: all positions right of the left list
    if not auto:
        m['autoJW'] = False
        # opstr: operators that carry no charge (diagonal ones; any operator when nothing is conserved).  With a charged opstr the
        # function pairs the partial contractions by the charge they had BEFORE the string was applied (see the report of C08_n2).
        pool = [o for o in even_ops(sites[0]) if o in NEUTRAL_OPS or charge_type(sites) == 'none']
        m['opstr'] = rng.choice([None] + pool[:1] + pool) if homog and pool else None
    return m


# ---------------------------------------------------------------------- exact states for the stream sample_loop
UNITS = [(1.0, 0.0), (-1.0, 0.0), (0.0, 1.0), (0.0, -1.0)]


def _cmul(a, b):
    return (a[0] * b[0] - a[1] * b[1], a[0] * b[1] + a[1] * b[0])


def exact_tensor(rng, chiL, chiR):
    """right-isometric B[vL][p][vR] on a site of dimension 4 (or 7 for two types with chiL = 1), bond dimensions 1 or 4,
    entries unit * 2^-k (unit in 1,-1,i,-i); returns (nested list of (re, im), type name)"""
    d = 4
    pi = rng.sample(range(d), d)
    sg = rng.sample(range(d), d)
    u = lambda: rng.choice(UNITS)   # noqa: E731
    zeros = lambda dim: [[[(0.0, 0.0) for _ in range(chiR)] for _ in range(dim)] for _ in range(chiL)]   # noqa: E731
    if chiL == 1 and rng.random() < 0.3:
        # 7 outcomes with amplitudes 1/2 (three of them) and 1/4 (four of them); the four small ones lead to the same bond state
        B = zeros(7)
        perm = rng.sample(range(7), 7)
        b3 = rng.randrange(4)
        others = [b for b in range(4) if b != b3]
        for n, s_ in enumerate(perm):
            b = 0 if chiR == 1 else (others[n] if n < 3 else b3)
            B[0][s_][b] = _cmul(u(), (0.5 if n < 3 else 0.25, 0.0))
        return B, 'mixed7' if chiR == 1 else 'open7'
    B = zeros(d)
    if (chiL, chiR) == (1, 1):
        if rng.random() < 0.6:
            for s_ in range(d):
                B[0][s_][0] = _cmul(u(), (0.5, 0.0))
            return B, 'uniform'
        B[0][rng.randrange(d)][0] = u()
        return B, 'basis'
    if (chiL, chiR) == (1, 4):
        for s_ in range(d):
            B[0][s_][pi[s_]] = _cmul(u(), (0.5, 0.0))
        return B, 'open'
    if (chiL, chiR) == (4, 1):
        for a in range(d):
            B[a][pi[a]][0] = u()
        return B, 'close'
    t = rng.choice(['carry', 'latin', 'hadamard'])
    for a in range(d):
        if t == 'carry':          # delta(p = pi(a)) delta(b = sigma(a))
            B[a][pi[a]][sg[a]] = u()
        elif t == 'latin':        # delta(p = pi(a) + b mod 4) / 2
            for b in range(d):
                B[a][(pi[a] + b) % d][b] = _cmul(u(), (0.5, 0.0))
        else:                     # delta(p = pi(a)) i^(a b) / 2
            ua = u()
            for b in range(d):
                B[a][pi[a]][b] = _cmul(_cmul(ua, UNITS[[0, 2, 1, 3][(a * b) % 4]]), (0.5, 0.0))
    return B, t


def exact_mps(rng, L, infinite):
    """bond dimensions chi_0..chi_L in {1, 4} (finite: chi_0 = chi_L = 1; infinite: chi_0 = chi_L), tensors of exact_tensor,
    singular values 1 resp. (1/2, 1/2, 1/2, 1/2) (the Schmidt values of these states)"""
    chi = [rng.choice([1, 4, 4]) for _ in range(L + 1)]
    if infinite:
        chi[L] = chi[0]
    else:
        chi[0] = chi[L] = 1
    Bs, types = [], []
    for i in range(L):
        B, t = exact_tensor(rng, chi[i], chi[i + 1])
        Bs.append(B)
        types.append(t)
    SVs = [[1.0] if c == 1 else [0.5] * 4 for c in chi]
    return Bs, SVs, types


def frac_lit(x):
    """exact rational literal (numerator, denominator) of a float (Coq text; the case files are in Z_scope)"""
    n, d = float(x).as_integer_ratio()
    return '(%s, %d)' % (('(%d)' % n) if n < 0 else '%d' % n, d)


def gauss_lit(z):
    return '(%s, %s)' % (frac_lit(z[0]), frac_lit(z[1]))


def tensor_lit(t):
    return '[' + '; '.join('[' + '; '.join('[' + '; '.join(gauss_lit(z) for z in row) + ']' for row in mat) + ']' for mat in t) + ']'


def env_corr_diagonal_norm_twice(case, m, got, want, t):
    """MPSEnvironment.correlation_function with bra.norm * ket.norm != 1: True when exactly the entries with sites1[x] == sites2[y] differ
    from the dense <bra|O|ket> and every one of them equals the dense value times bra.norm * ket.norm once more"""
    norms = (case.get('bra') or {}).get('norms')
    if not norms or got.shape != want.shape:
        return False
    scale = float(norms[0]) * float(norms[1])
    L = len(case['state']['sites'])
    kw = m.get('kwargs', {})
    s1, s2 = sorted(kw.get('sites1', range(L))), sorted(kw.get('sites2', range(L)))
    diag = np.array([i == j for i in s1 for j in s2], dtype=bool)
    if diag.shape != got.shape or not diag.any() or abs(scale - 1.0) < 1e-6:
        return False
    bound = t * max(1.0, np.max(np.abs(want)))
    off_ok = np.all(np.abs(got - want)[~diag] <= bound)
    twice = np.all(np.abs(got - scale * want)[diag] <= bound)
    return bool(off_ok and twice and np.max(np.abs(got - want)[diag]) > bound)


def judge(ctx, case, tag, m, r, tol):
    """compare one record; returns nothing, records failures"""
    what = m['f']
    info = {'stream': tag, 'state': case['state'], 'seed': case['seed'], 'measure': m}
    if case.get('bra'):
        info['bra'] = case['bra']
    if 'error' in r:
        key = 'C08:%s:raises' % what
        if what == 'terms_sum' and r['error'] == 'UnboundLocalError' and terms_sum_truncated(case['state'], m):
            key = F21_KEY
        if what == 'corr' and m.get('lists') and r['error'] == 'ValueError' and 'operators need' in r.get('msg', ''):
            key = F16_KEY
        ctx.fail('oracle', '%s raised %s: %s  [%s]' % (what, r['error'], r.get('msg', ''), json.dumps(m)[:300]), info, match_key=key)
        return False
    if what == 'sample':
        w = cplx(r['weight'])[0]
        p = r['prob']
        n = r['n_sites']
        if r['complex_amplitude']:
            ok = abs(abs(w) ** 2 - p) < tol
            if ok and r.get('amp') is not None:
                ok = abs(w - cplx(r['amp'])[0]) < tol
            if not ok:
                ctx.fail('oracle', 'sample_measurements: returned weight %r, Born amplitude %s / probability %.12g of the returned outcome %s'
                         % (w, r.get('amp'), p, r['sigmas']), info, match_key='C08:sample_measurements:amplitude')
        else:
            if abs(w - p) > tol:
                key = 'C08:sample_measurements:probability'
                if n >= 2:
                    key = F19_KEY
                ctx.fail('oracle', 'sample_measurements(complex_amplitude=False) on %d sites: returned %.12g, probability of the returned '
                         'outcome %s is %.12g' % (n, w.real, r['sigmas'], p), info, match_key=key)
        return True
    got, want = cplx(r['got']), cplx(r['want'])
    t = max(tol, r.get('tol', 0))
    vkey = 'C08:%s:value' % what
    if what == 'tcf_left' and m.get('autoJW', True):
        docs = [orc.doc_site(*s_) for s_ in case['state']['sites']]
        if sum(docs[i % len(docs)].needs_JW(op) for op, i in m['term_R']) % 2 == 1:
            vkey = F20_KEY
    if what == 'terms_sum' and terms_sum_truncated(case['state'], m):
        vkey = F21_KEY
    if what == 'corr' and env_corr_diagonal_norm_twice(case, m, got, want, t):
        vkey = F08_1_KEY
    if got.shape != want.shape:
        ctx.fail('oracle', '%s returned %d values, expected %d %s[%s]' % (what, got.size, want.size, r.get('msg', ''), json.dumps(m)[:200]), info,
                 match_key='C08:%s:shape' % what)
        return False
    if got.size and np.max(np.abs(got - want)) > t * max(1.0, np.max(np.abs(want))):
        k = int(np.argmax(np.abs(got - want)))
        ctx.fail('oracle', '%s: value #%d = %r, dense %s = %r (max diff %.2e) %s[%s]'
                 % (DESCR.get(what, what), k, complex(got[k]), 'value' if what in DESCR else '<bra|O|ket>', complex(want[k]),
                    np.max(np.abs(got - want)), (r.get('msg', '') + ' ') if r.get('msg') else '', json.dumps(m)[:300]), info,
                 match_key=vkey)
        return False
    if what == 'prob_charge' and r.get('nonmod') and len(r['avg']) == len(r['avg_want']):
        if np.max(np.abs(cplx(r['avg']) - cplx(r['avg_want']))) > t:
            ctx.fail('oracle', 'average_charge %s, dense %s' % (r['avg'], r['avg_want']), info, match_key='C08:average_charge')
        if len(r['var']) == len(r.get('var_want', [])) and np.max(np.abs(cplx(r['var']) - cplx(r['var_want']))) > 10 * t:
            ctx.fail('oracle', 'charge_variance %s, dense %s' % (r['var'], r['var_want']), info, match_key='C08:charge_variance')
    return True


DESCR = {'ent_bonds': 'entanglement_entropy(n, bonds, for_matrix_S) vs entropy of the dense Schmidt values',
         'ent_matrixS': 'entanglement_entropy(for_matrix_S=True) with a matrix S (last value: ValueError raised with for_matrix_S=False)',
         'ent_seg': 'entanglement_entropy_segment(segment, first_site, n) vs entropy of the dense reduced density matrix',
         'ent_seg2': 'entanglement_entropy_segment2(segment, n) vs entropy of the dense reduced density matrix',
         'ent': 'entanglement_entropy(n) / entanglement_spectrum / entanglement_entropy_segment2(segment, n)',
         'spectrum': 'entanglement_spectrum(by_charge): exp(-xi) vs squared dense Schmidt values (per bond, per charge left of it)',
         'mutinf': 'mutinf_two_site(max_range, n) vs S_n(i) + S_n(j) - S_n(i,j) of the dense reduced density matrices',
         'corr_len': 'correlation_length2 / correlation_length vs -L/log|lambda_k/lambda_0| of the dense transfer matrix',
         'translate': 'overlap_translate_finite vs <psi|T^shift|phi> of the dense vectors',
         'full_contraction': 'MPSEnvironment.full_contraction(i0) vs dense <bra|ket>'}


def run_chunks(ctx, kind, cases, nproc=None):
    n = max(1, min(nproc or common.NPROC, len(cases)))
    chunks = [cases[i::n] for i in range(n)]
    res = common.run_impl_parallel('c08_impl.py', [{'kind': kind, 'cases': ch} for ch in chunks], timeout=1500)
    out = [None] * len(cases)
    for ci, (r, err) in enumerate(res):
        if err:
            ctx.fail('correspondence', '%s runner failed: %s' % (kind, err[-500:]), None)
            continue
        for j, x in enumerate(r):
            out[ci + j * n] = x
    return out


def parse_coq_nested(out):
    m = re.search(r'=\s*(\[.*\])\s*:\s*list', out, re.S)
    if not m:
        return None
    txt = m.group(1).replace('%Z', '').replace(';', ',')
    txt = re.sub(r'\s+', ' ', txt)
    return json.loads(txt)


def stream_sample_loop(ctx, rng, boost, corrupt=None):
    """weight loop of sample_measurements vs Model/Sample.v instantiated with exact Gaussian rationals (Model/SampleCheck.v)"""
    cases = []
    for _ in range(ctx.pick(30, 200) * boost):
        inf = rng.random() < 0.4
        L = rng.randint(1, 5)
        Bs, SVs, types = exact_mps(rng, L, inf)
        qs = []
        for _ in range(6):
            first = rng.randint(-L, L) if inf else rng.randint(0, L - 1)
            last = first + rng.randint(0, 2 * L) if inf else rng.randint(first, L - 1)
            if not inf and rng.random() < 0.4:
                first, last = 0, L - 1          # the full finite chain: phase branch
            qs.append({'first': first, 'last': last, 'seed': rng.randrange(10 ** 6), 'complex_amplitude': rng.random() < 0.5})
        cases.append({'L': L, 'bc': 'infinite' if inf else 'finite', 'Bs': Bs, 'SVs': SVs, 'types': types, 'queries': qs})
    res = run_chunks(ctx, 'sample_loop', cases, nproc=ctx.pick(4, 12))
    lits, src, nq = [], [], 0
    for case, rr in zip(cases, res):
        if rr is None:
            continue
        if 'runner_error' in rr:
            ctx.fail('correspondence', 'sample_loop runner failed: ' + rr['runner_error'][-400:], {'stream': 'sample_loop', 'case': case})
            continue
        qlits, infos = [], []
        for q, x in zip(case['queries'], rr['results']):
            info = {'stream': 'sample_loop', 'L': case['L'], 'bc': case['bc'], 'types': case['types'], 'query': q, 'impl': x}
            if 'error' in x:
                ctx.fail('correspondence', 'sample_measurements raised on an exact state: ' + x['error'], info)
                continue
            n = q['last'] - q['first'] + 1
            nr = x['norms']
            # npc.norm is called twice per site (weight; theta / norm) except on the last one
            if len(nr) != 2 * n - 1 or any(nr[2 * k] != nr[2 * k + 1] for k in range(n - 1)) or len(x['sigmas']) != n:
                ctx.fail('correspondence', 'sample_measurements: unexpected sequence of npc.norm calls %s for %d sites' % (nr, n), info)
                continue
            ws = nr[0::2]
            full = case['bc'] == 'finite' and q['first'] == 0 and q['last'] == case['L'] - 1
            ctx.count('sample_loop', [case['Bs'], case['bc'], q], nontrivial=n >= 2 and any(w != 1.0 for w in ws),
                      sample={'types': case['types'], 'query': q, 'weights': ws, 'total': x['weight'], 'full': full})
            tot = x['weight']
            if corrupt == nq:
                tot = [tot[0] * 2.0, tot[1]]
            nq += 1
            qlits.append('(%d, %s, %s, %s, %s, %s)' % (q['first'], coq_lit(q['complex_amplitude']), tensor_lit(x['theta0']),
                                                       '[' + '; '.join('%d' % s_ for s_ in x['sigmas']) + ']',
                                                       '[' + '; '.join(frac_lit(w) for w in ws) + ']', gauss_lit(tot)))
            infos.append(info)
        if qlits:
            lits.append('(%s, %d, [%s], [%s])' % (coq_lit(case['bc'] == 'finite'), case['L'], '; '.join(tensor_lit(b) for b in rr['B']),
                                                  ';\n  '.join(qlits)))
            src.append(infos)
    if lits:
        bad, err = common.coq_failing_indices('cases_c08_sloop', ['Base.Prelude', 'Model.Sample', 'Model.SampleCheck'], 'check_sample_case', lits)
        if err:
            ctx.fail('correspondence', 'model evaluation failed (sample_loop): ' + err[-600:], None)
        for b in bad[:5]:
            infos = src[b]
            ctx.fail('correspondence', 'Model/Sample.v (sample_factors / sample_weight over exact Gaussian rationals) and sample_measurements disagree '
                     'on one of the calls (first, last, complex_amplitude, weights per site, returned) %s of an exact state with tensors %s'
                     % ([(i_['query']['first'], i_['query']['last'], i_['query']['complex_amplitude'], i_['impl']['norms'][0::2],
                          i_['impl']['weight']) for i_ in infos], infos[0]['types']), {'stream': 'sample_loop', 'calls': infos})
        ctx.cov['sample_loop_cases_validated_against_impl'] = nq
        return bad
    return []

TCF_CLASSES = {'F': ('FermionSite', {'conserve': 'None'}), 'X': ('SpinHalfFermionSite', {'cons_N': 'None', 'cons_Sz': 'None'}),
               'S': ('SpinHalfSite', {'conserve': 'None'}), 'B': ('BosonSite', {'Nmax': 2, 'conserve': 'None'})}


def gen_tcf_case(rng):
    """a chain with a periodic pattern of site classes and queries for term_correlation_function_right/_left: random terms
    (fermionic and bosonic operators, several on one site, any order, negative relative sites), several offsets; separated,
    touching and overlapping terms, equal and different fermion parity"""
    P = rng.choice([1, 1, 2, 3])
    pat = [rng.choice(['F', 'F', 'X', 'S', 'B']) for _ in range(P)]
    if all(c in 'SB' for c in pat) and rng.random() < 0.7:
        pat[0] = 'F'
    inf = rng.random() < 0.4
    L = P * rng.choice([1, 2]) if inf else 24
    sites = [spec(TCF_CLASSES[pat[k % P]][0], **TCF_CLASSES[pat[k % P]][1]) for k in range(L)]
    cls = lambda k: TCF_CLASSES[pat[k % P]][0]   # noqa: E731

    def term(start, n_ops, width, want_parity=None):
        t = []
        for _ in range(n_ops):
            k = start + rng.randrange(width)
            c = cls(k)
            t.append([rng.choice(FERM[c]) if c in FERM and rng.random() < 0.6 else rng.choice(EVEN[c]), k])
        par = sum(1 for op, k in t if cls(k) in FERM and op in FERM[cls(k)]) % 2
        if want_parity is not None and par != want_parity:
            ks = [k for k in range(start, start + width) if cls(k) in FERM]
            if ks:
                k = rng.choice(ks)
                t.insert(rng.randrange(len(t) + 1), [rng.choice(FERM[cls(k)]), k])
                par = want_parity
        return t, par
    qs = []
    for _ in range(8):
        base = rng.randint(0, 2) if not inf else rng.randint(-2 * L, L)
        wL, wR = rng.randint(1, 3), rng.randint(1, 3)
        tL, pL = term(base, rng.randint(1, 4), wL)
        endL = max(k for _, k in tL)
        gap = rng.choice([-1, 0, 1, 1, 2, 3, 4])            # first site of the window of term_R minus last site of term_L
        startR = endL + gap if inf else max(endL + gap, 0)
        tR, pR = term(startR, rng.randint(1, 4), wR, want_parity=pL if rng.random() < 0.8 else None)
        # write the terms relative to arbitrary origins
        oL = rng.choice([base, base, base + 1, min(k for _, k in tL), base - 1])
        oR = rng.choice([startR, startR, startR + 1, min(k for _, k in tR), startR - 2])
        relL = [[op, k - oL] for op, k in tL]
        relR = [[op, k - oR] for op, k in tR]
        more = sorted(set(P * rng.randint(0, 3) for _ in range(rng.randint(0, 2))) - {0})
        if rng.random() < 0.5:
            q = {'variant': 'right', 'term_L': relL, 'term_R': relR, 'i_L': oL, 'j_R': [oR] + [oR + m for m in more]}
            rng.shuffle(q['j_R'])
        else:
            iL = [oL] + [oL - m for m in more if inf or base - m >= 0]
            rng.shuffle(iL)
            q = {'variant': 'left', 'term_L': relL, 'term_R': relR, 'i_L': iL, 'j_R': oR}
        q['parity'] = [pL, pR]
        q['gap'] = gap
        qs.append(q)
    return {'sites': sites, 'bc': 'infinite' if inf else 'finite', 'queries': qs}


def stream_tcf_words(ctx, rng, boost, corrupt=None):
    """operator words term_correlation_function_right/_left contract per site vs Model/CorrTerm.v (Model/CorrTermCheck.v)"""
    cases = [gen_tcf_case(rng) for _ in range(ctx.pick(16, 120) * boost)]
    res = run_chunks(ctx, 'tcf_words', cases, nproc=ctx.pick(4, 12))
    lits, src = [], []
    for case, rr in zip(cases, res):
        if rr is None:
            continue
        if isinstance(rr, dict):
            ctx.fail('correspondence', 'tcf_words runner failed: ' + rr.get('runner_error', '')[-400:], {'stream': 'tcf_words', 'case': case})
            continue
        docs = [orc.doc_site(*s_) for s_ in case['sites']]
        L = len(docs)
        for q, x in zip(case['queries'], rr):
            info = {'stream': 'tcf_words', 'sites': case['sites'][:6], 'L': L, 'bc': case['bc'], 'query': q, 'impl': x}
            if x.get('error'):
                ctx.fail('correspondence', 'tcf_words runner: %s on %s' % (x['error'], q), info)
                continue
            ids = {}

            def oid(n):
                return ids.setdefault(n, len(ids) + 1)
            left = q['variant'] == 'left'
            offs_L = sorted(q['i_L'], reverse=True) if left else [q['i_L']]
            offs_R = [q['j_R']] if left else sorted(q['j_R'])
            itL = [(oid(op), k, bool(docs[(k + offs_L[0]) % L].needs_JW(op))) for op, k in q['term_L']]
            itR = [(oid(op), k, bool(docs[(k + offs_R[0]) % L].needs_JW(op))) for op, k in q['term_R']]
            entries = x.get('entries') if 'ValueError' not in x else [None] * (len(offs_L) * len(offs_R))
            moving = offs_L if left else offs_R
            if len(entries) != len(moving):
                ctx.fail('correspondence', 'tcf_words: %d entries for %d offsets' % (len(entries), len(moving)), info)
                continue
            for off, e in zip(moving, entries):
                if e is None:
                    obs, lo = None, min(offs_L[0] + min(k for _, k in q['term_L']), offs_R[0] + min(k for _, k in q['term_R'])) - 2
                else:
                    lo = e['lo']
                    obs = Some([[(0, True) if n == 'JW' else (oid(n), bool(docs[(lo + t) % L].needs_JW(n))) for n in w]
                                for t, w in enumerate(e['words'])])
                pqr = (offs_L[0], off, q['j_R']) if left else (q['i_L'], offs_R[0], off)
                ctx.count('tcf_words', [case['sites'][:3], case['bc'], q['variant'], q['term_L'], q['term_R'], pqr],
                          nontrivial=e is not None and sum(q['parity']) > 0,
                          sample={'query': q, 'offsets': pqr, 'impl': e if e is not None else x})
                if corrupt == len(lits) and obs is not None:
                    obs.v[1] = obs.v[1] + [(0, True)]
                lits.append(coq_lit((left, itL, itR, pqr[0], pqr[1], pqr[2], lo, obs)))
                src.append((info, pqr, e))
    if lits:
        bad, err = common.coq_failing_indices('cases_c08_tcf', ['Base.Prelude', 'Model.JW', 'Model.Corr', 'Model.CorrTerm', 'Model.CorrTermCheck'],
                                              'check_tcf_case', lits)
        if err:
            ctx.fail('correspondence', 'model evaluation failed (tcf_words): ' + err[-600:], None)
        for b in bad[:5]:
            info, pqr, e = src[b]
            ctx.fail('correspondence', 'Model/CorrTerm.v tcf_%s_words and term_correlation_function_%s disagree for the offsets %s of %s / %s: '
                     'impl %s' % (info['query']['variant'], info['query']['variant'], pqr, info['query']['term_L'], info['query']['term_R'],
                                  e if e is not None else info['impl']), info)
        ctx.cov['tcf_words_cases_validated_against_impl'] = len(lits)
        return bad
    return []


def main(ctx):
    rng = ctx.rng
    ctx.proof = common.check_proofs('C08', extra_targets=['Model/SampleCheck.vo', 'Model/CorrTermCheck.vo'])
    boost = 1 if ctx.proof.ok else 3
    hist = {}
    CYC.clear()
    table = {}       # measurement function -> {'MPS' | 'MPSEnvironment': {charge type: number of calls compared with the dense value}}
    options = {}     # 'Class.method' -> {parameter: {class of the value passed ('default': not passed): number of compared calls}}

    def tally(calls, ctype, bc=None):
        """calls: the calls of measurement methods the runner logged for one compared record [class, method, {parameter: value class}]"""
        for cls_, fn, opts in calls:
            d = table.setdefault(fn, {}).setdefault(cls_, {})
            d[ctype] = d.get(ctype, 0) + 1
            o = options.setdefault('%s.%s' % (cls_, fn), {})
            for pn, v in list(opts.items()) + ([('<boundary conditions>', bc)] if bc else []):
                o.setdefault(pn, {})
                o[pn][v] = o[pn].get(v, 0) + 1

    # ------------------------------------------------------------------ states x measurements
    cases = []
    for rep in range(boost):
        for st, tag in state_specs(rng, ctx):
            cases.append({'state': st, 'seed': rng.randrange(10 ** 8), 'measure': gen_measurements(rng, st, tag), 'tag': tag})
        # MPSEnvironment with bra != ket (finite)
        for st, tag in state_specs(rng, ctx):
            if st['kind'] == 'finite' and rng.random() < 0.6:
                cases.append({'state': st, 'seed': rng.randrange(10 ** 8), 'measure': gen_measurements(rng, st, tag, env=True),
                              'bra': {'chi_max': rng.choice([None, 2]), 'norms': cyc('env_norms', ENV_NORMS)}, 'tag': 'env'})
    res = run_chunks(ctx, 'state', cases)
    for case, r in zip(cases, res):
        if r is None:
            continue
        if 'runner_error' in r:
            ctx.fail('correspondence', 'state runner failed: ' + r['runner_error'][-500:], {'stream': case['tag'], 'state': case['state'], 'seed': case['seed']})
            continue
        tol = TOL if case['state']['kind'] != 'infinite' else 1e-8
        for m, rec in zip(case['measure'], r['records']):
            ok = judge(ctx, case, case['tag'], m, rec, tol)
            key = case['tag'] + ':' + m['f']
            hist[key] = hist.get(key, 0) + 1
            nontriv = 'error' not in rec and max(r['chi'] + [1]) > 1
            if m['f'] == 'tlcf_right' and nontriv:
                nontriv = max(rec.get('max_part', [0.0]) + [0.0]) > 1e-6      # some product of terms has a non-zero value
            if 'error' not in rec and ok:
                tally(rec.get('calls', []), charge_type(case['state']['sites']), case['state']['kind'])
            ctx.count(case['tag'], [case['state'], case['seed'], m], nontrivial=nontriv,
                      sample={'state': case['state'], 'chi': r['chi'], 'measure': m})

    # ------------------------------------------------------------------ overlaps
    ocases = []
    for i in range(ctx.pick(24, 200) * boost):
        cons = rng.choice(['Sz', 'parity', 'None', 'Z3'])
        L = rng.randint(2, 6 if cons != 'Z3' else 5)
        osite = spec('SpinHalfSite', conserve=cons) if cons != 'Z3' else rng.choice([spec('ClockSite', q=3, conserve='Z'),
                                                                                    spec('SpinSite', S=1.0, conserve='Sz', _mod=3)])
        ocases.append({'kind': 'finite', 'sites': [osite] * L, 'seed': rng.randrange(10 ** 8),
                       'chi_a': rng.choice([None, 2]), 'chi_b': rng.choice([None, 3]), 'norm_a': rng.choice([1.0, 0.5, 2.0]),
                       'norm_b': rng.choice([1.0, 1.5])})
    for i in range(ctx.pick(10, 60) * boost):
        cell = rng.choice([[spec('SpinHalfSite', conserve='None')], [spec('SpinHalfSite', conserve='None')] * 2,
                           [spec('FermionSite', conserve='None'), spec('SpinHalfSite', conserve='None')], [spec('SpinSite', S=1.0, conserve='None')]])
        ocases.append({'kind': 'infinite', 'sites': cell, 'seed': rng.randrange(10 ** 8), 'chi_a': rng.choice([2, 3]), 'chi_b': rng.choice([2, 3]),
                       'same': rng.random() < 0.2, 'charge_sector': rng.choice([None, 0])})
    ores = run_chunks(ctx, 'overlap', ocases)
    for case, r in zip(ocases, ores):
        if r is None:
            continue
        if 'runner_error' in r:
            ctx.fail('oracle', 'overlap raised: ' + r['runner_error'][-400:], {'stream': 'overlap', 'case': case}, match_key='C08:overlap:raises')
            continue
        got, want = cplx(r['got']), cplx(r['want'])
        tol = TOL if case['kind'] == 'finite' else 1e-7
        nontriv = True
        if case['kind'] == 'infinite' and r.get('gap', 1) < 1e-3:
            nontriv = False          # (nearly) degenerate dominant eigenvalue: not decidable
        ctx.count('overlap', case, nontrivial=nontriv)
        tally(r.get('calls', []), charge_type(case['sites']), case['kind'])
        if nontriv and np.max(np.abs(got - want)) > tol:
            ctx.fail('oracle', 'overlap (%s): %s, dense value %s' % (case['kind'], list(got), list(want)), {'stream': 'overlap', 'case': case},
                     match_key='C08:overlap:' + case['kind'])

    # ------------------------------------------------------------------ _term_to_ops_list vs Model/JW.v
    lcases = []
    for _ in range(ctx.pick(40, 300) * boost):
        L = rng.randint(2, 5)
        classes = [rng.choice(['FermionSite', 'FermionSite', 'SpinHalfFermionSite', 'SpinHalfSite']) for _ in range(L)]
        inf = rng.random() < 0.3
        sites = [spec(c, **({'conserve': 'None'} if c != 'SpinHalfFermionSite' else {'cons_N': 'None', 'cons_Sz': 'None'})) for c in classes]
        terms = []
        for _ in range(20):
            n = rng.randint(1, 6)
            term = []
            for _ in range(n):
                k = rng.randrange(L) if not inf else rng.randint(-L, 2 * L)
                c = classes[k % L]
                op = rng.choice(FERM[c]) if c in FERM and rng.random() < 0.65 else rng.choice(EVEN[c])
                term.append([op, k])
            auto = rng.random() < 0.85
            off = 0 if not inf else rng.choice([0, L, -L])
            terms.append({'term': term, 'autoJW': auto, 'i_offset': off, 'jfr': rng.choice([False, False, True, None]) if auto else False})
        lcases.append({'sites': sites, 'terms': terms, 'bc': 'infinite' if inf else 'finite'})
    lres = run_chunks(ctx, 'ops_list', lcases)
    coq_cases, coq_src = [], []
    for case, rr in zip(lcases, lres):
        if rr is None:
            continue
        if isinstance(rr, dict):
            ctx.fail('correspondence', 'ops_list runner failed: ' + rr.get('runner_error', '')[-400:], {'stream': 'ops_list'})
            continue
        docs = [orc.doc_site(*s) for s in case['sites']]
        L = len(docs)
        for t, x in zip(case['terms'], rr):
            ctx.count('ops_list', [case['sites'], t], nontrivial=len(t['term']) > 1)
            if 'error' in x:
                ctx.fail('oracle', '_term_to_ops_list raised %s on %s' % (x['error'], t), {'stream': 'ops_list', 'case': t}, match_key='C08:_term_to_ops_list:raises')
                continue
            ids = {'JW': 0}

            def oid(n):
                return ids.setdefault(n, len(ids))
            # flags as the documentation says (site i + i_offset)
            its = [(oid(op), i, bool(docs[(i + t['i_offset']) % L].needs_JW(op))) for op, i in t['term']]
            flag = {oid(op): f for (op, i), (_, _, f) in zip(t['term'], its)}
            ops = [[(oid(n), True if n == 'JW' else flag.get(oid(n), False)) for n in w] for w in x['ops']]
            coq_cases.append(coq_lit((its, t['autoJW'], opt(t['jfr']), (ops, x['imin'] - t['i_offset'], x['extra']))))
            coq_src.append((case, t, x))
    bad, err = common.coq_failing_indices('cases_c08', ['Base.Prelude', 'Model.JW', 'Model.Corr'], 'check_ops_list_case', coq_cases)
    if err:
        ctx.fail('correspondence', 'model evaluation failed: ' + err[-600:], None)
    for b in bad[:5]:
        case, t, x = coq_src[b]
        ctx.fail('correspondence', 'Model/JW.v term_to_ops_list and MPS._term_to_ops_list disagree on %s: impl %s' % (t, x),
                 {'stream': 'ops_list', 'sites': case['sites'], 'case': t, 'impl': x})
    ctx.cov['traces_validated_against_impl'] = len(coq_cases)

    # ------------------------------------------------------------------ expectation_value windows vs Model/Window.v (T08_window)
    wincases = []
    for _ in range(ctx.pick(12, 60) * boost):
        L = rng.randint(1, 5)
        inf = rng.random() < 0.7
        qs = []
        for _ in range(12):
            n = rng.randint(1, 3)
            qs.append([rng.randint(-3 * L, 4 * L) if inf else rng.randint(0, L + 1), n])
        wincases.append({'L': L, 'bc': 'infinite' if inf else 'finite', 'nops': rng.randint(1, 4), 'queries': qs})
    winres = run_chunks(ctx, 'window', wincases)
    win_coq, win_src = [], []
    for case, rr in zip(wincases, winres):
        if rr is None:
            continue
        if isinstance(rr, dict):
            ctx.fail('correspondence', 'window runner failed: ' + rr.get('runner_error', '')[-400:], {'stream': 'window', 'case': case})
            continue
        for (s0, n), x in zip(case['queries'], rr):
            if 'error' in x:
                ctx.fail('correspondence', 'window runner: ' + x['error'], {'stream': 'window', 'case': case, 'query': [s0, n]})
                continue
            obs = None if 'ValueError' in x else Some((x['idx'], x['cell'], [tuple(p) for p in x['reads']]))
            if obs is not None:
                # product state up/down/up/.. in every unit cell, operator Sz x .. x Sz: documented value prod_k <Sz>_{(s+k) mod L}
                want = 1.0
                for k_ in range(n):
                    want *= 0.5 if ((s0 + k_) % case['L']) % 2 == 0 else -0.5
                got = complex(x['val'][0][0], x['val'][0][1])
                if abs(got - want) > 1e-12:
                    ctx.fail('oracle', 'expectation_value(sites=[%d]) of a %d-site Sz product on the up/down product state (L=%d, %s): %s, expected %s'
                             % (s0, n, case['L'], case['bc'], got, want), {'stream': 'window', 'case': case, 'query': [s0, n]},
                             match_key='C08:expectation_value:window')
            ctx.count('window', [case['L'], case['bc'], case['nops'], s0, n], nontrivial=obs is not None and (s0 < 0 or s0 + n > case['L']))
            win_coq.append(coq_lit((case['bc'] != 'infinite', case['L'], case['nops'], s0, common.Nat(n), obs)))
            win_src.append((case, [s0, n], x))
    if win_coq:
        bad, err = common.coq_failing_indices('cases_c08_win', ['Base.Prelude', 'Model.MpsIndex', 'Model.Window'], 'check_window_case', win_coq)
        if err:
            ctx.fail('correspondence', 'model evaluation failed (window): ' + err[-600:], None)
        for b in bad[:5]:
            case, q, x = win_src[b]
            ctx.fail('correspondence', 'Model/Window.v ev_site and expectation_value(sites=[%d]) with a %d-site operator disagree: impl %s'
                     % (q[0], q[1], x), {'stream': 'window', 'case': case, 'query': q, 'impl': x})
    ctx.cov['window_cases_validated_against_impl'] = len(win_coq)

    # ------------------------------------------------------------------ sample_measurements operator selection vs Model/Sample.v (T08_sample_ops)
    socases = []
    for _ in range(ctx.pick(10, 50) * boost):
        L = rng.randint(1, 5)
        inf = rng.random() < 0.4
        qs = []
        for _ in range(10):
            first = rng.randint(-2 * L, 2 * L) if inf else rng.randint(0, L - 1)
            last = first + rng.randint(0, 2 * L) if inf else rng.randint(first, L - 1)
            names = rng.sample(['Sz', 'Sx', 'Sy', 'Sigmaz', 'Sigmax', 'Sigmay', 'Id'], rng.randint(1, 5))
            qs.append({'first': first, 'last': last, 'ops': names, 'seed': rng.randrange(10 ** 6), 'complex_amplitude': rng.random() < 0.5})
        socases.append({'L': L, 'bc': 'infinite' if inf else 'finite', 'queries': qs})
    sores = run_chunks(ctx, 'sample_ops', socases)
    so_coq, so_src = [], []
    for case, rr in zip(socases, sores):
        if rr is None:
            continue
        if isinstance(rr, dict):
            ctx.fail('correspondence', 'sample_ops runner failed: ' + rr.get('runner_error', '')[-400:], {'stream': 'sample_ops', 'case': case})
            continue
        for q, x in zip(case['queries'], rr):
            if 'ValueError' in x:
                ctx.fail('oracle', 'sample_measurements(%d, %d, ops=%s) raised %s' % (q['first'], q['last'], q['ops'], x['ValueError']),
                         {'stream': 'sample_ops', 'case': case, 'query': q}, match_key='C08:sample_measurements:raises')
                continue
            ctx.count('sample_ops', [case['L'], case['bc'], q['first'], q['last'], len(q['ops'])],
                      nontrivial=len(q['ops']) > 1 and q['last'] > q['first'])
            so_coq.append(coq_lit((q['first'], q['last'], len(q['ops']), case['L'], [tuple(p) for p in x['rec']])))
            so_src.append((case, q, x))
    if so_coq:
        bad, err = common.coq_failing_indices('cases_c08_sops', ['Base.Prelude', 'Model.Sample'], 'check_sample_ops_case', so_coq)
        if err:
            ctx.fail('correspondence', 'model evaluation failed (sample_ops): ' + err[-600:], None)
        for b in bad[:5]:
            case, q, x = so_src[b]
            ctx.fail('correspondence', 'Model/Sample.v sample_op_indices and sample_measurements(%d, %d, ops of length %d) disagree: impl (site, index) %s'
                     % (q['first'], q['last'], len(q['ops']), x['rec']), {'stream': 'sample_ops', 'case': case, 'query': q, 'impl': x})
    ctx.cov['sample_ops_cases_validated_against_impl'] = len(so_coq)

    # ------------------------------------------------------------------ weight loop of sample_measurements vs Model/Sample.v (T08_sample_weights)
    stream_sample_loop(ctx, rng, boost)

    # ------------------------------------------------------------------ term_correlation_function_right/_left words vs Model/CorrTerm.v (T08_tcf_*)
    stream_tcf_words(ctx, rng, boost)

    # ------------------------------------------------------------------ correlation_function words of Model/Corr.v -> dense
    wcases = []
    for _ in range(ctx.pick(120, 1200) * boost):
        L = rng.randint(2, 6)
        i, j = rng.randrange(L), rng.randrange(L)
        mode = rng.choice(['auto', 'auto', 'str', 'str', 'none'])
        sof = True if mode == 'auto' else rng.random() < 0.5
        wcases.append({'L': L, 'i': i, 'j': j, 'mode': mode, 'sof': sof})
    body = 'From TenpyV Require Import Model.JW Model.Corr.\nDefinition enc (l : letter) : Z := match l with Op a _ => a | JWl => 0 end.\n'
    body += 'Definition cs : list (Z * bool * Z * Z * Z) := [\n' + ';\n'.join(
        coq_lit(({'auto': 0, 'str': 1, 'none': 2}[c['mode']], c['sof'], c['i'], c['j'], c['L'])) for c in wcases) + '].\n'
    body += ('Definition words (c : Z * bool * Z * Z * Z) := let \'(m, sof, i, j, L) := c in\n'
             '  let opstr := if m =? 0 then Some (fun _ : Z => JWl) else if m =? 1 then Some (fun _ : Z => Op 3 false) else None in\n'
             '  map (fun k => map enc (corr_words (fun _ => Op 1 (m =? 0)) (fun _ => Op 2 (m =? 0)) opstr sof i j k)) (zrange 0 (Z.to_nat L)).\n'
             'Eval vm_compute in map words cs.\n')
    rc, out = common.coq_eval('words_c08', body, ['Base.Prelude'])
    words = parse_coq_nested(out) if rc == 0 else None
    if words is None or len(words) != len(wcases):
        ctx.fail('correspondence', 'evaluation of Model/Corr.v corr_words failed: ' + (out or '')[-400:], None)
    else:
        scases = []
        for c, w in zip(wcases, words):
            L = c['L']
            fer = c['mode'] == 'auto'
            cons = rng.choice(['N', 'parity', 'None']) if fer else rng.choice(['Sz', 'parity', 'None'])
            sites = [spec('FermionSite', conserve=cons)] * L if fer else [spec('SpinHalfSite', conserve=cons)] * L
            if fer:
                n1, n2 = rng.choice(['C', 'Cd']), rng.choice(['C', 'Cd'])
                names = {1: n1, 2: n2, 0: 'JW'}
                kw = {}
            else:
                n1, n2, n3 = rng.choice(SPIN_OPS), rng.choice(SPIN_OPS), rng.choice(SPIN_OPS)
                names = {1: n1, 2: n2, 3: n3}
                kw = {'str_on_first': c['sof']}
                if c['mode'] == 'str':
                    kw['opstr'] = n3
            ws = [[names[x] for x in site] for site in w]
            scases.append({'state': {'kind': 'finite', 'sites': sites}, 'seed': rng.randrange(10 ** 8), 'tag': 'corr_words',
                           'measure': [{'f': 'corr_words', 'op1': n1, 'op2': n2, 'i': c['i'], 'j': c['j'], 'lo': 0, 'words': ws, 'kwargs': kw}]})
        sres = run_chunks(ctx, 'state', scases)
        for c, case, r in zip(wcases, scases, sres):
            if r is None:
                continue
            if 'runner_error' in r:
                ctx.fail('correspondence', 'corr_words runner failed: ' + r['runner_error'][-400:], {'stream': 'corr_words', 'case': c})
                continue
            rec = r['records'][0]
            ctx.count('corr_words', [c, case['measure'][0]['op1'], case['measure'][0]['op2']], nontrivial=c['i'] != c['j'])
            if 'error' in rec:
                ctx.fail('correspondence', 'correlation_function raised %s %s on %s' % (rec['error'], rec.get('msg'), case['measure'][0]),
                         {'stream': 'corr_words', 'case': case})
            else:
                got, want = cplx(rec['got']), cplx(rec['want'])
                if np.max(np.abs(got - want)) > TOL:
                    ctx.fail('correspondence', 'correlation_function %s = %r but the product operator of Model/Corr.v gives %r'
                             % (case['measure'][0], complex(got[0]), complex(want[0])), {'stream': 'corr_words', 'case': case})
    ctx.cov['input_distribution'] = hist
    # ------------------------------------------------------------------ coverage of the measurement functions (by reflection)
    (refl, err), = common.run_impl_parallel('c08_impl.py', [{'kind': 'reflect', 'cases': [{}]}], timeout=300)
    if err or not isinstance(refl[0], dict) or 'runner_error' in refl[0]:
        ctx.fail('correspondence', 'reflection of the measurement functions failed: %s' % (err or refl)[-400:], None)
    else:
        rows, missing = {}, []
        for cname in ('MPS', 'MPSEnvironment'):
            for fn in refl[0][cname]:
                if fn in NOT_COMPARED:
                    rows['%s.%s' % (cname, fn)] = 'not compared: ' + NOT_COMPARED[fn]
                    continue
                got_ = table.get(fn, {}).get(cname, {})
                rows['%s.%s' % (cname, fn)] = dict(sorted(got_.items()))
                if not got_:
                    missing.append('%s.%s' % (cname, fn))
                elif fn in UNCHARGED_ONLY and 'none' in got_:
                    rows['%s.%s' % (cname, fn)] = dict(rows['%s.%s' % (cname, fn)], note=UNCHARGED_ONLY[fn])
                elif cname == 'MPS' and not (any(k.startswith('Z') for k in got_) and 'U1' in got_ and
                                             ('none' in got_ or fn in CALLS['prob_charge'])):
                    missing.append('%s.%s (charge types %s only)' % (cname, fn, sorted(got_)))
        ctx.cov['measurement_function_coverage (calls compared with the dense value, per charge type of the state)'] = rows
        orows, omissing = option_coverage(refl[0].get('all', {}), options)
        ctx.cov['measurement_option_coverage (public method x parameter -> value classes passed in calls compared with the dense value: count)'] = orows
        for x in omissing:
            ctx.fail('correspondence', 'option space of the measurement methods of tenpy.networks.mps (public methods and their parameters found by '
                     'reflection): ' + x, {'stream': 'coverage', 'what': x})
        for x in missing:
            ctx.fail('correspondence', 'measurement function %s of tenpy.networks.mps (found by reflection) is not exercised by the '
                     'harness on states without charge, with a U(1) and with a Z_N charge' % x, {'stream': 'coverage', 'function': x})
    ctx.assumptions += [
        'C08 dense reference: the state vector is recomputed with numpy from the B tensors and singular values the MPS object holds '
        '(windows S[i0] B[i0]..B[i0+n-1] for segment and infinite MPS); canonical form of the generated states is assumed (C07/C09)',
        'C08 entropies: eigenvalues below 1e-16 of the dense reduced density matrices are dropped; tolerance 1e-8 (1e-6 for Renyi index n < 1, where '
        'rounding-error eigenvalues e contribute e^n); correlation lengths 1e-6',
        'C08 not modelled in Coq: contraction numerics, LP/RP environments, TransferMatrix eigenvectors (oracle only, 1e-10 / 1e-8 infinite)',
        'C08 env: bra.norm and ket.norm are set to non-unit values (%s in turn) and the dense <bra|O|ket> carries bra.norm * ket.norm, as the '
        'docstrings of MPSEnvironment say (full_contraction, expectation_value_multi_sites, _normalize_exp_val); exception '
        'MPSEnvironment.expectation_value_terms_sum: its docstring warns that it "does not include normalization factors", so its value is compared '
        'with the dense sum WITHOUT the two norms (documented behaviour, not counted as a violation; the runner reads the docstring of the tree under '
        'test and compares with the norms as soon as the warning is gone)' % ENV_NORMS,
        'C08 Coq model: operator names are abstract letters with a need_JW flag; local relations JW^2=1, JW f = -f JW are those proved per site table in C12',
    ]
    return ctx.finish(RULE, 'theorems of coq/Props/C08.v (all i, j, all terms); _term_to_ops_list, the correlation_function words, the '
                      'term_correlation_function_right/_left words and the weight loop of sample_measurements (exact rationals) of the '
                      'models compared with the implementation; every measurement function compared with dense <bra|O|ket>')


RULE = ('state: one case per (state, measurement call); states: finite L=2-7 (SpinHalf/Spin-1/Fermion/SpinHalfFermion/Boson/Clock/mixed, '
        'no / U(1) / Z_2 / Z_3 charges (clock sites, Sz or N modulo 3), random entangled, optionally compressed to chi 2-3), segments cut '
        'out of finite states, infinite unit cells 1-3 (without charges: random tensors; with charges: random charge-conserving circuits); '
        'every state additionally with the entropy / spectrum / mutual information / correlation length / translation calls of '
        'gen_option_measurements (option values in turn, so that every run reaches all of them); '
        'term_list_correlation_function_right: non-trivial when additionally some product of a left and a right term is non-zero; '
        'non-trivial when the state has a bond dimension > 1 and the call did not raise; env: same with a different random bra and non-unit bra.norm / ket.norm; '
        'ops_list/corr_words: random terms / (i, j, opstr, str_on_first) tuples; sample_loop: one case per sample_measurements call on an '
        'exactly representable MPS (non-trivial: >= 2 sites and a weight != 1); tcf_words: one case per result entry (non-trivial: '
        'defined and fermionic operators present); distinct = distinct canonical inputs.')
