"""C20 - caches and event dispatch obey their sequential spec under any schedule.

proof gate (coq/Props/C20.v)
+ correspondence (vm_compute): EventHandler <-> Model/Events.v, DictCache (+sub-caches) over Storage /
  PickleStorage / Hdf5Storage, without and with the worker thread <-> Model/Cache.v,
  ThreadedStorage + Worker under harness-enforced worker schedules <-> Model/CacheThread.v,
  the same with close() / __exit__ calls in the program <-> Model/CacheClose.v (cl_run, via Model/CacheCloseCheck.v),
  PickleStorage trees with sub-containers and close() <-> Model/CacheFile.v (fs_run, via Model/CacheFileCheck.v)
+ oracle: a plain dict per cache / a plain list of listeners, a 5 s deadline as deadlock detector,
  injected disk failures that must surface as WorkerDied.
"""
import itertools

import common
from common import coq_lit, CoqRaw, opt
import c20_cover

K_F8 = 'C20:EventHandler.disconnect:acts-on-id-0'
K_F9 = 'C20:DictCache.__delitem__:short-term-stale'
K_H5W = 'C20:Hdf5Storage.save:overwrite-raises'
K_H5C = 'C20:Hdf5Storage.subcontainer:not-closed-with-parent'

DEATH = ('WorkerDied', 'AssertionError')


# ==========================================================================================
# events
# ==========================================================================================

def ev_alphabet():
    return ([['connect', p, r, 'direct'] for p in (0, 1) for r in (None, 0)] +
            [['disconnect', i] for i in (0, 1, 2)] + [['emit', 1], ['emit_until', 2]])


def gen_events_random(rng, n):
    ops = []
    nconn = 0
    for _ in range(n):
        r = rng.random()
        if r < 0.4 or nconn == 0:
            ops.append(['connect', rng.choice([0, 0, 1, 2, -1, 5]), rng.choice([None, None, None, 0, 3, 4]),
                        rng.choice(['direct', 'direct', 'kwargs', 'decorator'])])
            nconn += 1
        elif r < 0.6:
            ops.append(['disconnect', rng.randint(0, nconn)])     # nconn itself: never handed out
        elif r < 0.8:
            ops.append(['emit', rng.randint(0, 9)])
        elif r < 0.93:
            ops.append(['emit_until', rng.randint(0, 9)])
        else:
            ops.append(['copy'])
    return ops


def events_oracle(ops, res):
    """Plain list of listeners, written from the docstrings.  Returns (problem text, match key) of the
    first step where the implementation deviates, or None."""
    conn = []       # [id, prio, ret, extra]
    n = 0
    out = res['out']
    if len(out) != len(ops):
        return 'runner returned %d outputs for %d operations' % (len(out), len(ops)), None
    for t, (op, o) in enumerate(zip(ops, out)):
        st = o[-1]
        key = None
        want_ids = None
        if o[0] == 'exc':
            return 'step %d %r raised %s' % (t, op, o[1:3]), None
        if op[0] == 'connect':
            if o[1] != n:
                return 'step %d: connect handed out id %r, expected the fresh id %d' % (t, o[1], n), None
            conn.append([n, op[1], op[2], 7 if op[3] == 'kwargs' else 0])
            n += 1
        elif op[0] == 'disconnect':
            i = op[1]
            present = any(c[0] == i for c in conn)
            after0 = [c for c in conn if c[0] != 0]
            conn = [c for c in conn if c[0] != i]
            if sorted(st['ids']) != sorted(c[0] for c in conn) or st['warned'] != (not present):
                if i != 0 and sorted(st['ids']) == sorted(c[0] for c in after0):
                    key = K_F8
                return ('step %d: disconnect(%d) left the listeners %s (warning: %s); expected %s (warning: %s)' % (
                    t, i, sorted(st['ids']), st['warned'], sorted(c[0] for c in conn), not present)), key
        elif op[0] in ('emit', 'emit_until'):
            order = sorted(conn, key=lambda c: (-c[1], c[0]))
            if op[0] == 'emit':
                want = ['emit', [c[0] for c in order], [c[2] for c in order], [op[1]] * len(order), [c[3] for c in order]]
            else:
                called = []
                result = None
                for c in order:
                    called.append(c[0])
                    if c[2] is not None:
                        result = c[2]
                        break
                want = ['emit_until', called, result]
            if o[:-1] != want:
                return 'step %d: %s gave %s, expected %s (connected: %s)' % (t, op[0], o[:-1], want, conn), None
        if sorted(st['ids']) != sorted(c[0] for c in conn):
            return 'step %d %r: listeners %s, expected %s' % (t, op, sorted(st['ids']), sorted(c[0] for c in conn)), None
    if not res.get('originals_untouched', True):
        return 'operations on a copy() changed the original handler', None
    return None


def zlist(l):
    """list of integers as a Coq term whose type does not depend on the context"""
    return CoqRaw('(@nil Z)') if not l else CoqRaw(coq_lit(list(l)))


def ev_coq_case(ops, res):
    cops, obs = [], []
    for op, o in zip(ops, res['out']):
        if op[0] == 'connect':
            cops.append(CoqRaw('(EConnect %s %s)' % (coq_lit(op[1]), coq_lit(opt(op[2])))))
        elif op[0] == 'disconnect':
            cops.append(CoqRaw('(EDisconnect %s)' % coq_lit(op[1])))
        else:
            cops.append(CoqRaw({'emit': 'EEmit', 'emit_until': 'EEmitUntil', 'copy': 'ECopy'}[op[0]]))
        st = o[-1]
        if o[0] == 'connected':
            x = '(OConnected %s)' % coq_lit(o[1])
        elif o[0] == 'disconnected':
            x = '(ODisconnected %s)' % coq_lit(not st['warned'])
        elif o[0] == 'emit':
            x = '(OEmit %s %s)' % (coq_lit(o[1]), coq_lit([opt(v) for v in o[2]]))
        elif o[0] == 'emit_until':
            x = '(OEmitUntil %s %s)' % (coq_lit(o[1]), coq_lit(opt(o[2])))
        elif o[0] == 'copied':
            x = 'OCopied'
        else:
            x = '(OConnected (-1))'     # an exception: can never match the model
        obs.append((CoqRaw(x), zlist(st['ids']), zlist(st['prios'])))
    return coq_lit((cops, obs))


def stream_events(ctx, boost, only=None):
    rng = ctx.rng
    cases = []
    alpha = ev_alphabet() if only is None else []
    for n in range(1, ctx.pick(4, 5) + 1):          # exhaustive up to length 4 (5) over 9 letters
        for seq in itertools.product(alpha, repeat=n):
            cases.append(list(seq))
    small = [['connect', 0, None, 'direct'], ['connect', 1, None, 'direct'], ['disconnect', 1], ['emit', 0]]
    for n in range(5, ctx.pick(7, 8) if only is None else 0):               # all sequences of length 5..6 (7) over 4 letters
        for seq in itertools.product(small, repeat=n):
            cases.append(list(seq))
    for _ in range(ctx.pick(1000, 15000) * boost if only is None else 0):
        cases.append(gen_events_random(rng, rng.randint(5, ctx.pick(14, 40))))
    if only is not None:
        cases = list(only)
    nproc = 4      # the work per case is tiny; importing tenpy dominates
    chunks = [cases[i::nproc] for i in range(nproc)]
    res = common.run_impl_parallel('c20_impl.py', [{'kind': 'events', 'cases': [{'ops': c} for c in ch]} for ch in chunks])
    results = [None] * len(cases)
    for i, (r, err) in enumerate(res):
        if err:
            ctx.fail('correspondence', 'events runner failed: ' + err[-500:], None)
            return
        c20_cover.absorb('events', r)
        for j, x in enumerate(r):
            results[i + j * nproc] = x
    coq_cases, idx, keys = [], [], {}
    for i, (ops, r) in enumerate(zip(cases, results)):
        if 'runner_error' in r:
            ctx.fail('correspondence', 'events runner: ' + r['runner_error'][-400:], {'stream': 'events', 'ops': ops})
            continue
        nontrivial = any(o[0] in ('emit', 'emit_until') for o in ops) and sum(o[0] == 'connect' for o in ops) >= 2
        ctx.count('events', ops, nontrivial=nontrivial, sample={'ops': ops, 'out': [o[:-1] for o in r['out']]})
        bad = events_oracle(ops, r)
        if bad:
            keys[i] = bad[1]
            ctx.fail('oracle', 'EventHandler: ' + bad[0], {'stream': 'events', 'ops': ops, 'impl': r['out']}, match_key=bad[1])
        coq_cases.append(ev_coq_case(ops, r))
        idx.append(i)
    bad, err = common.coq_failing_indices('cases_c20_ev', ['Base.Prelude', 'Model.Events'], 'check_events', coq_cases, shard=3000)
    if err:
        ctx.fail('correspondence', 'Model/Events.v evaluation failed: ' + err[-600:], None)
    shown = 0
    for b in bad:
        i = idx[b]
        k = keys.get(i)
        if k is None:
            shown += 1
            if shown > 5:
                continue
        ctx.fail('correspondence', 'Model/Events.v and tenpy.tools.events.EventHandler disagree',
                 {'stream': 'events', 'ops': cases[i], 'impl': results[i]['out']}, match_key=k)
    ctx.cov['events_traces_validated_against_model'] = len(coq_cases)


# ==========================================================================================
# DictCache: generator, dict oracle, translation to the Coq model
# ==========================================================================================

NKEYS = 4


def gen_cache_ops(rng, n, threaded=False, subs=True, no_overwrite=False, close=True):
    ops = []
    ncaches = 1
    present = [set()]
    names = iter(['a', 'b', 'c', 'd'])
    val = [10]
    NKEYS = rng.choice([1, 2, 2, 4])          # few keys: collisions between caches and with the short-term copy
    if subs and rng.random() < 0.5:           # sub-caches (also nested) right from the start
        for _ in range(rng.randint(1, 3)):
            ops.append(['sub', rng.randrange(ncaches), next(names)])
            ncaches += 1
            present.append(set())

    def newval():
        # codes >= 1000 are stored as a list / dict / numpy array / str / tuple / a falsy value (harness/impl/c20_impl.py: enc), so
        # that an overwrite (or delete + set again) also changes the type of the stored object
        val[0] += 1
        if rng.random() < 0.10:
            return rng.choice([6000, 7000, 8000, 9000])       # 0, [], '', {}: false in a boolean context
        return val[0] + (1000 * rng.randint(1, 5) if rng.random() < 0.3 else 0)
    for _ in range(n):
        ci = rng.randrange(ncaches)
        k = rng.randrange(NKEYS)
        r = rng.random()
        if r < 0.22:
            if no_overwrite and k in present[ci]:
                ops.append(['del', ci, k])
            ops.append(['set', ci, k, newval()])
            present[ci].add(k)
        elif r < 0.37:
            ops.append(['getitem', ci, k])
        elif r < 0.40:
            ops.append(['items', ci])           # every key through items() and values()
        elif r < 0.46:
            ops.append(['get', ci, k] + rng.choice([[], [], ['nodefault'], ['kw']]))
        elif r < 0.58:
            ops.append(['del', ci, k])
            present[ci].discard(k)
        elif r < 0.62:
            ops.append(['contains', ci, k])
        elif r < 0.72:
            ks = [rng.randrange(NKEYS) for _ in range(rng.randint(0, 3))]
            ops.append(['preload', ci, ks, rng.random() < 0.25])
        elif r < 0.84:
            ops.append(['short', ci, sorted(set(rng.randrange(NKEYS) for _ in range(rng.randint(0, 3))))])
        elif r < 0.87:
            ops.append([rng.choice(['keys', 'keys', 'len']), ci])
        elif r < 0.89:
            ops.append(['pop', ci, k] + rng.choice([[], ['nodefault']]))
            present[ci].discard(k)
        elif r < 0.90:
            ops.append(['popitem', ci])
            present[ci] = set(range(NKEYS))     # (which key went is the implementation's choice)
        elif r < 0.92 and not no_overwrite:
            ops.append(['setdefault', ci, k, newval()])
            present[ci].add(k)
        elif r < 0.94 and not no_overwrite:
            kv = [[rng.randrange(NKEYS), newval()] for _ in range(rng.randint(1, 2))]
            kv = [list(x) for x in dict((a, b) for a, b in kv).items()]
            ops.append(['update', ci, kv] + rng.choice([[], ['pairs'], ['kw'], ['both']]))
            present[ci].update(a for a, _ in kv)
        elif r < 0.95:
            ops.append(['clear', ci])
            present[ci] = set()
        elif subs and ncaches < 4:
            ops.append(['sub', rng.randrange(ncaches), next(names)])
            ncaches += 1
            present.append(set())
        else:
            ops.append(['bool', ci])
    if close and rng.random() < 0.5:
        ops.append(['close', 0])
        for ci in range(ncaches):
            ops.append(['bool', ci])
        for ci in range(ncaches):             # reads after close(): no data may come back from the closed cache
            for _ in range(rng.randint(0, 2)):
                ops.append([rng.choice(['getitem', 'getitem', 'get', 'items', 'pop']), ci] + [rng.randrange(NKEYS)])
                if ops[-1][0] == 'items':
                    ops[-1] = ops[-1][:2]
        for ci in range(ncaches):
            ops.append(['set', ci, rng.randrange(NKEYS), newval()])
        ops.append(['close', 0])
    return ops


def small_cache_alphabet(typed=False):
    if typed:       # the second value of key 0 is a list (an HDF5 group instead of a dataset); typed=7000: an empty list
        return [([o[0], o[1], o[2], 1002 if typed is True else typed] if o[0] == 'set' and o[3] == 6000 else o) for o in small_cache_alphabet()]
    # (the second value of key 0 is the integer 0 - code 6000 -: false in a boolean context)
    return [['short', 0, [0]], ['short', 0, []], ['set', 0, 0, 1], ['set', 0, 0, 6000], ['getitem', 0, 0], ['del', 0, 0],
            ['preload', 0, [0], False], ['get', 0, 0], ['set', 0, 1, 3], ['getitem', 0, 1]]


class CacheOracle:
    """A plain dict per cache.  step() returns the expected output of one operation
    (None = nothing to compare) and the operations/outputs to hand to the Coq model."""

    def __init__(self, case):
        self.case = case
        self.d = [{}]
        self.deleted = [{}]     # key -> value it had when it was last deleted (until set again)
        self.closed = False
        self.overwrites = 0     # sets on existing keys so far
        self.coq = []           # (m_op text, expected output text or None)

    def m(self, ci, txt, out):
        self.coq.append(('(MOp %d%%nat %s)' % (ci, txt), out))

    def _set(self, ci, k, v):
        if k in self.d[ci]:
            self.overwrites += 1
        self.d[ci][k] = v
        self.deleted[ci].pop(k, None)

    def _del(self, ci, k):
        if k in self.d[ci]:
            self.deleted[ci][k] = self.d[ci].pop(k)

    def step(self, op, impl):
        """returns the expected output (a list) or None when the operation has no fixed output"""
        kind, ci = op[0], op[1]
        d = self.d[ci]
        Z = coq_lit

        def coq_out(o):
            if o[0] == 'val':
                return '(OVal %s)' % Z(o[1]) if isinstance(o[1], int) else None
            return {'none': 'ONone', 'absent': 'OAbsent'}.get(o[0], 'OStorageError') if o[0] != 'exc' else (
                'OKeyError' if o[1] == 'KeyError' else 'OStorageError')
        if self.closed:
            if kind == 'bool':
                return ['bool', False]
            if kind == 'set':
                return ['exc-closed']
            if kind == 'close':
                return ['exc', 'ValueError']
            if kind in ('getitem', 'get', 'pop', 'setdefault', 'items', 'popitem') and ci == 0:
                return ['no-value']     # CacheFile.close() clears its short-term copies; the storage refuses to load
            return None
        if kind == 'set':
            self._set(ci, op[2], op[3])
            self.m(ci, '(CSet %s %s)' % (Z(op[2]), Z(op[3])), coq_out(impl))
            return ['none']
        if kind == 'getitem':
            self.m(ci, '(CGetItem %s)' % Z(op[2]), coq_out(impl))
            return ['val', d[op[2]]] if op[2] in d else ['exc', 'KeyError']
        if kind == 'get':
            self.m(ci, '(CGet %s)' % Z(op[2]), coq_out(impl))
            return ['val', d[op[2]]] if op[2] in d else ['absent']
        if kind == 'del':
            self._del(ci, op[2])
            self.m(ci, '(CDel %s)' % Z(op[2]), coq_out(impl))
            return ['none']
        if kind == 'pop':
            k = op[2]
            if impl[0] == 'val':
                self.m(ci, '(CGetItem %s)' % Z(k), coq_out(impl))
                self.m(ci, '(CDel %s)' % Z(k), 'ONone')
            else:
                self.m(ci, '(CGetItem %s)' % Z(k), 'OKeyError' if impl[0] == 'absent' else coq_out(impl[:2]))
            if k in d:
                want = ['val', d[k]]
                self._del(ci, k)
                return want
            return ['exc', 'KeyError'] if len(op) > 3 and op[3] == 'nodefault' else ['absent']
        if kind == 'setdefault':
            k = op[2]
            if k in d:
                self.m(ci, '(CGetItem %s)' % Z(k), coq_out(impl))
                return ['val', d[k]]
            self.m(ci, '(CGetItem %s)' % Z(k), None if impl[0] == 'val' else coq_out(impl))
            self.m(ci, '(CSet %s %s)' % (Z(k), Z(op[3])), None)
            self._set(ci, k, op[3])
            return ['val', op[3]]
        if kind == 'update':
            for k, v in op[2]:
                self._set(ci, k, v)
                self.m(ci, '(CSet %s %s)' % (Z(k), Z(v)), None)
            self.coq[-1] = (self.coq[-1][0], coq_out(impl))
            return ['none']
        if kind == 'clear':
            for k in sorted(d):
                self.m(ci, '(CGetItem %s)' % Z(k), None)
                self.m(ci, '(CDel %s)' % Z(k), None)
                self.deleted[ci][k] = d[k]
            d.clear()
            return ['none']
        if kind == 'contains':
            self.m(ci, '(CContains %s)' % Z(op[2]), '(OBool %s)' % Z(impl[1]) if impl[0] == 'bool' else 'OStorageError')
            return ['bool', op[2] in d]
        if kind == 'preload':
            self.m(ci, '(CPreload %s %s)' % (Z(list(op[2])), Z(bool(op[3]))), coq_out(impl))
            return ['exc', 'KeyError'] if op[3] and any(k not in d for k in op[2]) else ['none']
        if kind == 'short':
            self.m(ci, '(CShort %s)' % Z(list(op[2])), coq_out(impl))
            return ['none']
        if kind == 'items':
            got = dict((a, b) for a, b in impl[1]) if impl[0] == 'items' else {}
            for k in sorted(d):
                self.m(ci, '(CGetItem %s)' % Z(k), '(OVal %s)' % Z(got[k]) if isinstance(got.get(k), int) else None)
            return ['items', [[k, d[k]] for k in sorted(d)]]
        if kind == 'popitem':
            if not d:
                return ['exc', 'KeyError']
            if impl[0] == 'item' and impl[1] in d:
                k = impl[1]
                self.m(ci, '(CGetItem %s)' % Z(k), '(OVal %s)' % Z(impl[2]) if isinstance(impl[2], int) else None)
                self.m(ci, '(CDel %s)' % Z(k), 'ONone')
                want = ['item', k, d[k]]
                self._del(ci, k)
                return want
            return ['item', 'one of', sorted(d.items())]
        if kind == 'len':
            return ['len', len(d), len(d), len(d)]
        if kind == 'keys':
            self.m(ci, 'CKeys', '(OKeys %s)' % Z(impl[1]) if impl[0] == 'keys' else 'OStorageError')
            return ['keys', sorted(d)]
        if kind == 'bool':
            return ['bool', True]
        if kind == 'sub':
            self.d.append({})
            self.deleted.append({})
            self.coq.append(('(MSub %d%%nat)' % ci, 'ONone' if impl == ['none'] else 'OStorageError'))
            return ['none']
        if kind == 'close':
            self.closed = True
            return ['none']
        raise ValueError(kind)


def same(o, want):
    if want == ['no-value']:
        return not (o[0] in ('val', 'item') or (o[0] == 'items' and o[1]))
    if want == ['exc-closed']:
        return o[0] == 'exc' and o[1] in ('ValueError', 'WorkerDied')
    if want[0] == 'exc':
        return o[0] == 'exc' and o[1] == want[1]
    return o == want


def cache_oracle(case, res, death_ok=False):
    """Compare the outputs with a dict.  Returns (problem, match_key, coq ops) -- problem None if fine.
    death_ok: a disk failure was injected; WorkerDied/AssertionError are acceptable outputs."""
    orc = CacheOracle(case)
    ops = case['ops']
    out = res.get('out', [])
    hd5 = case['storage'] == 'Hdf5Storage'
    for t, op in enumerate(ops):
        if t >= len(out):
            break
        o = out[t]
        d_before = dict(orc.d[op[1]])
        deleted = dict(orc.deleted[op[1]])
        was_closed = orc.closed
        n_coq = len(orc.coq)
        want = orc.step(op, o)
        if want is None or same(o, want):
            continue
        if death_ok and ((o[0] == 'exc' and o[1] in DEATH) or (op[0] == 'bool' and o == ['bool', False])):
            del orc.coq[n_coq:]             # (bool(cache) is False as soon as the worker is gone)
            return None, None, orc.coq      # the failure surfaced; what follows is checked by the caller
        key = None
        k = op[2] if len(op) > 2 and isinstance(op[2], int) else None
        if (op[0] in ('getitem', 'pop', 'setdefault') and k not in d_before and o[0] == 'val'
                and k in deleted and o[1] == deleted[k]):
            key = K_F9
        elif hd5 and not was_closed and orc.overwrites > 0 and (
                (o[0] == 'exc' and o[1] in ('OSError', 'ValueError') and 'name already exists' in str(o[2:])
                 and op[0] in ('set', 'setdefault', 'update')) or      # OSError: new dataset, ValueError: new group
                (case.get('threading') and ((o[0] == 'exc' and o[1] in DEATH) or o == ['bool', False]))):
            key = K_H5W     # with the worker thread the OSError kills the worker; it surfaces at a later call
        elif hd5 and was_closed and op[1] > 0 and (op[0] == 'bool' or (op[0] == 'set' and o[0] == 'exc')):
            key = K_H5C
        what = 'step %d: %r returned %s, a dict gives %s (cache %d held %s)' % (t, op, o, want, op[1], d_before)
        return what, key, orc.coq      # the model is asked about the deviating step as well
    return None, None, orc.coq


def cache_coq_case(coq_ops):
    ops = [CoqRaw(a) for a, _ in coq_ops]
    outs = [CoqRaw('None') if b is None else CoqRaw('(Some %s)' % b) for _, b in coq_ops]
    return coq_lit((ops, outs))


def run_cache_cases(ctx, cases, threads, stream, deadline=None):
    """run the cases; returns list of results (None on runner failure)"""
    nproc = min(8, max(1, len(cases) // 8))
    chunks = [cases[i::nproc] for i in range(nproc)]
    payloads = [{'kind': 'sched' if stream.startswith('sched') else 'cache', 'cases': ch, 'threads': threads} for ch in chunks if ch]
    if deadline:
        for p in payloads:
            p['deadline'] = deadline
    res = common.run_impl_parallel('c20_impl.py', payloads, extra_env={'C20_TMP': common.scratch()}, timeout=900)
    results = [None] * len(cases)
    for i, (r, err) in enumerate(res):
        if err:
            ctx.fail('correspondence', '%s runner failed: %s' % (stream, err[-500:]), None)
            continue
        c20_cover.absorb(stream, r)
        for j, x in enumerate(r):
            results[i + j * nproc] = x
    # the deadline is a deadlock detector, not a speed test: a case that missed it is run again alone
    # with a generous deadline (a real deadlock never finishes)
    again = [i for i, x in enumerate(results) if x is not None and (x.get('hang') or not x.get('done')) and 'runner_error' not in x]
    if again:
        ctx.notes.append('%s: %d case(s) missed the deadline and were re-run alone' % (stream, len(again)))
        pl = [{'kind': payloads[0]['kind'], 'cases': [dict(cases[i], settle_deadline=30)], 'threads': 1, 'deadline': 120} for i in again[:40]]
        res2 = common.run_impl_parallel('c20_impl.py', pl, extra_env={'C20_TMP': common.scratch()}, timeout=400, maxpar=4)
        for i, (r, err) in zip(again, res2):
            if not err and r:
                c20_cover.absorb(stream, r)
                r[0]['rerun'] = True
                results[i] = r[0]
    return results


def judge_cache_cases(ctx, cases, results, stream, coq_cases, coq_meta):
    for case, r in zip(cases, results):
        if r is None:
            continue
        if 'runner_error' in r:
            ctx.fail('correspondence', '%s runner: %s' % (stream, r['runner_error'][-500:]), {'stream': stream, 'case': case})
            continue
        ops = case['ops']
        nontrivial = (sum(o[0] in ('set', 'setdefault', 'update') for o in ops) >= 1 and
                      sum(o[0] in ('getitem', 'get', 'pop', 'items', 'popitem') for o in ops) >= 1)
        ctx.count(stream, case, nontrivial=nontrivial, sample={'case': case, 'out': r.get('out')})
        replay = {'stream': stream, 'case': case, 'impl': r.get('out')}
        for o in ops:
            kk = o[0] + ('/' + o[3] if o[0] in ('get', 'pop', 'update') and len(o) > 3 and isinstance(o[3], str) else '')
            c20_cover.OPS_SEEN[kk] = c20_cover.OPS_SEEN.get(kk, 0) + 1
            if kk != o[0]:
                c20_cover.OPS_SEEN[o[0]] = c20_cover.OPS_SEEN.get(o[0], 0) + 1
        if r.get('hang') or not r.get('done'):
            ctx.fail('oracle', '%s: deadlock detector: %s' % (stream, r.get('hang', 'case did not finish')), replay)
            continue
        death_ok = bool(case.get('fail'))
        what, key, coq_ops = cache_oracle(case, r, death_ok)
        if what:
            ctx.fail('oracle', '%s (%s%s): %s' % (stream, case['storage'], ', threaded' if case.get('threading') else '', what),
                     replay, match_key=key)
        if len(r['out']) != len(ops):
            ctx.fail('oracle', '%s: %d outputs for %d operations' % (stream, len(r['out']), len(ops)), replay)
        if death_ok:
            # up to the first surfaced failure: the dict's answers (checked above).  Afterwards an operation
            # that raised may or may not have taken effect, so only: never a value that was never written
            seen = False
            written = {}
            orc = CacheOracle(case)
            for t, (op, o) in enumerate(zip(ops, r['out'])):
                if op[0] in ('set', 'setdefault'):
                    written.setdefault((op[1], op[2]), set()).add(op[3])
                if op[0] == 'update':
                    for k, v in op[2]:
                        written.setdefault((op[1], k), set()).add(v)
                died = (o[0] == 'exc' and o[1] in DEATH) or (op[0] == 'bool' and o == ['bool', False])
                if not seen and not died:
                    want = orc.step(op, o)
                    if want is not None and not same(o, want):
                        break       # reported above
                seen = seen or died
                if seen and o[0] == 'val' and o[1] not in written.get((op[1], op[2]), set()):
                    ctx.fail('oracle', '%s: after an injected disk failure step %d %r returned %s, which was never stored there' % (
                        stream, t, op, o), replay)
                    break
        if r.get('final_close') not in (None, 'ok') and not (what and key):
            ctx.fail('oracle', '%s: close() raised %s' % (stream, r.get('final_close')), replay)
        if r.get('worker_alive_after_close'):
            ctx.fail('oracle', '%s: worker thread still alive after close()' % stream, replay)
        if r.get('leftover'):
            ctx.fail('oracle', '%s: close() left files behind: %s' % (stream, r['leftover'][:3]), replay)
        if r.get('open_fds'):
            ctx.fail('oracle', '%s: file descriptors below the cache directory still open after close(): %s' % (
                stream, r['open_fds'][:3]), replay)
        if coq_ops and not death_ok:
            coq_cases.append(cache_coq_case(coq_ops))
            coq_meta.append((stream, case, r, key if what else None))


def stream_cache(ctx, boost):
    rng = ctx.rng
    coq_cases, coq_meta = [], []
    have_h5 = True
    try:
        import h5py  # noqa: F401
    except Exception:
        have_h5 = False
        ctx.notes.append('h5py not importable: Hdf5Storage not exercised')
    maxlen = ctx.pick(12, 40)
    # ---- sequential, small-exhaustive over one key (+ a second one) on the in-memory Storage
    cases = []
    alpha = small_cache_alphabet()
    for n in range(1, 6):
        for seq in itertools.product(alpha if n < 4 else (alpha[:8] if n == 4 else alpha[:6]), repeat=n):
            cases.append({'storage': 'Storage', 'ops': [list(o) for o in seq]})
    # ---- the same alphabet (overwrite of key 0 with a value of another type) up to length 3 on the disk storages
    if ctx.replay_in is None:
        for st in ['PickleStorage'] + (['Hdf5Storage'] if have_h5 else []):
            for n in range(1, 4):
                alpha_t = small_cache_alphabet(typed=True if n < 3 else 7000)
                for seq in itertools.product(alpha_t, repeat=n):
                    cases.append({'storage': st, 'ops': [list(o) for o in seq]})
    # ---- sequential, random, every storage class, sub-caches, closing
    nrand = ctx.pick(500, 5000) * boost
    for i in range(nrand):
        st = ['Storage', 'PickleStorage', 'Hdf5Storage'][i % 3] if have_h5 else ['Storage', 'PickleStorage'][i % 2]
        cases.append({'storage': st, 'ops': gen_cache_ops(rng, rng.randint(3, maxlen), no_overwrite=(st == 'Hdf5Storage' and rng.random() < 0.6))})
    results = run_cache_cases(ctx, cases, 1, 'cache')
    judge_cache_cases(ctx, cases, results, 'cache', coq_cases, coq_meta)
    # ---- with the worker thread, real scheduler, random delays inside the disk storage
    cases = []
    for i in range(ctx.pick(360, 3000) * boost):
        st = 'Hdf5Storage' if have_h5 and i % 4 == 3 else 'PickleStorage'
        cases.append({'storage': st, 'threading': True, 'max_queue_size': rng.choice([1, 2, 2, 3]),
                      'jitter': rng.randint(1, 10 ** 6) if rng.random() < 0.7 else 0,
                      'ops': gen_cache_ops(rng, rng.randint(3, maxlen), threaded=True, no_overwrite=(st == 'Hdf5Storage' and rng.random() < 0.7))})
    # every sequence up to length 2 of the small alphabet (overwrite with another type), then read back
    alpha_t = small_cache_alphabet(typed=True)
    for st in ['PickleStorage'] + (['Hdf5Storage'] if have_h5 else []):
        for n in range(1, 3):
            for seq in itertools.product(alpha_t, repeat=n):
                cases.append({'storage': st, 'threading': True, 'max_queue_size': 1 + (len(cases) % 2),
                              'ops': [list(o) for o in seq] + [['getitem', 0, 0], ['get', 0, 1]]})
    # injected disk failure: must surface as an error, never as a hang or a wrong value
    for i in range(ctx.pick(60, 500) * boost):
        ops = gen_cache_ops(rng, rng.randint(4, maxlen), threaded=True, subs=False, close=False)
        cases.append({'storage': 'PickleStorage', 'threading': True, 'max_queue_size': rng.choice([1, 2, 3]),
                      'fail': {'op': rng.choice(['load', 'load', 'save', 'delete']), 'key': rng.randrange(NKEYS), 'after': rng.randint(0, 2)},
                      'ops': ops})
    results = run_cache_cases(ctx, cases, 24, 'cache-threaded')
    judge_cache_cases(ctx, cases, results, 'cache-threaded', coq_cases, coq_meta)
    model_on_cache_cases(ctx, coq_cases, coq_meta)


def model_on_cache_cases(ctx, coq_cases, coq_meta, name='cases_c20_cache'):
    # ---- the Coq model on everything
    bad, err = common.coq_failing_indices(name, ['Base.Prelude', 'Model.Cache'], 'check_cache', coq_cases, shard=1500)
    if err:
        ctx.fail('correspondence', 'Model/Cache.v evaluation failed: ' + err[-600:], None)
    shown = 0
    for b in bad:
        stream, case, r, key = coq_meta[b]
        if key is None:
            shown += 1
            if shown > 5:
                continue
        ctx.fail('correspondence', 'Model/Cache.v and tenpy.tools.cache.DictCache disagree (%s)' % stream,
                 {'stream': stream, 'case': case, 'impl': r.get('out')}, match_key=key)
    ctx.cov['cache_traces_validated_against_model'] = ctx.cov.get('cache_traces_validated_against_model', 0) + len(coq_cases)


# ==========================================================================================

def replay(ctx):
    """./check C20 --replay file: run the recorded input again and judge it the same way"""
    import json
    doc = json.load(open(ctx.replay_in))
    inp = doc.get('input') or {}
    stream = inp.get('stream')
    if stream == 'events':
        stream_events(ctx, 1, only=[inp['ops']])
    elif stream in ('cache', 'cache-threaded', 'sched-cache'):
        case = inp['case']
        results = run_cache_cases(ctx, [case], 1, stream)
        coq_cases, coq_meta = [], []
        judge_cache_cases(ctx, [case], results, stream, coq_cases, coq_meta)
        if coq_cases:
            model_on_cache_cases(ctx, coq_cases, coq_meta)
    elif stream == 'sched-storage':
        import c20_sched
        c20_sched.check_storage_cases(ctx, [inp['case']])
    elif stream == 'file-storage':
        import c20_sched
        c20_sched.check_fs_cases(ctx, [inp['case']])
    elif stream == 'sched-close':
        import c20_sched
        c20_sched.check_close_cases(ctx, [inp['case']])
    elif stream == 'cache-open':
        c20_cover.stream_openopts(ctx, 1, only=[inp['case']])
    elif stream == 'worker':
        c20_cover.stream_worker(ctx, 1, only=[inp['case']])
    elif stream == 'events-api':
        c20_cover.stream_evapi(ctx, 1, only=[inp['case']])
    else:
        ctx.notes.append('replay file has no recorded input (proof obligation or runner failure): running the full check')
        return None
    return ctx.finish(RULE, 'replay of ' + ctx.replay_in)


def main(ctx):
    import time
    t0 = time.time()
    ctx.proof = common.check_proofs('C20', extra_targets=['Model/CacheCloseCheck.vo', 'Model/CacheFileCheck.vo'])
    boost = 1 if ctx.proof.ok else 3         # intensified search when an obligation is broken
    if ctx.replay_in:
        rc = replay(ctx)
        if rc is not None:
            return rc
    t1 = time.time()
    stream_events(ctx, boost)
    t2 = time.time()
    stream_cache(ctx, boost)
    t3 = time.time()
    ctx.cov['wall_breakdown_s'] = {'proofs': round(t1 - t0), 'events': round(t2 - t1), 'cache': round(t3 - t2)}
    try:
        import c20_sched
    except ImportError:
        c20_sched = None
    if c20_sched is not None:
        c20_sched.stream_sched(ctx, boost)
        c20_sched.stream_sched_close(ctx, boost)
        c20_sched.stream_file_storage(ctx, boost)
    t4 = time.time()
    c20_cover.stream_all(ctx, boost)
    c20_cover.table(ctx)
    ctx.cov.setdefault('wall_breakdown_s', {})['api-coverage streams'] = round(time.time() - t4)
    ctx.assumptions += [
        'C20 storage classes: Storage, PickleStorage, Hdf5Storage without the worker thread, PickleStorage and Hdf5Storage with it '
        '(CacheFile.open(use_threading=True)); ThreadedStorage around the in-memory Storage is not a configuration: '
        'ThreadedStorage.__init__ refuses a trivial disk_storage with ValueError ("doesn\'t make sense")',
        'C20 closing: the operations are those of the cache layer, where only the top CacheFile has close()/__exit__ (a sub-cache '
        'from create_subcache is a plain DictCache without close(); "the data is completely owned by the top-most Storage"). '
        'Calling Storage.close() directly on a sub-container and closing its parent afterwards (the parent\'s close() then raises '
        'ValueError("storage was already closed") and a PickleStorage parent leaves its directory behind) is Storage-level use the '
        'cache layer cannot produce: not generated (gen_fs_prog) and not judged; closing the parent first and a sub-container '
        'afterwards raises the documented ValueError of a second close and is generated',
        'C20 names: keys (k0..k3) and sub-cache names (a..d) are disjoint; an HDF5 group shares one namespace between keys and '
        'sub-group names by construction (create_subcache: "name of a hdf5 subgroup")',
        'C20 model: keys and values are integers; callbacks are abstracted to their return value',
        'C20 coverage table (evidence: coverage.api_coverage): public names and options of the three anchored modules are taken by '
        'reflection in the runner, line coverage by sys.monitoring in every runner process; a public name or option that is neither '
        'reached / drawn nor classified is a correspondence failure.  Classified as outside the property: the private storage classes '
        '_NumpyStorage / _NpcArrayStorage (not in __all__; the property names memory, pickle files and HDF5); Mapping.__eq__ and '
        'setdefault(key) without default (standard-library mixins; None is the harness\'s "absent"); the early return of '
        'ThreadedStorage.close / __exit__ for a sub-container closed directly',
        'C20 events, not judged (outside "all sequences of connect/disconnect/emit" and "call exactly the connected listeners in priority '
        'order"): (a) a listener that connects / disconnects listeners while emit() runs (in the code a listener disconnecting itself makes '
        'emit skip the next one); (b) which keyword arguments a listener receives when it was connected in the decorator form '
        '`@handler.connect(priority=..., extra_kwargs=...)` (the code drops extra_kwargs there); the decorator form is drawn with priority only',
        'C20 after close(): the closed CacheFile itself must not hand out data (its short-term copies are cleared, the storage refuses); a '
        'sub-cache made by create_subcache keeps its own short-term copies and, with the worker thread, its own preloaded values, and may '
        'still return those: not judged (bool(sub-cache) is False and writing fails, which is judged)',
        'C20 delete=False with the worker thread: close() drops queued saves (Model/CacheClose.v), so only the existence of the directory / '
        'file and closed handles are judged there; without the thread the directory / file must hold exactly the dict',
        'C20 not modelled: CPython GIL and queue.Queue internals (assumed a linearizable FIFO with blocking put/get/join), '
        'the real disk beyond one file per key (pickle / h5py internals), logging; close()/__exit__ of the CacheFile/DictCache layer and of '
        'sub-containers of a ThreadedStorage are oracle-checked only (ThreadedStorage.close + Worker.__exit__: Model/CacheClose.v, '
        'stream sched-close; PickleStorage sub-containers and close: Model/CacheFile.v, stream file-storage)',
    ]
    return ctx.finish(RULE, EXPLANATION)


RULE = ('events: every connect/disconnect/emit/emit_until sequence up to length 4 over 9 letters and up to length 7 over 4 letters, '
        '(quick: 6), plus random sequences; non-trivial = at least 2 connects and an emit.  cache: every sequence up to length 4 over a 10-letter '
        'alphabet on one key (in memory; up to length 3 on PickleStorage / Hdf5Storage, up to length 2 with the worker thread), plus '
        'random sequences (length <= 12 quick / 40 thorough) over 4 keys and up to 4 nested (sub-)caches for '
        'Storage / PickleStorage / Hdf5Storage, with and without the worker thread; overwrites, delete + set again and values of six '
        'Python types (int, list, dict, numpy array, str, tuple) and the falsy values 0, [], \'\', {} (0 is the second value of the exhaustive '
        'alphabet) for every storage class; operations: set, [], get (3 call forms), del, in, pop (2), popitem, setdefault, update (4), clear, '
        'keys / len / iter, items / values, preload, set_short_term_keys, create_subcache, bool, close and reads after close; '
        'non-trivial = at least one write and one read.  '
        'sched: worker schedules enforced by gates at the synchronisation points (see harness/c20_sched.py); distinct = distinct '
        '(storage, queue size, program, schedule).  sched-close: two fixed programs with close() under every schedule string of length 6 plus '
        'random programs with 0-3 close()/__exit__ calls; non-trivial = a close and another operation.  file-storage: random operation '
        'sequences on a PickleStorage tree of depth <= 3 (and, oracle only, on Storage and Hdf5Storage trees) incl. bool / repr / __exit__ / with; '
        'non-trivial = a save, a subcontainer and a close.  cache-open: the product of the documented options of CacheFile.open / '
        'PickleStorage.open / Hdf5Storage.open (storage class, use_threading, delete, directory / filename / tmpdir, mode, subgroup; '
        'DictCache.trivial, CacheFile.trivial) x the five ways of ending (close, __exit__, with, with + exception in the body, __enter__ + '
        '__exit__), random operation sequences, second / third sessions on what delete=False left; observed: outputs, file system, open file '
        'descriptors, worker thread.  worker: three fixed programs (put blocked > 1 s on a full queue; worker dies while the caller is '
        'blocked in put; use before __enter__ / after __exit__ / second __enter__) + random programs over put_task (args / kwargs / '
        'return_dict / return_key) / join_tasks / __enter__ / __exit__ / failing tasks; non-trivial = a put and a join.  events-api: random '
        'programs over up to 4 handlers related by copy(), all forms of connect and connect_by_name; non-trivial = 2 connects and an emit.')
EXPLANATION = ('theorems of coq/Props/C20.v (all histories, all schedules of the model); models tied to the code by vm_compute '
               'evaluation of every generated trace; oracle = plain dict / plain listener list / 5 s deadline')
