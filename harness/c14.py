"""C14 - time evolution: exp(-iHt), time and truncation-error accounting, Suzuki-Trotter schedule.

proof gate: coq/Props/C14.v (schedule theorems on the text REGENERATED from tebd.py; accounting theorem over
the engine table REGENERATED from the sources).  correspondence: generated schedule vs implementation;
accounting of real engines with injected dyadic truncation errors vs Model/TimeAcct.v; bonds touched per
step vs Model/Trotter.v; the steps real engines execute over one or several run() calls, merged over equal
parity with exact Fractions, vs Model/TrotterMerge.v `merge` (check_merge, Model/TrotterMergeCheck.v).  oracle: dense exp(-iHt)|psi0> (convergence order, norm, energy, charges).
"""
import math
from fractions import Fraction

import common
from common import coq_lit, CoqRaw, Nat

SPIN = {'cls': 'SpinChain', 'pars': {'L': 6, 'Jx': 1.0, 'Jy': 1.0, 'Jz': 0.7, 'hz': 0.2, 'bc_MPS': 'finite', 'conserve': 'best'}}
TFI = {'cls': 'TFIChain', 'pars': {'L': 6, 'J': 1.0, 'g': 1.3, 'bc_MPS': 'finite', 'conserve': None}}
ORDERS = [1, 2, 4, '4_opt']


def coq_order(o):
    return CoqRaw('(OInt %d)' % o) if isinstance(o, int) else CoqRaw('(OStr "%s"%%string)' % o)


def neel(L):
    return ['up', 'down'] * (L // 2) + ['up'] * (L % 2)


def model(base, L=None, bc=None, conserve=None):
    m = {'cls': base['cls'], 'pars': dict(base['pars'])}
    if L is not None:
        m['pars']['L'] = L
    if bc is not None:
        m['pars']['bc_MPS'] = bc
    if conserve is not None:
        m['pars']['conserve'] = conserve
    return m


ACCT_ENGINES = [
    ('TEBDEngine', {'order': 1}), ('TEBDEngine', {'order': 2}), ('TEBDEngine', {'order': 4}),
    ('TEBDEngine', {'order': '4_opt'}), ('QRBasedTEBDEngine', {'order': 2}),
    ('TwoSiteTDVPEngine', {}), ('SingleSiteTDVPEngine', {}),
    ('ExpMPOEvolution', {'compression_method': 'SVD', 'approximation': 'II'}),
    ('ExpMPOEvolution', {'compression_method': 'zip_up', 'approximation': 'I'}),
    ('TimeDependentTEBD', {'order': 2}), ('TimeDependentTwoSiteTDVP', {}),
    ('TimeDependentExpMPOEvolution', {'compression_method': 'SVD'}),
    ('RandomUnitaryEvolution', {}),
]


def main(ctx):
    rng = ctx.rng
    ctx.proof = common.check_proofs('C14', extra_targets=['Model/TrotterCheck.vo', 'Model/TrotterMergeCheck.vo', 'Model/TauAcct.vo'])
    boost = 1 if ctx.proof.ok else 2
    # ------------------------------------------------------------------ schedule stream (validates translator output)
    sched = []
    for o in ORDERS + [3, 'x']:
        for N in list(range(0, ctx.pick(8, 30))) + [rng.randint(30, 200)]:
            sched.append({'order': o, 'N': N})
    (res, err), = common.run_impl_parallel('c14_impl.py', [{'kind': 'schedule', 'cases': sched}])
    if err:
        ctx.fail('correspondence', 'schedule runner failed: ' + err[-500:], None)
        return ctx.finish(RULE)
    coq_cases = []
    for c, r in zip(sched, res):
        if 'runner_error' in r:
            ctx.fail('correspondence', r['runner_error'][-300:], c)
            continue
        o, N = c['order'], c['N']
        if o not in ORDERS:
            ctx.count('schedule-malformed', c, nontrivial=False)
            bad = []
            if N > 0 and 'steps_error' not in r:
                bad.append('decomposition accepted unknown order')
            if 'ds_error' not in r:
                bad.append('time_steps accepted unknown order')
            if bad:
                ctx.fail('oracle', 'unknown Suzuki-Trotter order %r: %s' % (o, bad), c)
            steps = None
        else:
            steps = [tuple(s) for s in r.get('steps', [])]
            ds = [float.fromhex(x) for x in r['ds']]
            # oracle: the schedule composes to exactly N time steps for each parity
            for k in (0, 1):
                tot = math.fsum(ds[j] for j, kk in steps if kk == k)
                if abs(tot - N) > 1e-12 * max(1, N):
                    ctx.fail('oracle', 'Suzuki-Trotter order %r, N=%d: parity %d is evolved by %.15g time steps' % (o, N, k, tot),
                             {'stream': 'schedule', 'case': c, 'steps': steps, 'ds': ds}, match_key='C14:schedule-time')
            if N >= 1 and o != 1 and steps != steps[::-1]:
                ctx.fail('oracle', 'Suzuki-Trotter order %r schedule for N=%d is not symmetric' % (o, N), {'stream': 'schedule', 'case': c})
            ctx.count('schedule', [o, N], nontrivial=N >= 1, sample={'order': o, 'N': N, 'steps': steps[:6]})
        # model <-> impl: the regenerated Gallina text computes exactly what the Python function returns
        coq_cases.append(coq_lit((coq_order(o), N, (None if 'steps_error' in r else common.Some([tuple(s) for s in r['steps']])))))
    bad, err = sched_coq(coq_cases)
    if err:
        ctx.fail('correspondence', 'schedule model evaluation failed: ' + err[-500:], None)
    for b in bad[:3]:
        ctx.fail('correspondence', 'translated suzuki_trotter_decomposition and the implementation disagree', sched[b])
    # time steps: translated polynomials evaluated at the float value of t1 equal the floats the code returns
    ts_cases = []
    for o in ORDERS:
        r = [x for c, x in zip(sched, res) if c['order'] == o][0]
        ds = [Fraction(float.fromhex(x)) for x in r['ds']]
        t1 = Fraction(1.0 / (4.0 - 4.0 ** (1 / 3.0)))
        ts_cases.append(coq_lit((coq_order(o), CoqRaw(qlit(t1)), [CoqRaw(qlit(d)) for d in ds])))
    bad, err = common.coq_failing_indices('cases_c14_ts', ['Base.Prelude', 'Base.PyLib', 'Gen.G_trotter', 'Model.Trotter', 'Model.TrotterCheck'],
                                          'check_time_steps', ts_cases, preamble='From Coq Require Import QArith.\n')
    if err:
        ctx.fail('correspondence', 'time step model evaluation failed: ' + err[-500:], None)
    for b in bad:
        ctx.fail('correspondence', 'translated suzuki_trotter_time_steps and the implementation disagree for order %r' % ORDERS[b], ORDERS[b])
    # ------------------------------------------------------------------ merge stream (ties Model/TrotterMerge.v)
    merge_stream(ctx, rng)
    # ------------------------------------------------------------------ accounting stream
    acases = []
    nacc = ctx.pick(2, 6) * boost
    for eng, eo in ACCT_ENGINES:
        for rep in range(nacc):
            base = SPIN if rng.random() < 0.6 or eng.startswith(('ExpMPO', 'TimeDependentExpMPO')) else TFI
            infinite = (rng.random() < 0.25 and 'TDVP' not in eng and eng != 'RandomUnitaryEvolution'
                        and eo.get('compression_method') != 'zip_up')
            L = rng.choice([4, 6]) if not infinite else 2
            m = model(base, L=L, bc='infinite' if infinite else 'finite')
            opts = dict(eo)
            opts['trunc_params'] = {'chi_max': rng.choice([2, 3, 4]), 'svd_min': 1e-12}
            if eng == 'RandomUnitaryEvolution':
                m = model(SPIN, L=L, conserve=None)
            runs = [[rng.randint(1, 3), rng.choice([4, 8, 16, 32])] for _ in range(rng.randint(1, 3))]
            imag = False
            acases.append({'seed': rng.randint(0, 10 ** 9), 'engine': eng, 'model': m, 'state': neel(L), 'options': opts,
                           't0_ticks': rng.choice([0, 0, 5, 100]), 'e0_units': rng.choice([0, 0, 3, 17]), 'runs': runs,
                           'imag': imag, 'direct_run_evolution': rng.random() < 0.3})
            if 'ExpMPO' in eng and opts.get('compression_method') in ('SVD', 'zip_up') and rep % 2 == 1 and not infinite:
                # (finite only: MPS.compress_svd of an infinite MPS sweeps several times over the unit cell and reports the
                # error of part of these sweeps, so 'the truncations it performed' is not a sum over all truncate() calls there)
                # errors injected one level deeper: at every truncate() inside MPO.apply (apply_zipup + compress_svd),
                # so that the sum MPO.apply returns is itself compared with the truncations performed
                acases[-1]['inject'] = 'truncate'
    chunks = [acases[i::common.NPROC] for i in range(common.NPROC)]
    chunks = [c for c in chunks if c]
    res = common.run_impl_parallel('c14_impl.py', [{'kind': 'accounting', 'cases': ch} for ch in chunks])
    coq_cases, coq_src = [], []
    for ch, (r, err) in zip(chunks, res):
        if err:
            ctx.fail('correspondence', 'accounting runner failed: ' + err[-600:], None)
            continue
        for c, x in zip(ch, r):
            if 'runner_error' in x:
                ctx.fail('correspondence', 'accounting run of %s failed: %s' % (c['engine'], x['runner_error'][-500:]), c)
                continue
            tot_e = sum(sum(h[2]) for h in x['history'])
            tot_t = sum(h[0] * h[1] for h in x['history'])
            t_ticks = x['time_re_ticks']
            other = x['time_im_ticks']
            ctx.count('accounting', [c['engine'], c['options'], c['runs'], c['seed']], nontrivial=tot_e > 0,
                      sample={'engine': c['engine'], 'options': c['options'], 'runs': c['runs'], 'eps_units_reported': x['eps_units'],
                              'eps_units_performed': tot_e + c['e0_units']})
            # ---- oracle (independent of the model): plain sums
            if abs(x['eps_units'] - (c['e0_units'] + tot_e)) > 1e-6:
                ratio = (x['eps_units'] - c['e0_units']) / tot_e if tot_e else float('nan')
                ctx.fail('oracle', '%s: reported trunc_err.eps = start + %.6g x (sum of the truncation errors performed)'
                         % (c['engine'], ratio), {'stream': 'accounting', 'case': c, 'impl': x},
                         match_key='C14:trunc_err:%s:x%.3g' % (c['engine'], ratio))
            if abs(t_ticks - (c['t0_ticks'] + tot_t)) > 1e-6 or abs(other) > 1e-9:
                ctx.fail('oracle', '%s: evolved_time %r (ticks) != start + sum N_steps*dt = %r' % (c['engine'], t_ticks, c['t0_ticks'] + tot_t),
                         {'stream': 'accounting', 'case': c, 'impl': x}, match_key='C14:evolved_time:%s' % c['engine'])
            # ---- Coq model of the accounting, instantiated with the engine's row of the regenerated table
            hist = []
            for (n, ticks, errs) in x['history']:
                groups = [errs] + [[] for _ in range(n - 1)]
                hist.append(((n, ticks), groups))
            coq_cases.append(coq_lit((c['engine'], c['t0_ticks'], c['e0_units'], [(h[0][0], h[0][1], h[1]) for h in hist],
                                      int(round(t_ticks)), int(round(x['eps_units'])))))
            coq_src.append((c, x))
    bad, err = common.coq_failing_indices('cases_c14_acct', ['Base.Prelude', 'Gen.G_acct', 'Model.TimeAcct', 'Model.TrotterCheck'],
                                          'check_acct_named', coq_cases, shard=100)
    if err:
        ctx.fail('correspondence', 'accounting model evaluation failed: ' + err[-500:], None)
    for b in bad[:3]:
        c, x = coq_src[b]
        ctx.fail('correspondence', 'Model/TimeAcct.v with the regenerated engine table and %s disagree' % c['engine'],
                 {'stream': 'accounting', 'case': c, 'impl': x})
    ctx.cov['traces_validated_against_impl'] = len(coq_cases)
    # ------------------------------------------------------------------ bond coverage stream
    ccases = []
    for eng in ['TEBDEngine', 'QRBasedTEBDEngine']:
        for order in ORDERS:
            for (L, bc) in [(4, 'finite'), (5, 'finite'), (6, 'finite'), (2, 'infinite'), (4, 'infinite')]:
                if ctx.tier == 'quick' and rng.random() < 0.5:
                    continue
                ccases.append({'engine': eng, 'model': model(SPIN, L=L, bc=bc), 'state': neel(L),
                               'options': {'order': order, 'dt': 0.05, 'N_steps': rng.randint(1, 3), 'trunc_params': {'chi_max': 8}}})
    chunks = [ccases[i::common.NPROC] for i in range(common.NPROC)]
    chunks = [c for c in chunks if c]
    res = common.run_impl_parallel('c14_impl.py', [{'kind': 'coverage', 'cases': ch} for ch in chunks])
    cov_cases, cov_src = [], []
    for ch, (r, err) in zip(chunks, res):
        if err:
            ctx.fail('correspondence', 'coverage runner failed: ' + err[-600:], None)
            continue
        for c, x in zip(ch, r):
            if 'runner_error' in x:
                ctx.fail('correspondence', 'coverage run failed: ' + x['runner_error'][-500:], c)
                continue
            L, fin = x['L'], x['finite']
            want = {1: [i for i in range(1, L, 2)], 0: [i for i in range(0, L, 2) if not (fin and i == 0)]}
            for (uidx, odd, bonds) in x['trace']:
                if bonds != want[odd]:
                    ctx.fail('oracle', 'evolve_step(odd=%d) on a %s chain of %d sites updated bonds %s, expected %s'
                             % (odd, 'finite' if fin else 'infinite', L, bonds, want[odd]), {'stream': 'coverage', 'case': c})
                cov_cases.append(coq_lit((Nat(L), fin, Nat(odd), [Nat(b) for b in bonds])))
                cov_src.append(c)
            # the sequence of (U index, parity) must be the schedule
            ctx.count('coverage', [c['engine'], c['options']['order'], L, fin], nontrivial=True,
                      sample={'L': L, 'finite': fin, 'trace': x['trace'][:4]})
    bad, err = common.coq_failing_indices('cases_c14_cov', ['Base.Prelude', 'Model.Trotter', 'Model.TrotterCheck'], 'check_bonds', cov_cases)
    if err:
        ctx.fail('correspondence', 'coverage model evaluation failed: ' + err[-500:], None)
    for b in bad[:3]:
        ctx.fail('correspondence', 'Model/Trotter.v step_bonds and TEBDEngine.evolve_step disagree', cov_src[b])
    # ------------------------------------------------------------------ dense oracle: exp(-iHt)
    dcases = []
    for order, p in [(1, 1), (2, 2), (4, 4), ('4_opt', 4)]:
        base_ticks = {1: 16, 2: 32, 4: 128, '4_opt': 128}[order]
        for m in ([model(SPIN, conserve='best'), model(TFI)] if ctx.thorough() else [model(SPIN, conserve='best')]):
            T_ticks = 512
            dcases.append({'engine': 'TEBDEngine', 'model': m, 'state': neel(6), 'order_p': p,
                           'options': {'order': order, 'trunc_params': {'chi_max': 64, 'svd_min': 1e-14, 'trunc_cut': None}},
                           'N_steps': 2, 'dts': [[base_ticks, T_ticks // base_ticks], [base_ticks // 2, 2 * T_ticks // base_ticks]]})
    dcases.append({'engine': 'QRBasedTEBDEngine', 'model': model(SPIN, conserve='best'), 'state': neel(6), 'order_p': 2,
                   'options': {'order': 2, 'trunc_params': {'chi_max': 64, 'svd_min': 1e-14, 'trunc_cut': None}}, 'N_steps': 2,
                   'dts': [[32, 16], [16, 32]]})
    for eng, p in [('TwoSiteTDVPEngine', 2), ('SingleSiteTDVPEngine', None)]:
        # (single-site TDVP cannot grow the bond dimension of a product state: only its conservation laws are checked)
        dcases.append({'engine': eng, 'model': model(SPIN, conserve='best'), 'state': neel(6), 'order_p': p, 'unitary': True,
                       'no_err_bound': eng == 'SingleSiteTDVPEngine',
                       'options': {'trunc_params': {'chi_max': 64, 'svd_min': 1e-14, 'trunc_cut': None}}, 'N_steps': 1,
                       'dts': [[32, 8], [16, 16]]})
    for approx, comp, o, p in [('I', 'SVD', 1, 1), ('II', 'SVD', 2, 2), ('II', 'zip_up', 1, 1), ('II', 'variational', 2, 2)]:
        dcases.append({'engine': 'ExpMPOEvolution', 'model': model(SPIN, conserve='best'), 'state': neel(6), 'order_p': p,
                       'options': {'order': o, 'approximation': approx, 'compression_method': comp,
                                   'trunc_params': {'chi_max': 64, 'svd_min': 1e-14, 'trunc_cut': None}}, 'N_steps': 1,
                       'dts': [[16, 16], [8, 32]]})
    NOTRUNC = {'chi_max': 64, 'svd_min': 1e-14, 'trunc_cut': None}
    # imaginary steps (dt = -i tau, preserve_norm=False): psi.norm * |psi> against exp(-tau H)|psi0> INCLUDING the norm
    for eng, o, p in [('TEBDEngine', {'order': 2}, 2), ('TEBDEngine', {'order': 4}, 4), ('QRBasedTEBDEngine', {'order': 2}, 2),
                      ('TwoSiteTDVPEngine', {}, 2), ('ExpMPOEvolution', {'order': 2, 'approximation': 'II', 'compression_method': 'SVD'}, 2),
                      ('ExpMPOEvolution', {'order': 1, 'approximation': 'I', 'compression_method': 'zip_up'}, 1)]:
        dcases.append({'engine': eng, 'model': model(TFI if eng == 'TEBDEngine' and o['order'] == 2 else SPIN, conserve='best'),
                       'state': neel(6), 'order_p': p, 'imag': True,
                       'options': dict(o, trunc_params=NOTRUNC), 'N_steps': 2 if 'TEBD' in eng else 1, 'dts': [[32, 8], [16, 16]]})
    # states of maximal bond dimension: one- and two-site TDVP are exact up to the Krylov tolerance, real and imaginary
    for eng in ('SingleSiteTDVPEngine', 'TwoSiteTDVPEngine'):
        for imag in (False, True):
            dcases.append({'engine': eng, 'model': model(SPIN, conserve='best'), 'state': neel(6), 'fullrank': True,
                           'order_p': None, 'exact': True, 'unitary': not imag, 'imag': imag,
                           'options': {'trunc_params': NOTRUNC}, 'N_steps': 1, 'dts': [[32, 8], [16, 16]]})
    dcases.append({'engine': 'TimeDependentTEBD', 'model': model(SPIN, conserve='best'), 'state': neel(6), 'order_p': 2,
                   'options': {'order': 2, 'trunc_params': {'chi_max': 64, 'svd_min': 1e-14, 'trunc_cut': None}}, 'N_steps': 2,
                   'dts': [[32, 16], [16, 32]]})
    res = common.run_impl_parallel('c14_impl.py', [{'kind': 'dense', 'cases': [c]} for c in dcases])
    for c, (r, err) in zip(dcases, res):
        if err:
            ctx.fail('correspondence', 'dense runner failed: ' + err[-600:], None)
            continue
        x = r[0]
        if 'runner_error' in x:
            ctx.fail('correspondence', 'dense run of %s failed: %s' % (c['engine'], x['runner_error'][-600:]), c)
            continue
        (a, b) = x['results']
        probs = []
        tag = '%s %s%s%s' % (c['engine'], {k: v for k, v in c['options'].items() if k != 'trunc_params'},
                             ' imaginary step' if c.get('imag') else '', ' full-rank state' if c.get('fullrank') else '')
        for y in (a, b):
            want = y['T']
            got = -y['evolved_im'] if c.get('imag') else y['evolved_re']
            if abs(got - want) > 1e-12 * max(1, abs(want)):
                probs.append('evolved_time %r != N*dt = %r' % (got, want))
            if y['q0'] != y['q1']:
                probs.append('total charge changed %s -> %s' % (y['q0'], y['q1']))
            if y['trunc_eps'] > 1e-20:
                probs.append('untruncated run reports trunc_err %g' % y['trunc_eps'])
            if not c.get('imag'):
                if (abs(y['vecnorm'] - 1) > max(1e-10, 5 * y['err']) or abs(y['E'] - y['E0']) > max(1e-9, 20 * y['err'])) and not c.get('no_err_bound'):
                    probs.append('norm %.3e / energy drift %.3e exceed the evolution error %.3e' % (y['vecnorm'] - 1, y['E'] - y['E0'], y['err']))
                if c.get('unitary') or c['engine'].endswith('TEBDEngine') or c['engine'] == 'TimeDependentTEBD':
                    if abs(y['vecnorm'] - 1) > 1e-9:
                        probs.append('unitary engine changed the norm by %.3e' % (y['vecnorm'] - 1))
        if c.get('exact') and max(a['err'], b['err']) > 1e-9:
            probs.append('tangent-space evolution of a state of maximal bond dimension deviates from exp(-iHt)|psi0> by %.3e '
                         '(norm ratio %.6f)' % (max(a['err'], b['err']), b['norm_ratio']))
        if b['err'] > 5e-2 and not c.get('no_err_bound'):
            probs.append('error %.3e against exp(-iHt)|psi0> does not become small' % b['err'])
        if c['order_p'] and a['err'] > 1e-9:
            ratio = a['err'] / max(b['err'], 1e-16)
            if ratio < 2 ** (c['order_p'] - 0.75):
                probs.append('halving dt reduces the error only by %.2f, documented order %d' % (ratio, c['order_p']))
        ctx.count('dense', [c['engine'], c['options'], bool(c.get('imag')), bool(c.get('fullrank'))], nontrivial=True,
                  sample={'engine': c['engine'], 'options': c['options'], 'imag': bool(c.get('imag')),
                          'fullrank': bool(c.get('fullrank')), 'err_dt': a['err'], 'err_dt_half': b['err']})
        if probs:
            ctx.fail('oracle', tag + ': ' + '; '.join(probs), {'stream': 'dense', 'case': c, 'impl': x}, match_key='C14:dense:' + c['engine'])
    imag_time_stream(ctx)
    ctx.assumptions += [
        'C14: float rounding of repeated addition is not modelled (time steps are multiples of 2^-10, injected truncation errors '
        'multiples of 2^-40, so all sums are exact in float64)',
        'C14 partial: the convergence-order, norm and energy clauses are decided by the dense oracle only (numeric), not by a theorem',
        'C14: translator/export_c14_acct.py recognises accumulation statements `self.X = self.X + e` / `self.X += e` in evolve / run_evolution',
    ]
    return ctx.finish(RULE, 'schedule theorems on the regenerated suzuki_trotter_* text; accounting theorem over the regenerated '
                      'engine table; model executed against real engines with injected exact truncation errors; dense exp(-iHt) oracle')


def imag_time_stream(ctx):
    """The dedicated imaginary-time entry points (TEBDEngine.run_GS through evolve / update_imag, and
    PurificationTEBD.run_imaginary): evolved_time = -i * (number of steps performed) * step, counted independently."""
    NOTRUNC = {'chi_max': 64, 'svd_min': 1e-14, 'trunc_cut': None}
    cases = []
    for eng, order, m in [('TEBDEngine', 2, model(TFI)), ('TEBDEngine', 1, model(SPIN, conserve='best')),
                          ('TEBDEngine', 4, model(SPIN, conserve='best')), ('QRBasedTEBDEngine', 4, model(TFI))]:
        cases.append({'kind': 'run_gs', 'engine': eng, 'model': m, 'state': neel(6), 'fullrank': order != 2,
                      'then_real': [[8, 3], [4, 1]] if order in (1, 2) else None,
                      'tau_ticks': [64, 16], 'options': {'order': order, 'N_steps': 2, 'max_error_E': 2.0 ** -9, 'trunc_params': NOTRUNC}})
    cases.append({'kind': 'purif', 'model': model(TFI, L=4), 'dt_ticks': 32, 'beta_ticks': [96, 200]})
    res = common.run_impl_parallel('c14_impl.py', [{'kind': c['kind'], 'cases': [c]} for c in cases])
    tau_cases, tau_src = [], []
    for c, (r, err) in zip(cases, res):
        if err or 'runner_error' in r[0]:
            ctx.fail('correspondence', 'imaginary-time runner failed: ' + (err or r[0]['runner_error'])[-600:], c)
            continue
        x = r[0]
        probs = []
        if c['kind'] == 'run_gs':
            tag = '%s.run_GS(order=%r)' % (c['engine'], c['options']['order'])
            gs = x['steps'][:x['n_gs']]
            if not gs or any(s[3] != 'imag' for s in gs) or any(s[3] != 'real' for s in x['steps'][x['n_gs']:]) \
                    or any(s[0] != int(s[0]) for s in x['steps']):
                ctx.fail('correspondence', tag + ': unexpected call pattern %r' % (x['steps'][:4],), c)
                continue
            want_re = sum(s[0] * s[1] for s in x['steps'] if s[3] == 'real')
            want_im = -sum(s[0] * s[1] for s in x['steps'] if s[3] == 'imag')
            # the same history through the model over the regenerated tau table (Gen/G_tau.v)
            if x['evolved_re_ticks'] == int(x['evolved_re_ticks']) and x['evolved_im_ticks'] == int(x['evolved_im_ticks']):
                tau_cases.append(coq_lit(([(str(s[3]), int(s[0]), int(s[1])) for s in x['steps']],
                                          int(x['evolved_re_ticks']), int(x['evolved_im_ticks']))))
                tau_src.append({'case': c, 'steps': x['steps']})
            if abs(x['evolved_im_ticks'] - want_im) > 1e-9 or abs(x['evolved_re_ticks'] - want_re) > 1e-9:
                probs.append('evolved_time (in 2^-10) %r after the calls [delta, N_steps, method, type_evo] %r, expected %r'
                             % (complex(x['evolved_re_ticks'], x['evolved_im_ticks']), x['steps'][:8], complex(want_re, want_im)))
            if x['q0'] != x['q1']:
                probs.append('total charge changed %s -> %s' % (x['q0'], x['q1']))
            if x['dir_err'] > 2e-2:
                probs.append('state deviates from exp(-tau H)|psi0>/norm by %.3e' % x['dir_err'])
            if x['E'] > x['E0'] + 1e-9:
                probs.append('energy increased in imaginary time: %.6f -> %.6f' % (x['E0'], x['E']))
            ctx.count('imag-time', [c['engine'], c['options']['order'], sorted(set(s[2] for s in x['steps']))], nontrivial=True,
                      sample={'engine': c['engine'], 'order': c['options']['order'], 'steps': x['steps'][:6], 'dir_err': x['dir_err']})
        else:
            tag = 'PurificationTEBD.run_imaginary'
            for y in x['results']:
                if abs(y['evolved_im'] + y['tau']) > 1e-12 or abs(y['evolved_re']) > 1e-12:
                    probs.append('evolved_time %r after update_imag calls %r, expected -i*%r' % (complex(y['evolved_re'], y['evolved_im']), y['N'], y['tau']))
                if abs(y['E'] - y['E_thermal']) > 2e-2 * abs(y['E_thermal'] - y['E_infT']):
                    probs.append('energy %.6f of the purification differs from the thermal value %.6f at beta=2*%.4f' % (y['E'], y['E_thermal'], y['tau']))
            ctx.count('imag-time', ['PurificationTEBD', len(x['results'])], nontrivial=True, sample=x['results'][-1])
        if probs:
            ctx.fail('oracle', tag + ': ' + '; '.join(probs), {'stream': 'imag-time', 'case': c, 'impl': x}, match_key='C14:imag-time:' + tag)
    bad, err = common.coq_failing_indices('cases_c14_tau', ['Base.Prelude', 'Gen.G_tau', 'Model.TauAcct'], 'check_tau', tau_cases)
    if err:
        ctx.fail('correspondence', 'tau model evaluation failed: ' + err[-500:], None)
    for b in bad[:3]:
        ctx.fail('correspondence', 'Model/TauAcct.v run_time over the regenerated tau table and the engine disagree on evolved_time', tau_src[b])
    ctx.count('imag-time', ['tau-model', len(tau_cases)], nontrivial=bool(tau_cases))


def py_merge(trace, coeff):
    """Independent of the Coq model: consecutive executed steps acting on the same parity of bonds are one
    evolution of those bonds by the SUM of their times (exact Fractions)."""
    out = []
    for j, k in trace:
        if out and out[-1][1] == k:
            out[-1][0] += coeff[j]
        else:
            out.append([coeff[j], k])
    return [(t, k) for t, k in out]


def merge_cases(ctx, rng):
    cases = []
    for o in ORDERS:
        # real engines: one run() call with N steps, and the same total split into several run() calls
        splits = [[1], [2], [3], [1, 1], [1, 2], [2, 1, 1], [rng.randint(4, 9)],
                  [rng.randint(1, 3) for _ in range(rng.randint(2, 4))]]
        if ctx.thorough():
            splits += [[rng.randint(1, 4) for _ in range(rng.randint(1, 5))] for _ in range(8)]
        for sp in splits:
            infinite = rng.random() < 0.3
            L = 2 if infinite else rng.choice([3, 4])
            eng = 'QRBasedTEBDEngine' if rng.random() < 0.25 else 'TEBDEngine'
            cases.append({'mode': 'engine', 'engine': eng, 'order': o, 'splits': sp, 'dt_exp': rng.randint(0, 6),
                          'model': model(TFI, L=L, bc='infinite' if infinite else 'finite'), 'state': neel(L),
                          'direct_run_evolution': rng.random() < 0.3})
        # the static methods alone, as TEBDEngine.evolve iterates over them (larger N)
        for N in [0, 1, 2, 3, 5, 8, 13, rng.randint(14, 40)]:
            cases.append({'mode': 'static', 'order': o, 'splits': [N]})
    return cases


def merge_stream(ctx, rng):
    cases = merge_cases(ctx, rng)
    chunks = [cases[i::8] for i in range(8)]
    chunks = [c for c in chunks if c]
    res = common.run_impl_parallel('c14_impl.py', [{'kind': 'merge', 'cases': ch} for ch in chunks])
    x_t1 = Fraction(1.0 / (4.0 - 4.0 ** (1 / 3.0)))
    coq_cases, src = [], []
    for ch, (r, err) in zip(chunks, res):
        if err:
            ctx.fail('correspondence', 'merge runner failed: ' + err[-600:], None)
            continue
        for c, x in zip(ch, r):
            if 'runner_error' in x:
                ctx.fail('correspondence', 'merge run failed: ' + x['runner_error'][-500:], c)
                continue
            N = sum(c['splits'])
            dt = Fraction(float.fromhex(x['delta_t']))
            coeff = [Fraction(float.fromhex(h)) / dt for h in x['coeff']]
            trace = [tuple(t) for t in x['trace']]
            merged = py_merge(trace, coeff)
            if x['evolved'] is not None and Fraction(float.fromhex(x['evolved'])) != N * dt:
                ctx.fail('oracle', 'TEBD order %r: evolved_time %r after %r steps of %r' % (c['order'], float.fromhex(x['evolved']), c['splits'], float(dt)),
                         {'stream': 'merge', 'case': c, 'impl': x}, match_key='C14:merge:evolved_time')
            ctx.count('merge', [c['mode'], c.get('engine'), c['order'], c['splits'], c.get('dt_exp')],
                      nontrivial=len(merged) < len(trace) or N > 1,
                      sample={'order': c['order'], 'splits': c['splits'], 'executed': len(trace), 'merged': len(merged),
                              'merged_head': [[str(t), k] for t, k in merged[:4]]})
            coq_cases.append(merge_lit(c['order'], c['splits'], x_t1, merged))
            src.append((c, x, merged))
    bad, err = common.coq_failing_indices('cases_c14_merge', ['Base.Prelude', 'Base.PyLib', 'Gen.G_trotter', 'Model.Trotter', 'Model.TrotterMerge',
                                                              'Model.TrotterMergeCheck'], 'check_merge', coq_cases, shard=40,
                                          preamble='From Coq Require Import QArith.\n')
    if err:
        ctx.fail('correspondence', 'merge model evaluation failed: ' + err[-500:], None)
    for b in bad[:3]:
        c, x, merged = src[b]
        ctx.fail('correspondence', 'order %r, run() calls with N_steps %r: the steps the engine executed, merged over equal parity, are not '
                 'Model/TrotterMerge.v `merge` of the %d-step schedule / of %d one-step schedules / of the schedules of these calls' % (c['order'], c['splits'], sum(c['splits']), sum(c['splits'])),
                 {'stream': 'merge', 'case': c, 'impl': x, 'merged': [[str(t), k] for t, k in merged]})
    ctx.cov['merge_cases_vs_model'] = len(coq_cases)


MERGE_TOL = {1: Fraction(0), 2: Fraction(0), 4: Fraction(0), '4_opt': Fraction(1, 10 ** 12)}


def merge_lit(order, splits, x, merged):
    lst = '[' + '; '.join('(%s, (%d)%%Z)' % (qlit(t), k) for t, k in merged) + ']' if merged else '(@nil (Q * Z))'
    return coq_lit((coq_order(order), list(splits), CoqRaw(qlit(x)), CoqRaw(qlit(MERGE_TOL[order])), CoqRaw(lst)))


def qlit(fr):
    return '(%d # %d)%%Q' % (fr.numerator, fr.denominator)


def sched_coq(coq_cases):
    return common.coq_failing_indices('cases_c14_sched', ['Base.Prelude', 'Base.PyLib', 'Gen.G_trotter', 'Model.Trotter', 'Model.TrotterCheck'],
                                      'check_schedule', coq_cases, shard=150)


RULE = ('schedule: all orders x N in 0..7 (+ one large N); merge: all orders x 8 splits of N into run() calls on real engines + 8 N (0..40) on the static methods; accounting: every engine class x options x random splits into run() calls, '
        'finite and infinite chains, non-trivial when at least one non-zero truncation error was injected; coverage: every evolve_step of '
        'real TEBD runs; dense: one or two models per engine/order at dt and dt/2')
