"""C12 - local Hilbert spaces: operator algebra, basis bookkeeping and fermionic signs.

proof gate (coq/Props/C12.v over the regenerated table coq/Gen/G_sites.v + the unbounded sign theorems of Model/JW.v)
+ streams:  table   exported table re-imported and compared with site.get_op(..).to_ndarray() (guards the exporter) and with the
                    documentation operators of harness/c12_oracle.py through Site.perm / state labels (oracle)
            terms   order_combine_term / (multi_)coupling_term_handle_JW  vs  Model/JW.v (vm_compute)  + dense product (oracle)
            mpo     TermList -> MPOGraph -> MPO -> dense  vs  product of explicit Jordan-Wigner operators; anticommutators
            grouped GroupedSite of 2-3 heterogeneous sites x charges policy  vs  kron with the JW of the left sites
            corr    correlation_function(autoJW) on random states  vs  dense <psi| A_i B_j |psi>
"""
import itertools
import os
import re

import numpy as np

import common
import c12_oracle as orc
from common import coq_lit, CoqRaw, Some

DEN = 4096
TOL = 1e-10

F17_KEY = 'C12:GroupedSite:charges=drop:heterogeneous-dims:IndexError'
F18_KEY = 'C12:GroupedSite:charges=same:after-set_common_charges:charge_to_JW_parity-list:TypeError'


# ---------------------------------------------------------------------------------------------------------------------
# parsing of the generated table
# ---------------------------------------------------------------------------------------------------------------------
def parse_g_sites(path):
    txt = open(path).read()
    if 'Definition all_configs' not in txt:
        return None
    body = txt.split('Definition all_configs', 1)[1]
    chunks = body.split('\n  mkCfg ')[1:]
    cfgs = []
    for ch in chunks:
        lines = ch.split('\n')
        m = re.match(r'"([^"]*)" "([^"]*)" "([^"]*)" (-?\d+) (-?\d+) (-?\d+) (-?\d+)$', lines[0].strip())
        cls, key, cons, dim, twoS, q, fill = m.groups()

        def ints(s):
            return [int(x) for x in re.findall(r'-?\d+', s)]
        c = {'class': cls, 'key': key, 'cons': cons, 'dim': int(dim), 'twoS': int(twoS), 'q': int(q), 'fill': int(fill),
             'perm': ints(lines[1]), 'labels': {a: int(b) for a, b in re.findall(r'\("([^"]*)", (-?\d+)\)', lines[2])}}
        mm = re.match(r'\s*(\[[^\]]*\]) (\[.*\])\s*$', lines[3])
        c['mod'] = ints(mm.group(1))
        c['charges'] = [ints(r) for r in re.findall(r'\[([^\[\]]*)\]', mm.group(2)[1:-1])] if c['mod'] else [[] for _ in range(int(dim))]
        c['jw'] = ints(lines[4])
        c['need_JW'] = re.findall(r'"([^"]*)"', lines[5])
        c['hc'] = dict(re.findall(r'\("([^"]*)", "([^"]*)"\)', lines[6]))
        ops = {}
        for ln in lines[8:]:
            mo = re.match(r'\s*mkOp "([^"]*)" (\d) (\[[^\]]*\]) \[(.*)\];?\s*$', ln)
            if mo:
                ents = [tuple(int(x) for x in e) for e in re.findall(r'\((-?\d+), (-?\d+), (-?\d+), (-?\d+)\)', mo.group(4))]
                ops[mo.group(1)] = {'kind': int(mo.group(2)), 'q': ints(mo.group(3)), 'ents': ents}
        c['ops'] = ops
        cfgs.append(c)
    return cfgs


def table_matrix(c, op):
    d = c['dim']
    m = np.zeros((d, d), dtype=complex)
    k = op['kind']
    for (r, cc, a, b) in op['ents']:
        if k == 0:
            m[r, cc] = (a + 1j * b) / DEN
        elif k == 1:
            m[r, cc] = (1j ** a) * np.sqrt(b / DEN)
        else:
            w = np.exp(2j * np.pi / c['q'])
            m[r, cc] = w ** a + (w ** b if b >= 0 else 0)
    return m


def kwargs_of(c):
    """constructor arguments of a table configuration, from its key / cons strings"""
    cls, key, cons = c['class'], c['key'], c['cons']
    sort = not cons.endswith('/nosort')
    cons0 = cons.replace('/nosort', '')
    kw = {}
    if cls == 'SpinHalfSite':
        kw = {'conserve': cons0}
    elif cls == 'SpinSite':
        kw = {'S': int(re.search(r'\((\d+)/2\)', key).group(1)) / 2., 'conserve': cons0}
    elif cls == 'FermionSite':
        kw = {'conserve': cons0, 'filling': float(re.search(r'\(([^)]*)\)', key).group(1))}
    elif cls in ('SpinHalfFermionSite', 'SpinHalfHoleSite'):
        cn, cs = ('None', 'None') if cons0 == 'None' else cons0.split(',')
        kw = {'cons_N': cn, 'cons_Sz': cs, 'filling': float(re.search(r'\(([^)]*)\)', key).group(1))}
    elif cls == 'BosonSite':
        a, b = re.search(r'\(([^)]*)\)', key).group(1).split(',')
        kw = {'Nmax': int(a), 'conserve': cons0, 'filling': float(b)}
    elif cls == 'ClockSite':
        kw = {'q': int(re.search(r'\((\d+)\)', key).group(1)), 'conserve': cons0}
    if not sort:
        kw['sort_charge'] = False
    return kw


def jmat(m):
    return np.array([[complex(a, b) for a, b in row] for row in m], dtype=complex)


def oracle_site(cls, kw, r):
    """impl dump `r` of one site vs the documentation (independent of the exported table and of the Coq model)"""
    probs = []
    doc = orc.doc_site(cls, kw)
    d = r['dim']
    if d != doc.dim:
        return ['dimension %d, documentation %d' % (d, doc.dim)]
    perm = r['perm']
    if sorted(perm) != list(range(d)):
        return ['perm %s is not a permutation' % perm]
    # perm[state_labels_conserved[s]] == state_labels_nonconserved[s]
    for k, lab in enumerate(doc.labels):
        if lab not in r['labels']:
            probs.append('state label %r missing' % lab)
        elif perm[r['labels'][lab]] != k:
            probs.append('perm[state_labels[%r]] = %d, documented basis index %d' % (lab, perm[r['labels'][lab]], k))
    excl = orc.excluded_ops(cls, kw)
    want_names = set(doc.ops) - excl
    got_names = set(r['ops'])
    if want_names != got_names:
        probs.append('operator names %s, documented %s' % (sorted(got_names ^ want_names), 'differ'))
    ix = np.ix_(perm, perm)
    mats = {}
    for n in sorted(got_names & set(doc.ops)):
        m = jmat(r['ops'][n]['m'])
        mats[n] = m
        if np.max(np.abs(m - doc.ops[n][ix])) > 1e-13:
            probs.append('operator %s is not the documented operator in the basis permuted by perm (max diff %.2e)'
                         % (n, np.max(np.abs(m - doc.ops[n][ix]))))
    # hc pairs
    for a, b in r['hc'].items():
        if a in mats and b in mats and np.max(np.abs(mats[a].conj().T - mats[b])) > 1e-13:
            probs.append('hc_ops pairs %s with %s but %s^dagger != %s' % (a, b, a, b))
        if r['hc'].get(b) != a:
            probs.append('hc_ops not symmetric for %s' % a)
    for n in got_names:
        if n not in r['hc']:
            probs.append('operator %s has no hc_ops entry although its conjugate exists' % n)
    if set(r['need_JW']) != {x for x in doc.need_JW if x in got_names}:
        probs.append('need_JW_string %s, documented %s' % (sorted(r['need_JW']), sorted(doc.need_JW)))
    # JW_exponent and flags
    if 'JW' in mats:
        jw = np.diag(mats['JW'])
        if np.max(np.abs(jw - np.exp(1j * np.pi * np.array(r['jw_exp'])))) > 1e-13 or np.max(np.abs(mats['JW'] - np.diag(jw))) > 0:
            probs.append('JW != diag(exp(i pi JW_exponent))')
        for n, m in mats.items():
            off = m - np.diag(np.diag(m))
            if np.max(np.abs(off)) < 1e-14:
                continue
            need = n in r['need_JW']
            anti = np.max(np.abs(mats['JW'] @ m + m @ mats['JW'])) < 1e-13
            comm = np.max(np.abs(mats['JW'] @ m - m @ mats['JW'])) < 1e-13
            if (need and not anti) or (not need and not comm):
                probs.append('operator %s: need_JW=%s but it does not %scommute with JW' % (n, need, 'anti' if need else ''))
    # charges
    q = np.array(r['charges']).reshape(d, -1)
    for n, m in mats.items():
        rr, cc = np.nonzero(np.abs(m) > 1e-14)
        qt = np.array(r['ops'][n]['q'])
        for a, b in zip(rr, cc):
            dq = q[a] - q[b] - qt
            if any((x != 0) if mm == 1 else (x % mm != 0) for x, mm in zip(dq, r['mod'])):
                probs.append('charge rule violated by %s at (%d, %d)' % (n, a, b))
                break
    # defining algebra, numerically on the implementation's matrices
    def com(a, b):
        return a @ b - b @ a

    def acom(a, b):
        return a @ b + b @ a
    I = np.eye(d)
    g = mats.get
    chk = []
    if 'Sp' in mats and 'Sz' in mats:
        chk += [('[Sz,Sp]=Sp', com(g('Sz'), g('Sp')) - g('Sp')), ('[Sz,Sm]=-Sm', com(g('Sz'), g('Sm')) + g('Sm')),
                ('[Sp,Sm]=2Sz', com(g('Sp'), g('Sm')) - 2 * g('Sz'))]
        if 'Sx' in mats:
            chk += [('[Sx,Sy]=iSz', com(g('Sx'), g('Sy')) - 1j * g('Sz')), ('[Sy,Sz]=iSx', com(g('Sy'), g('Sz')) - 1j * g('Sx')),
                    ('[Sz,Sx]=iSy', com(g('Sz'), g('Sx')) - 1j * g('Sy')), ('Sx+iSy=Sp', g('Sx') + 1j * g('Sy') - g('Sp'))]
            if cls in ('SpinSite', 'SpinHalfSite'):
                S = float(kw.get('S', 0.5))
                chk.append(('S.S=S(S+1)', g('Sx') @ g('Sx') + g('Sy') @ g('Sy') + g('Sz') @ g('Sz') - S * (S + 1) * I))
    if cls == 'FermionSite':
        chk += [('{C,Cd}=1', acom(g('C'), g('Cd')) - I), ('C^2=0', g('C') @ g('C')), ('N=Cd C', g('Cd') @ g('C') - g('N'))]
    if cls == 'SpinHalfFermionSite':
        for a in ['Cu', 'Cd']:
            chk.append(('{%s,%s^dag}=1' % (a, a), acom(g(a), g(a).conj().T) - I))
        chk += [('{Cu,Cd}=0', acom(g('Cu'), g('Cd'))), ('{Cu,Cdd}=0', acom(g('Cu'), g('Cdd'))), ('Cu^2', g('Cu') @ g('Cu'))]
    if cls == 'BosonSite':
        c_ = com(g('B'), g('Bd'))
        nd = np.real(np.diag(g('N')))
        below = nd < d - 1 - 0.5
        chk += [('[B,Bd]=1 below cutoff', (c_ - I)[np.ix_(below, below)]), ('N=Bd B', g('Bd') @ g('B') - g('N'))]
    if cls == 'ClockSite':
        w = np.exp(2j * np.pi / kw['q'])
        chk += [('XZ=wZX', g('X') @ g('Z') - w * g('Z') @ g('X')), ('X^q=1', np.linalg.matrix_power(g('X'), kw['q']) - I),
                ('Z^q=1', np.linalg.matrix_power(g('Z'), kw['q']) - I)]
    for name, m in chk:
        if m is not None and np.max(np.abs(m)) > 1e-12:
            probs.append('algebra %s violated (%.2e)' % (name, np.max(np.abs(m))))
    return probs


# ---------------------------------------------------------------------------------------------------------------------
# generators
# ---------------------------------------------------------------------------------------------------------------------
def spec(cls, **kw):
    return [cls, kw]


FERM_OPS = {'FermionSite': ['C', 'Cd'], 'SpinHalfFermionSite': ['Cu', 'Cdu', 'Cd', 'Cdd'], 'SpinHalfHoleSite': ['Cu', 'Cdu', 'Cd', 'Cdd']}
# (the sign operators JW, JWu, JWd carry the need_JW flag only as a bookkeeping device for names like 'Cd JW'; they are not
#  fermionic operators and are not used as explicit factors of terms here)
OTHER_OPS = {'FermionSite': ['N', 'dN', 'Id'], 'SpinHalfFermionSite': ['Nu', 'Ntot', 'Sz', 'Sp'],
             'SpinHalfHoleSite': ['Nd', 'Sz', 'Sm'], 'SpinHalfSite': ['Sz', 'Sp', 'Sm', 'Id'], 'SpinSite': ['Sz', 'Sp', 'Sm'],
             'BosonSite': ['B', 'Bd', 'N'], 'ClockSite': ['X', 'Z', 'Zhc']}


def none_spec(cls):
    if cls in ('SpinHalfFermionSite', 'SpinHalfHoleSite'):
        return spec(cls, cons_N='None', cons_Sz='None')
    if cls == 'SpinSite':
        return spec(cls, S=1.0, conserve='None')
    if cls == 'BosonSite':
        return spec(cls, Nmax=2, conserve='None')
    if cls == 'ClockSite':
        return spec(cls, q=3, conserve='None')
    return spec(cls, conserve='None')


def gen_term_case(rng, thorough):
    L = rng.randint(1, 6)
    classes = [rng.choice(['FermionSite', 'FermionSite', 'SpinHalfFermionSite', 'SpinHalfHoleSite', 'SpinHalfSite', 'BosonSite',
                           'SpinSite']) for _ in range(L)]
    if not any(c in FERM_OPS for c in classes):
        classes[rng.randrange(L)] = 'FermionSite'
    # keep the dense space small
    while np.prod([orc.doc_site(*none_spec(c)).dim for c in classes]) > 300:
        classes[rng.randrange(L)] = 'FermionSite'
    sites = [none_spec(c) for c in classes]
    n = rng.choice([1, 2, 2, 3, 3, 4, 4, 5, 6] + ([7, 8] if thorough else []))
    outside = rng.random() < 0.1
    term = []
    for _ in range(n):
        i = rng.randrange(L) if not outside else rng.randint(-L, 2 * L - 1)
        c = classes[i % L]
        if c in FERM_OPS and rng.random() < 0.7:
            op = rng.choice(FERM_OPS[c])
        else:
            op = rng.choice(OTHER_OPS[c])
        term.append([op, i])
    if rng.random() < 0.5:       # make the fermion parity even more often than chance
        flags = [orc.doc_site(*sites[i % L]).needs_JW(op) for op, i in term]
        if sum(flags) % 2 == 1:
            fsites = [k for k in range(L) if classes[k] in FERM_OPS]
            k = rng.choice(fsites)
            term.insert(rng.randrange(len(term) + 1), [rng.choice(FERM_OPS[classes[k]]), k if not outside else k + L * rng.choice([-1, 0, 1])])
    return {'sites': sites, 'term': term, 'dense': not outside}


def term_coq_case(case, r):
    """Coq literal: (items, combined, sign, multi) or None when the implementation's output can not be canonicalised"""
    docs = [orc.doc_site(*s) for s in case['sites']]
    L = len(docs)
    ids = {}

    def oid(name):
        return ids.setdefault(name, len(ids) + 1)
    items = [(oid(op), i, docs[i % L].needs_JW(op)) for op, i in case['term']]
    comb = [([oid(x) for x in op.split()], i) for op, i in r['combined']]
    sgn = r['sign'] == -1
    if r['sign'] not in (1, -1):
        return None
    multi = None
    if 'multi' in r:
        m = r['multi']
        if 'error' in m:
            multi = Some(None)
        else:
            if len(m['ops']) != len(r['combined']) or len(m['opstr']) != len(m['ops']) - 1:
                return None
            fl = []
            shift = m['ijkl'][0] - r['combined'][0][1] if m['ijkl'] else 0
            for (cop, ci), mop, mi in zip(r['combined'], m['ops'], m['ijkl']):
                if mop == cop:
                    a = False
                elif mop == cop + ' JW':
                    a = True
                else:
                    return None
                if mi - shift != ci or not (0 <= m['ijkl'][0] < L) or shift % L != 0:
                    return None
                fl.append((ci, a))
            if any(s not in ('JW', 'Id') for s in m['opstr']):
                return None
            multi = Some(Some((fl, [s == 'JW' for s in m['opstr']])))
    return coq_lit((items, comb, sgn, multi))


def mpo_cases(rng, ctx):
    cases = []
    for cons in ['N', 'parity', 'None']:
        for L in ([2, 3, 4, 5, 6] if cons == 'parity' or ctx.thorough() else [2, 4, 6] if cons == 'N' else [3, 5]):
            sites = [spec('FermionSite', conserve=cons, filling=0.5)] * L
            terms = [[[a, i], [b, j]] for i in range(L) for j in range(L) for a in ['C', 'Cd'] for b in ['C', 'Cd']]
            cases.append({'sites': sites, 'terms': terms, 'anticomm': True, 'tag': 'F^%d/%s' % (L, cons)})
    for (cn, cs) in [('N', 'Sz'), ('parity', 'None'), ('None', 'None'), ('N', 'parity')]:
        for L in [2, 3]:
            sites = [spec('SpinHalfFermionSite', cons_N=cn, cons_Sz=cs)] * L
            ops = FERM_OPS['SpinHalfFermionSite']
            terms = [[[a, i], [b, j]] for i in range(L) for j in range(L) for a in ops for b in ops]
            cases.append({'sites': sites, 'terms': terms, 'anticomm': True, 'tag': 'SF^%d/%s,%s' % (L, cn, cs)})
    mixed = [['FermionSite', 'SpinHalfSite', 'FermionSite', 'BosonSite', 'FermionSite'],
             ['SpinHalfFermionSite', 'FermionSite', 'SpinHalfSite', 'SpinHalfHoleSite'],
             ['SpinHalfHoleSite', 'FermionSite', 'SpinHalfHoleSite'],
             ['SpinSite', 'FermionSite', 'ClockSite', 'FermionSite', 'SpinHalfFermionSite']]
    for classes in mixed:
        sites = [none_spec(c) for c in classes]
        L = len(sites)
        fs = [(k, op) for k in range(L) if classes[k] in FERM_OPS for op in FERM_OPS[classes[k]]]
        terms = [[[a, i], [b, j]] for (i, a) in fs for (j, b) in fs]
        cases.append({'sites': sites, 'terms': terms, 'anticomm': True, 'tag': 'mixed ' + ','.join(classes)})
        # quadruples (any order, repeated sites) and terms with bosonic factors in between
        quads = []
        for _ in range(ctx.pick(60, 600)):
            t = [list(rng.choice(fs))[::-1] for _ in range(4)]
            if rng.random() < 0.5:
                k = rng.randrange(L)
                t.insert(rng.randrange(5), [rng.choice(OTHER_OPS[classes[k]]), k])
            quads.append(t)
        cases.append({'sites': sites, 'terms': quads, 'anticomm': False, 'tag': 'quadruples ' + ','.join(classes)})
    for L in [4, 6]:
        sites = [spec('FermionSite', conserve='parity')] * L
        quads = [[[rng.choice(['C', 'Cd']), rng.randrange(L)] for _ in range(4)] for _ in range(ctx.pick(80, 1500))]
        cases.append({'sites': sites, 'terms': quads, 'anticomm': False, 'tag': 'quadruples F^%d' % L})
    return cases


GROUP_POOL = [spec('FermionSite', conserve='N'), spec('FermionSite', conserve='parity'), spec('FermionSite', conserve='None'),
              spec('SpinHalfFermionSite', cons_N='N', cons_Sz='Sz'), spec('SpinHalfFermionSite', cons_N='parity', cons_Sz='None'),
              spec('SpinHalfHoleSite', cons_N='N', cons_Sz='parity'), spec('SpinHalfSite', conserve='Sz'),
              spec('SpinSite', S=1.0, conserve='parity'), spec('BosonSite', Nmax=2, conserve='N'), spec('ClockSite', q=3, conserve='Z')]


def grouped_cases(rng, ctx):
    cases = []
    pairs = list(itertools.product(range(len(GROUP_POOL)), repeat=2))
    triples = [tuple(rng.randrange(len(GROUP_POOL)) for _ in range(3)) for _ in range(ctx.pick(25, 200))]
    for combo in pairs + triples:
        sites = [GROUP_POOL[k] for k in combo]
        if np.prod([orc.doc_site(*s).dim for s in sites]) > 64:
            continue
        for pol in ['same', 'drop', 'independent']:
            c = {'sites': sites, 'charges': pol}
            if pol == 'same':
                c['common'] = 'same'      # GroupedSite(charges='same') requires a common ChargeInfo: set_common_charges first
            if rng.random() < 0.3:
                c['labels'] = ['a', 'b', 'c'][:len(sites)]
            cases.append(c)
    return cases


def corr_cases(rng, ctx):
    cases = []
    k = 0
    for cons in ['N', 'parity', 'None']:
        for L in [3, 5, 6] if not ctx.thorough() else [2, 3, 4, 5, 6]:
            for rep in range(ctx.pick(1, 4)):
                k += 1
                cases.append({'sites': [spec('FermionSite', conserve=cons)] * L, 'seed': ctx.seed * 1000 + k,
                              'pairs': [['Cd', 'C'], ['C', 'Cd'], ['C', 'C'], ['Cd', 'Cd'], ['N', 'N'], ['Cd', 'N C']]})
    for (cn, cs) in [('N', 'Sz'), ('parity', 'parity'), ('None', 'None')]:
        k += 1
        cases.append({'sites': [spec('SpinHalfFermionSite', cons_N=cn, cons_Sz=cs)] * 3, 'seed': ctx.seed * 1000 + k,
                      'pairs': [['Cdu', 'Cu'], ['Cdd', 'Cd'], ['Cu', 'Cdd'], ['Cdu', 'Cd'], ['Cd', 'Cdu'], ['Sp', 'Sm']]})
    k += 1
    cases.append({'sites': [none_spec('FermionSite'), none_spec('SpinHalfSite'), none_spec('FermionSite'), none_spec('SpinHalfSite'),
                            none_spec('FermionSite')], 'seed': ctx.seed * 1000 + k,
                  'pairs': [['Cd', 'C'], ['C', 'Cd'], ['C', 'C']], 'kwargs': {'sites1': [0, 2, 4], 'sites2': [0, 2, 4]}, 'subset': [0, 2, 4]})
    return cases


def chunked(cases, n):
    n = max(1, min(n, len(cases)))
    return [cases[i::n] for i in range(n)]


def run_chunks(ctx, kind, cases, n=None):
    """returns list of results aligned with cases (None for runner failures, which are recorded)"""
    n = n or common.NPROC
    chunks = chunked(cases, n)
    res = common.run_impl_parallel('c12_impl.py', [{'kind': kind, 'cases': ch} for ch in chunks], timeout=1500)
    out = [None] * len(cases)
    nn = len(chunks)
    for ci, (r, err) in enumerate(res):
        if err:
            ctx.fail('correspondence', '%s runner failed: %s' % (kind, err[-500:]), None)
            continue
        for j, x in enumerate(r):
            out[ci + j * nn] = x
    return out


import time as _time


def _tick(ctx, name, t0=[None]):
    now = _time.time()
    if t0[0] is not None:
        ctx.notes.append('stage %s: %.0fs' % (name, now - t0[0]))
    t0[0] = now


def main(ctx):
    rng = ctx.rng
    _tick(ctx, 'start')
    ctx.proof = common.check_proofs('C12')
    _tick(ctx, 'proofs')
    boost = 1 if ctx.proof.ok else 3          # intensified search when an obligation is broken
    hist = {}

    # ------------------------------------------------------------------ tables
    cfgs = parse_g_sites(os.path.join(common.COQ, 'Gen', 'G_sites.v'))
    if cfgs is None:
        ctx.fail('correspondence', 'coq/Gen/G_sites.v has no table (exporter failed closed): %s' % '; '.join(ctx.proof.problems[:3]), None)
        cfgs = []
    tcases = [{'class': c['class'], 'kwargs': kwargs_of(c), 'from_table': idx} for idx, c in enumerate(cfgs)]
    # beyond the exported table (oracle only): non-dyadic fillings, larger parameters
    extra = [{'class': 'FermionSite', 'kwargs': {'conserve': 'N', 'filling': 1. / 3}},
             {'class': 'BosonSite', 'kwargs': {'Nmax': 5, 'conserve': 'parity', 'filling': 0.3}},
             {'class': 'SpinHalfFermionSite', 'kwargs': {'cons_N': 'N', 'cons_Sz': 'parity', 'filling': 0.7}},
             {'class': 'SpinHalfHoleSite', 'kwargs': {'cons_N': 'parity', 'cons_Sz': 'Sz', 'filling': 0.9}},
             {'class': 'ClockSite', 'kwargs': {'q': 6, 'conserve': 'Z'}}, {'class': 'ClockSite', 'kwargs': {'q': 7, 'conserve': 'None'}},
             {'class': 'SpinSite', 'kwargs': {'S': 3.5, 'conserve': 'parity'}}, {'class': 'SpinSite', 'kwargs': {'S': 4.0, 'conserve': 'Sz'}}]
    if not cfgs:
        # no table: still run the oracle over the full parameter space
        for cls, conss in [('SpinHalfSite', ['Sz', 'parity', 'None']), ('FermionSite', ['N', 'parity', 'None'])]:
            extra += [{'class': cls, 'kwargs': {'conserve': c}} for c in conss]
        for S in [0.5, 1., 1.5, 2., 2.5, 3.]:
            extra += [{'class': 'SpinSite', 'kwargs': {'S': S, 'conserve': c}} for c in ['dipole', 'Sz', 'parity', 'None']]
        for cls in ['SpinHalfFermionSite', 'SpinHalfHoleSite']:
            extra += [{'class': cls, 'kwargs': {'cons_N': a, 'cons_Sz': b}} for a in ['N', 'parity', 'None'] for b in ['Sz', 'parity', 'None']]
        for n in [1, 2, 3, 4]:
            extra += [{'class': 'BosonSite', 'kwargs': {'Nmax': n, 'conserve': c}} for c in ['dipole', 'N', 'parity', 'None']]
        for q in [2, 3, 4, 5]:
            extra += [{'class': 'ClockSite', 'kwargs': {'q': q, 'conserve': c}} for c in ['Z', 'None']]
    tcases += extra
    tres = run_chunks(ctx, 'table', tcases)
    n_guard = 0
    for case, r in zip(tcases, tres):
        if r is None:
            continue
        tag = '%s(%s)' % (case['class'], ', '.join('%s=%r' % kv for kv in sorted(case['kwargs'].items())))
        if 'runner_error' in r:
            ctx.fail('oracle', 'constructing %s raised: %s' % (tag, r['runner_error'][-300:]), {'stream': 'table', 'case': case},
                     match_key='C12:table:constructor-raises')
            continue
        probs = oracle_site(case['class'], case['kwargs'], r)
        ctx.count('table', tag, nontrivial=True, sample={'site': tag, 'ops': sorted(r['ops']), 'perm': r['perm']})
        hist[case['class']] = hist.get(case['class'], 0) + 1
        if probs:
            ctx.fail('oracle', '%s: %s' % (tag, '; '.join(probs[:4])), {'stream': 'table', 'case': case, 'impl_perm': r['perm']},
                     match_key='C12:table:' + case['class'])
        if 'from_table' in case:
            c = cfgs[case['from_table']]
            bad = []
            if c['perm'] != r['perm'] or c['labels'] != r['labels'] or c['mod'] != r['mod'] or sorted(c['need_JW']) != r['need_JW'] \
                    or c['hc'] != r['hc'] or [list(x) for x in c['charges']] != [list(x) for x in r['charges']]:
                bad.append('perm/labels/charges/need_JW/hc_ops')
            if c['jw'] != [int(round(abs(x))) for x in r['jw_exp']]:
                bad.append('JW_exponent')
            if set(c['ops']) != set(r['ops']):
                bad.append('operator names')
            for n in set(c['ops']) & set(r['ops']):
                tol = 0.0 if c['ops'][n]['kind'] == 0 else 1e-12
                if np.max(np.abs(table_matrix(c, c['ops'][n]) - jmat(r['ops'][n]['m']))) > tol or c['ops'][n]['q'] != r['ops'][n]['q']:
                    bad.append('operator ' + n)
            n_guard += 1
            if bad:
                ctx.fail('correspondence', 'exported table G_sites.v of %s [%s] differs from the implementation: %s'
                         % (c['key'], c['cons'], ', '.join(bad[:5])), {'stream': 'table', 'case': case})
    ctx.cov['tables_reimported'] = n_guard
    _tick(ctx, 'tables')

    # ------------------------------------------------------------------ terms: model <-> implementation, dense oracle
    nterms = ctx.pick(1600, 16000) * boost
    cases = [gen_term_case(rng, ctx.thorough()) for _ in range(nterms)]
    res = run_chunks(ctx, 'terms', cases)
    coq_cases, coq_idx = [], []
    nodd = 0
    for idx, (case, r) in enumerate(zip(cases, res)):
        if r is None:
            continue
        if 'runner_error' in r:
            ctx.fail('oracle', 'order_combine_term / handle_JW raised on a valid term: ' + r['runner_error'][-300:],
                     {'stream': 'terms', 'case': case}, match_key='C12:terms:raises')
            continue
        docs = [orc.doc_site(*s) for s in case['sites']]
        flags = [docs[i % len(docs)].needs_JW(op) for op, i in case['term']]
        if flags != r['flags']:
            ctx.fail('oracle', 'op_needs_JW %s, documentation %s for term %s' % (r['flags'], flags, case['term']),
                     {'stream': 'terms', 'case': case}, match_key='C12:terms:op_needs_JW')
        odd = sum(flags) % 2 == 1
        nodd += odd
        if 'multi' in r and (('error' in r['multi']) != odd):
            ctx.fail('oracle', 'multi_coupling_term_handle_JW %s for a term with %s fermion parity: %s'
                     % ('raised' if 'error' in r['multi'] else 'accepted', 'odd' if odd else 'even', case['term']),
                     {'stream': 'terms', 'case': case, 'impl': r}, match_key='C12:terms:parity')
        if 'dense_diff' in r and r['dense_diff'] > TOL:
            ctx.fail('oracle', 'sign * (ordered operators with JW strings) differs from the product of the term %s: max diff %.2e; impl=%s'
                     % (case['term'], r['dense_diff'], {k: r[k] for k in ('combined', 'sign', 'multi')}),
                     {'stream': 'terms', 'case': case, 'impl': r}, match_key='C12:terms:dense')
        if 'coupling' in r and 'multi' in r and 'error' not in r['coupling'] and 'error' not in r['multi']:
            cp, mu = r['coupling'], r['multi']
            if [cp['op_i'], cp['op_j']] != mu['ops'] or [cp['opstr']] != mu['opstr']:
                ctx.fail('oracle', 'coupling_term_handle_JW %s and multi_coupling_term_handle_JW %s disagree' % (cp, mu),
                         {'stream': 'terms', 'case': case}, match_key='C12:terms:coupling')
        lit = term_coq_case(case, r)
        ctx.count('terms', case['term'], nontrivial=len(case['term']) > 1 and sum(flags) >= 2 and r.get('dense_norm', 1) > 0,
                  sample={'term': case['term'], 'combined': r['combined'], 'sign': r['sign'], 'multi': r.get('multi')})
        if lit is None:
            ctx.fail('correspondence', 'output of order_combine_term/handle_JW has an unexpected shape: %s' % r, {'stream': 'terms', 'case': case})
            continue
        coq_cases.append(lit)
        coq_idx.append(idx)
    bad, err = common.coq_failing_indices('cases_c12', ['Base.Prelude', 'Model.JW'], 'check_term_case', coq_cases)
    if err:
        ctx.fail('correspondence', 'model evaluation failed: ' + err[-600:], None)
    for b in bad[:5]:
        ctx.fail('correspondence', 'Model/JW.v and terms.order_combine_term / multi_coupling_term_handle_JW disagree',
                 {'stream': 'terms', 'case': cases[coq_idx[b]], 'impl': res[coq_idx[b]]})
    ctx.cov['traces_validated_against_impl'] = len(coq_cases)
    hist['terms_odd_parity'] = nodd
    # two-site handler CouplingTerms.coupling_term_handle_JW  vs  Model/JW.v coupling_term_handle_JW (theorem T12_coupling_JW)
    cpl_cases, cpl_idx = [], []
    for idx, (case, r) in enumerate(zip(cases, res)):
        if r is None or 'coupling' not in r or len(r.get('combined', [])) != 2 or len(r.get('comb_flags', [])) != 2:
            continue
        cp = r['coupling']
        (op_i, i), (op_j, j) = r['combined']
        if 'error' in cp:
            outc = None
        elif (cp['op_j'] != op_j or cp['i'] != i or cp['j'] != j or cp['opstr'] not in ('JW', 'Id')
              or cp['op_i'] not in (op_i, op_i + ' JW')):
            ctx.fail('correspondence', 'output of coupling_term_handle_JW has an unexpected shape: %s' % cp, {'stream': 'terms', 'case': case})
            continue
        else:
            outc = Some((cp['op_i'] != op_i, cp['opstr'] == 'JW'))
        cpl_cases.append(coq_lit((bool(r['comb_flags'][0]), bool(r['comb_flags'][1]), outc)))
        cpl_idx.append(idx)
    if cpl_cases:
        bad, err = common.coq_failing_indices('cases_c12_cpl', ['Base.Prelude', 'Model.JW', 'Model.JW2'], 'check_coupling_case', cpl_cases)
        if err:
            ctx.fail('correspondence', 'model evaluation failed (coupling): ' + err[-600:], None)
        for b in bad[:5]:
            ctx.fail('correspondence', 'Model/JW.v and terms.coupling_term_handle_JW disagree',
                     {'stream': 'terms', 'case': cases[cpl_idx[b]], 'impl': res[cpl_idx[b]]})
    hist['coupling_handler_cases'] = len(cpl_cases)
    _tick(ctx, 'terms')

    # ------------------------------------------------------------------ MPO: dense anticommutators
    mcases = mpo_cases(rng, ctx)
    mres = run_chunks(ctx, 'mpo', mcases, n=len(mcases))
    for case, r in zip(mcases, mres):
        if r is None:
            continue
        if isinstance(r, dict) and 'runner_error' in r:
            ctx.fail('correspondence', 'mpo runner failed: ' + r['runner_error'][-400:], {'stream': 'mpo', 'case': case['tag']})
            continue
        for term, x in zip(case['terms'], r):
            ctx.count('mpo', [case['tag'], term], nontrivial=x.get('norm', 0) > 0)
            if 'error' in x:
                ctx.fail('oracle', 'TermList -> MPO raised %s for term %s on %s' % (x['error'], term, case['tag']),
                         {'stream': 'mpo', 'sites': case['sites'], 'term': term}, match_key='C12:mpo:raises')
            elif x.get('g', 1.0) != 1.0:
                ctx.fail('oracle', 'TermList/MPO construction for term %s on %s wrote into the caller\'s strength array (1.0 became %r): '
                         'later terms built from the same array get the wrong sign' % (term, case['tag'], x['g']),
                         {'stream': 'mpo', 'sites': case['sites'], 'term': term}, match_key='C12:mpo:strength-array-mutated')
            elif x['diff'] > TOL:
                ctx.fail('oracle', 'dense MPO of term %s on %s differs from the product of Jordan-Wigner operators (max diff %.2e)'
                         % (term, case['tag'], x['diff']), {'stream': 'mpo', 'sites': case['sites'], 'term': term}, match_key='C12:mpo:dense')
            elif x.get('anti_diff', 0) > TOL:
                ctx.fail('oracle', 'anticommutator of %s through the MPO machinery on %s is wrong (max diff %.2e)'
                         % (term, case['tag'], x['anti_diff']), {'stream': 'mpo', 'sites': case['sites'], 'term': term}, match_key='C12:mpo:car')

    _tick(ctx, 'mpo')
    # ------------------------------------------------------------------ GroupedSite
    gcases = grouped_cases(rng, ctx)
    gres = run_chunks(ctx, 'grouped', gcases)
    nf17 = nf18 = 0
    for case, r in zip(gcases, gres):
        if r is None:
            continue
        dims = [orc.doc_site(*s).dim for s in case['sites']]
        tag = [[s[0], s[1]] for s in case['sites']] + [case['charges']]
        if 'runner_error' in r:
            ctx.fail('correspondence', 'grouped runner failed: ' + r['runner_error'][-400:], {'stream': 'grouped', 'case': case})
            continue
        if 'error' in r and case['charges'] == 'same' and r['error'] == 'ValueError' and 'different `mod` nature' in r.get('msg', ''):
            ctx.count('grouped', tag, nontrivial=False)      # no common charge exists for these sites: documented error
            continue
        ctx.count('grouped', tag, nontrivial='error' not in r and len(set(s[0] for s in case['sites'])) > 1)
        if 'error' in r:
            key = 'C12:GroupedSite:raises'
            if case['charges'] == 'drop' and len(set(dims)) > 1 and r['error'] == 'IndexError':
                key = F17_KEY
                nf17 += 1
            if case['charges'] == 'same' and r.get('used_common') and r['error'] == 'TypeError' and "'bool' object is not iterable" in r.get('msg', '') \
                    and 'c2JWps' in r.get('tb', ''):
                key = F18_KEY
                nf18 += 1
            ctx.fail('oracle', 'GroupedSite(%s, charges=%r) raised %s: %s' % ([s[0] for s in case['sites']], case['charges'], r['error'], r.get('msg', '')),
                     {'stream': 'grouped', 'case': case, 'traceback': r.get('tb', '')}, match_key=key)
        elif r['problems']:
            ctx.fail('oracle', 'GroupedSite(%s, charges=%r): %s' % ([s[0] for s in case['sites']], case['charges'], '; '.join(r['problems'][:4])),
                     {'stream': 'grouped', 'case': case}, match_key='C12:GroupedSite:operators')
    hist['grouped_drop_heterogeneous_IndexError'] = nf17
    hist['grouped_same_after_set_common_charges_TypeError'] = nf18

    _tick(ctx, 'grouped')
    # ------------------------------------------------------------------ correlation_function(autoJW)
    ccases = corr_cases(rng, ctx)
    cres = run_chunks(ctx, 'corr', ccases, n=len(ccases))
    for case, r in zip(ccases, cres):
        if r is None:
            continue
        if isinstance(r, dict) and 'runner_error' in r:
            ctx.fail('correspondence', 'corr runner failed: ' + r['runner_error'][-400:], {'stream': 'corr', 'case': case})
            continue
        for x in r:
            ctx.count('corr', [case['sites'], x['a'], x['b'], case['seed']], nontrivial=x.get('norm', 0) > 1e-8)
            if 'error' in x:
                ctx.fail('oracle', 'correlation_function(%r, %r) raised %s' % (x['a'], x['b'], x['error']), {'stream': 'corr', 'case': case},
                         match_key='C12:corr:raises')
            elif x['diff'] > TOL:
                ctx.fail('oracle', 'correlation_function(%r, %r)[%s] differs from dense <psi|A_i B_j|psi> with Jordan-Wigner strings by %.2e'
                         % (x['a'], x['b'], x['arg'], x['diff']), {'stream': 'corr', 'case': case, 'pair': [x['a'], x['b']]}, match_key='C12:corr:dense')
    _tick(ctx, 'corr')
    ctx.cov['input_distribution'] = hist
    ctx.assumptions += [
        'C12 tables: irrational entries (sqrt, roots of unity) are exported as squared entries / exponents after checking that the float '
        'value is within 1e-9 (squares) / 1e-13 (roots) of the exact value; algebra theorems for those operators are certificates over '
        'the squared entries (coq/Model/SiteTab.v)',
        'C12 JW model: operator names are abstract ids with a need_JW flag; multiplication of names on one site is list concatenation',
        'C12 not in Coq: GroupedSite, set_common_charges, MPOGraph construction and correlation_function contraction (dense oracle only)',
    ]
    return ctx.finish(RULE, 'theorems of coq/Props/C12.v over the regenerated site table and for all terms; Model/JW.v run against '
                      'order_combine_term / handle_JW on every generated term; dense numpy oracle from the documentation for tables, terms, '
                      'MPOs, grouped sites and fermionic correlation functions')


RULE = ('table: every configuration of G_sites.v + extra parameters (one case per site class x parameters x conserve); '
        'terms: random terms of 1-8 operators on heterogeneous chains of 1-6 sites (repeated sites, indices outside the unit cell, odd and '
        'even fermion parity), non-trivial when >= 2 operators need JW and the product is non-zero; mpo: all ordered pairs of fermionic '
        'operators on chains of 2-6 sites + random quadruples; grouped: all pairs + random triples of 10 heterogeneous sites x 3 charge '
        'policies, non-trivial when heterogeneous; corr: fermionic pairs on random entangled states.  distinct = distinct canonical inputs.')
